"""Expression evaluation of the symbolic executor.

ev(node, st) -> [(state, V)] : the normal continuations; exceptional
continuations are pushed to the executor's current sink (see Executor.raise_in).
"""
from __future__ import annotations

import ast

import z3

from . import ops
from .ops import Unsupported
from .state import Frame, HeapObj, State
from .values import (VTable, NONE, V, VBool, VBytes, VDictC, VExc, VExt, VFunc, VInt, VMod,
                     VNoneT, VReal, VRef, VSeq, VSetC, VStr, VTuple, VType, VUnk, fresh_name)

BUILTIN_TYPES = {"int", "str", "bytes", "bool", "float", "list", "dict", "tuple", "set",
                 "frozenset", "bytearray", "object", "type", "memoryview"}
BUILTIN_FUNCS = {"len", "range", "getattr", "setattr", "hasattr", "callable", "isinstance", "issubclass",
                 "min", "max", "sum", "any", "all", "zip", "enumerate", "reversed", "sorted",
                 "abs", "chr", "ord", "repr", "print", "iter", "next", "id", "hash", "open",
                 "divmod", "round", "map", "filter", "super", "vars", "format", "hex"}


class ExprMixin:
    # ------------------------------------------------------------- helpers --
    def truth(self, st, v: V) -> VBool:
        if isinstance(v, VBool):
            return v
        if isinstance(v, VInt):
            if v.is_bv:
                return VBool(v.t != 0)
            return VBool(v.t != 0)
        if isinstance(v, VReal):
            return VBool(v.t != 0)
        if isinstance(v, VStr):
            c = v.const()
            if c is not None:
                return VBool(len(c) > 0)
            return VBool(z3.Length(v.t) > 0)
        if isinstance(v, VNoneT):
            return VBool(False)
        if isinstance(v, (VTuple, VBytes)):
            return VBool(len(v.items) > 0)
        if isinstance(v, VDictC):
            return VBool(len(v.items) > 0)
        if isinstance(v, VSetC):
            return VBool(len(v.items) > 0)
        if isinstance(v, VSeq):
            return VBool(v.length > 0)
        if isinstance(v, (VExt, VFunc, VMod, VType, VExc)):
            return VBool(True)
        if isinstance(v, VRef):
            o = st.obj(v.ref)
            if o.kind in ("list", "bytearray", "dict") and o.data is not None:
                return VBool(len(o.data) > 0)
            if o.kind == "obj":
                return VBool(True)
            self.tag_havoc(st, "truth of unknown object")
            return VBool(z3.Bool(fresh_name("truth")))
        if isinstance(v, VUnk):
            self.tag_havoc(st, f"truth of unknown {v.tag}"[:60])
            return VBool(z3.Bool(fresh_name("truth")))
        raise Unsupported(f"truth of {v!r}")

    def concrete_items(self, st, v: V):
        """Python list of V if v is an iterable of concrete length, else None."""
        if isinstance(v, (VTuple, VBytes)):
            return list(v.items)
        if isinstance(v, VRef):
            o = st.obj(v.ref)
            if o.kind in ("list", "bytearray") and o.data is not None:
                return list(o.data)
            if o.kind == "dict" and o.data is not None:
                return [ops.lift(k) for k in o.data]
            return None
        if isinstance(v, VDictC):
            return [ops.lift(k) for k in v.items]
        if isinstance(v, VSetC):
            return [ops.lift(k) for k in v.items]
        if isinstance(v, VStr):
            c = v.const()
            if c is not None:
                return [VStr(ch) for ch in c]
        return None

    def new_list(self, st, items, kind="list") -> VRef:
        return VRef(st.alloc(HeapObj(kind, list(items)), self.refs))

    def new_obj(self, st, cls, fields) -> VRef:
        return VRef(st.alloc(HeapObj("obj", dict(fields), cls), self.refs))

    def binop(self, st, op, a, b, node, inplace=False):
        """-> [(state, V)]; V None means an in-place mutation was performed."""
        if isinstance(a, VUnk) or isinstance(b, VUnk):
            self.exc_any(st.fork(), f"{self.loc(node)} op on unknown")
            return [(st, VUnk("binop"))]
        if isinstance(a, VRef) and op == "Add":
            ia = self.concrete_items(st, a)
            ib = self.concrete_items(st, b)
            if ia is not None and ib is not None:
                if inplace:
                    st.wobj(a.ref).data = ia + ib
                    return [(st, None)]
                return [(st, self.new_list(st, ia + ib, st.obj(a.ref).kind))]
        if isinstance(a, VRef) and op == "Mult" and isinstance(b, VInt):
            ia = self.concrete_items(st, a)
            n = b.const()
            if ia is not None and n is not None:
                return [(st, self.new_list(st, ia * max(n, 0), st.obj(a.ref).kind))]
        if op in ("Div", "FloorDiv", "Mod") and isinstance(b, (VInt, VReal, VBool)) and isinstance(a, (VInt, VReal, VBool)):
            zero = ops.eq_term(b, VInt(0))
            st = self.fork_raise(st, zero, "ZeroDivisionError")
            if st is None:
                return []
        if op == "Mod" and isinstance(a, VStr):
            r = self.percent_template(st, a.const(), b)
            if r is not None:
                return [(st, r)]
            return [(st, self.opaque_str(st, "percent-format", node))]   # %-formatting the engine does not follow: opaque text
        try:
            return [(st, ops.pure_binop(op, a, b))]
        except Unsupported as e:
            raise Unsupported(f"{self.loc(node)} {e}")

    # ------------------------------------------------------------ dispatcher --
    def ev(self, node, st):
        m = getattr(self, "e_" + type(node).__name__, None)
        if not self.abstract:
            if m is None:
                self.unsupported(node, f"expression {type(node).__name__}")
            return m(node, st)
        npc = len(st.pc)
        try:
            if m is None:
                self.unsupported(node, f"expression {type(node).__name__}")
            return m(node, st)
        except Unsupported as e:
            # abstract mode: the expression may do anything to reachable state, raise any Exception,
            # and yields an unknown value -- a sound over-approximation for safety properties
            del st.pc[npc:]
            self.abstracted.append(str(e)[:160])
            self.havoc_everything(st)
            self.exc_any(st.fork(), f"{self.loc(node)} abstracted expression")
            return [(st, VUnk("abstracted"))]

    def havoc_everything(self, st):
        for fr in st.frames:
            for k, v in list(fr.env.items()):
                if not isinstance(v, (VFunc, VType, VMod, VUnk)):
                    fr.env[k] = VUnk(f"havoc:{k}")
        for r in list(st.heap):
            o = st.heap[r]
            st.heap[r] = HeapObj("unk", None, o.cls, o.fresh)

    def ev_list(self, nodes, st):
        """Evaluate expressions left to right -> [(state, [V...])]."""
        acc = [(st, [])]
        for n in nodes:
            nxt = []
            for (s, vals) in acc:
                if isinstance(n, ast.Starred):
                    for (s2, v) in self.ev(n.value, s):
                        items = self.concrete_items(s2, v)
                        if items is None:
                            self.unsupported(n, "starred of symbolic iterable")
                        nxt.append((s2, vals + items))
                else:
                    for (s2, v) in self.ev(n, s):
                        nxt.append((s2, vals + [v]))
            acc = nxt
        return acc

    def e_Constant(self, n, st):
        v = n.value
        if v is Ellipsis:
            return [(st, VUnk("ellipsis"))]
        return [(st, ops.lift(v))]

    def e_Name(self, n, st):
        v = st.lookup(n.id)
        if v is not None:
            return [(st, v)]
        if getattr(self.reg, "global_cells", False):
            r = self.read_global_cell(st, n.id, n)
            if r is not None:
                return r
        return [(st, self.global_name(n.id, n))]

    # ---- module globals that functions assign (`global X; X = ...`): opt-in with `reg.global_cells = True` ------------------
    # A global of the module under execution that some function of the module declares `global` and binds is a *cell*: what a
    # read sees is (a) the value the current path stored or read last (ghost ("global", rel, name); dropped when a callee is applied by
    # contract, since the callee may store), else (b) any member of the cell's value set S -- the least set that contains the
    # module-level initialiser and every value that a writer function, executed by the engine from a state in which the cell
    # holds a member of S and with unknown parameters, stores.  S is computed by fixpoint iteration and exists only when all its
    # members are *closed* (functions, types, modules, None, literals, tuples of those): a memo / lazily resolved import.  A read
    # then forks over S (inductive module invariant "X in S": holds after import, preserved by every function that can assign X).
    # When a stored value is not closed but it and all members of S are ints (or all bools, or all strs) the cell is "some value
    # of that type" (a counter, a flag): a read gives a fresh symbolic value of the type (invariant: the type).
    # Anything else -- writers outside the subset, a stored value that depends on a parameter, no fixpoint in 4 rounds, a binding
    # form other than plain assignment, `globals()` / `setattr` in the module -- makes the read an unknown value (VUnk), never the
    # initialiser.  `reg.module_consts` overrides win (a pack's own model of a configuration object).  Not covered (assumed):
    # stores from other modules (`mod.X = ...`).
    def store_global(self, st, name, v):
        st.ghost[("global", self.module.rel, name)] = v
        coll = getattr(self.reg, "_gcell_collect", None)
        if coll is not None:
            coll.append(((self.module.rel, name), v))

    def drop_global_cells(self, st):
        for k in [k for k in st.ghost if isinstance(k, tuple) and len(k) == 3 and k[0] == "global"]:
            del st.ghost[k]

    def global_writers(self, name):
        mod = self.module
        idx = getattr(mod, "_gwriters", None)
        if idx is None:
            idx = mod._gwriters = {}
            for q, fn in mod.functions.items():
                for x in ast.walk(fn):
                    if isinstance(x, ast.Global):
                        for nm in x.names:
                            if q not in idx.setdefault(nm, []):
                                idx[nm].append(q)
            mod._greflect = any(isinstance(x, ast.Name) and x.id in ("globals", "setattr", "vars", "exec", "eval") for x in ast.walk(mod.tree))
        return idx.get(name, [])

    @staticmethod
    def closed_value_key(v):
        """hashable identity of a closed value, None when the value is not closed"""
        if isinstance(v, VNoneT):
            return ("none",)
        if isinstance(v, VFunc) and v.how in ("repo", "ext", "builtin") and all(isinstance(x, (str, type(None))) for x in (v.a, v.b)):
            return ("func", v.how, v.a, v.b)
        if isinstance(v, VType):
            return ("type", v.name)
        if isinstance(v, VMod):
            return ("mod", v.name)
        if isinstance(v, (VStr, VInt, VBool)) and z3.is_expr(v.t):
            t = z3.simplify(v.t)
            if z3.is_string_value(t) or z3.is_int_value(t) or z3.is_true(t) or z3.is_false(t) or z3.is_bv_value(t):
                return ("lit", type(v).__name__, t.sexpr())
            return None
        if isinstance(v, VTuple):
            ks = [ExprMixin.closed_value_key(x) for x in v.items]
            return None if any(k is None for k in ks) else ("tuple", tuple(ks))
        return None

    def global_cell_values(self, name):
        """-> list of closed values (the set S) or None (unknown)"""
        mod = self.module
        cells = getattr(mod, "_gcells", None)
        if cells is None:
            cells = mod._gcells = {}
        if name in cells:
            return cells[name]
        writers = self.global_writers(name)
        if getattr(mod, "_greflect", False) or name not in mod.assigns:
            cells[name] = None
            return None
        # binding forms other than `X = value` / `X: T = value` / `X op= value` inside a writer are not collected -> unknown
        for q in writers:
            for x in ast.walk(mod.functions[q]):
                bad = None
                if isinstance(x, (ast.For, ast.AsyncFor, ast.NamedExpr, ast.comprehension)):     # (augmented assignment goes through assign())
                    bad = x.target
                elif isinstance(x, ast.withitem):
                    bad = x.optional_vars
                elif isinstance(x, ast.ExceptHandler) and x.name == name:
                    cells[name] = None
                    return None
                elif isinstance(x, (ast.Import, ast.ImportFrom)) and any((a.asname or a.name.split(".")[0]) == name for a in x.names):
                    cells[name] = None
                    return None
                elif isinstance(x, (ast.FunctionDef, ast.AsyncFunctionDef, ast.ClassDef)) and x.name == name and x is not mod.functions[q]:
                    cells[name] = None
                    return None
                elif isinstance(x, ast.Delete):
                    bad = ast.Tuple(elts=list(x.targets))
                if bad is not None and any(isinstance(y, ast.Name) and y.id == name for y in ast.walk(bad)):
                    cells[name] = None
                    return None
        try:
            init = self.module_const(name)
        except Unsupported:
            init = None
        k0 = self.closed_value_key(init) if init is not None else None
        if k0 is None:
            cells[name] = None
            return None
        S = {k0: init}
        sort = None            # VInt / VBool / VStr: "some value of that type" (counters, flags) once a stored value is not closed
        saved = getattr(self.reg, "_gcell_collect", None)
        try:
            for _round in range(5):
                cells[name] = ("sort", sort) if sort is not None else list(S.values())   # what reads inside the writers see
                grown = False
                for q in writers:
                    coll = self.reg._gcell_collect = []
                    fnode = mod.functions[q]
                    a = fnode.args
                    env = {p.arg: VUnk(f"param:{p.arg}") for p in a.posonlyargs + a.args + a.kwonlyargs}
                    if a.vararg is not None:
                        env[a.vararg.arg] = VUnk("param:*")
                    if a.kwarg is not None:
                        env[a.kwarg.arg] = VUnk("param:**")
                    sub = self.sub_executor(mod)
                    sub.sinks = [[]]
                    sub.contract = None
                    sub.inline_depth = 1          # no loop specs of the function under verification apply
                    try:
                        sub.run_body(State(), fnode, env, None)
                    except Exception:             # Unsupported, PathLimit, ...: the writer is outside the subset
                        cells[name] = None
                        return None
                    for (key, v) in coll:
                        if key != (mod.rel, name):
                            continue
                        if sort is not None:
                            if type(v) is not sort or (sort is VInt and v.is_bv):
                                cells[name] = None
                                return None
                            continue
                        kv = self.closed_value_key(v)
                        if kv is None:
                            if type(v) in (VInt, VBool, VStr) and not (type(v) is VInt and v.is_bv) and all(type(x) is type(v) for x in S.values()):
                                sort, grown = type(v), True
                                continue
                            cells[name] = None
                            return None
                        if kv not in S:
                            S[kv] = v
                            grown = True
                if not grown:
                    cells[name] = ("sort", sort) if sort is not None else list(S.values())
                    return cells[name]
                if sort is None and _round >= 1:
                    # widening: a set of literals of one type that is still growing (a counter) becomes "some value of the type"
                    kinds = {type(x) for x in S.values()}
                    if len(kinds) == 1 and next(iter(kinds)) in (VInt, VBool, VStr) and not any(type(x) is VInt and x.is_bv for x in S.values()):
                        sort = next(iter(kinds))
            cells[name] = None
            return None
        finally:
            self.reg._gcell_collect = saved

    def read_global_cell(self, st, name, node=None):
        """-> [(state, value)] for a read of a function-assigned module global, None when `name` is not one"""
        key = ("global", self.module.rel, name)
        if key in st.ghost:
            return [(st, st.ghost[key])]
        if (self.module.rel, name) in self.reg.module_consts:
            return None
        if not self.global_writers(name):
            return None
        vals = self.global_cell_values(name)
        if vals is None:
            return [(st, self.unknown_global(st, name))]
        if isinstance(vals, tuple):        # ("sort", cls): some value of that type
            cls = vals[1]
            nm = fresh_name(f"global_{name}")
            v = VInt(z3.Int(nm)) if cls is VInt else VBool(z3.Bool(nm)) if cls is VBool else VStr(z3.String(nm))
            st.ghost[key] = v
            return [(st, v)]
        out = []
        for v in vals:
            s2 = st.fork() if len(vals) > 1 else st
            s2.ghost[key] = v          # the path has chosen: later reads see the same value until a store / a modular call
            out.append((s2, v))
        return out

    def unknown_global(self, st, name):
        return VUnk(f"global:{name}")

    def global_name(self, name, node=None) -> V:
        key = (self.module.rel, name)
        if key in self.reg.module_consts:
            return self.reg.module_consts[key]
        mod = self.module
        if name in mod.functions and "." not in name:
            return VFunc("repo", mod.rel, name)
        if name in mod.classes:
            return VType(name)
        if name in mod.assigns:
            if name not in mod.classes and self.functional_namedtuple_fields(name) is not None:
                return VType(name)          # X = namedtuple("X", ...): a record class of the module
            v = self.module_const(name)
            return v
        if name in mod.imports:
            return self.resolve_dotted(mod.imports[name])
        if name in ("True", "False", "None"):
            return ops.lift({"True": True, "False": False, "None": None}[name])
        if self.uni.known(name):
            return VType(name)
        if name in BUILTIN_TYPES:
            return VType(name)
        if name in BUILTIN_FUNCS:
            return VFunc("builtin", name)
        if name == "__name__":
            return VStr(mod.rel)
        raise Unsupported(f"{self.loc(node) if node else ''} unresolved name {name}")

    def module_const(self, name) -> V:
        mod = self.module
        cache = getattr(mod, "_vconsts", None)
        if cache is None:
            cache = mod._vconsts = {}
        if name in cache:
            return cache[name]
        expr = mod.assigns[name]
        try:
            pyv = ast.literal_eval(expr)
            v = self.lift_const(pyv, name)
        except (ValueError, SyntaxError, TypeError):
            v = self.eval_module_expr(expr, name)
        cache[name] = v
        return v

    def lift_const(self, pyv, name=None) -> V:
        if isinstance(pyv, dict):
            return VDictC({k: self.lift_const(v) for k, v in pyv.items()}, name)
        if isinstance(pyv, (set, frozenset)):
            return VSetC(pyv, name)
        if isinstance(pyv, list):
            return VTuple([self.lift_const(x) for x in pyv])   # module-level list literal: treated immutable
        if isinstance(pyv, tuple):
            return VTuple([self.lift_const(x) for x in pyv])
        return ops.lift(pyv)

    def eval_module_expr(self, expr, name) -> V:
        """Symbolically execute a module-level initialiser (computed tables)."""
        st = State()
        self.sinks.append([])
        try:
            depth = self.inline_depth
            self.inline_depth += 1    # module-level code: no loop specs of the FUC apply
            try:
                res = self.ev(expr, st)
            finally:
                self.inline_depth = depth
        except Unsupported:
            self.sinks.pop()
            return VUnk(f"module:{name}")
        sink = self.sinks.pop()
        if len(res) != 1 or sink:
            return VUnk(f"module:{name}")
        v = res[0][1]
        if isinstance(v, VRef):
            items = self.concrete_items(res[0][0], v)
            o = res[0][0].obj(v.ref)
            if o.kind == "dict" and o.data is not None:
                return VDictC(o.data, name)
            if items is not None:
                return VTuple(items)
            return VUnk(f"module:{name}")
        return v

    def resolve_dotted(self, dotted: str) -> V:
        """Value of an imported name."""
        if ("const", dotted) in self.reg.ext_models:
            return self.reg.ext_models[("const", dotted)]
        if dotted in self.reg.ext_models or dotted in self.reg.fn:
            return VFunc("ext", dotted)
        parts = dotted.split(".")
        if parts[0] == "sharepoint2text":
            # repo symbol: module path + attribute
            from . import loader
            import os
            full = "/".join(parts)
            if os.path.exists(os.path.join(self.module.repo, full + ".py")) or \
                    os.path.exists(os.path.join(self.module.repo, full, "__init__.py")):
                return VMod(dotted)          # `from pkg import module` / `import pkg.module as m`: attribute access resolves further
            for k in range(len(parts) - 1, 0, -1):
                rel = "/".join(parts[:k]) + ".py"
                rel_pkg = "/".join(parts[:k]) + "/__init__.py"
                for cand in (rel, rel_pkg):
                    if os.path.exists(os.path.join(self.module.repo, cand)):
                        m = loader.module(cand, self.module.repo)
                        rest = parts[k:]
                        if len(rest) == 1:
                            nm = rest[0]
                            if nm in m.functions:
                                return VFunc("repo", m.rel, nm)
                            if nm in m.classes:
                                return VType(nm)
                            if nm in m.assigns:
                                sub = self.sub_executor(m)
                                return sub.module_const(nm)
                            if nm in m.imports:
                                return self.resolve_dotted(m.imports[nm])
                        return VUnk(f"import:{dotted}")
            return VMod(dotted)
        last = parts[-1]
        if self.uni.known(dotted):
            return VType(dotted)
        if self.uni.known(last) and len(parts) > 1 and last[0].isupper():
            return VType(last)
        if len(parts) > 1 and last[0].isupper() and last not in ("BytesIO",):
            return VType(dotted)
        if len(parts) > 1 and last[0].islower() and parts[0] in (
                "os", "io", "re", "struct", "json", "base64", "mimetypes", "importlib", "secrets",
                "zipfile", "tarfile", "lzma", "zlib", "tempfile", "shutil", "email", "datetime",
                "typing", "functools", "itertools", "collections", "dataclasses", "contextlib", "hashlib",
                "binascii", "html", "urllib", "fnmatch", "pathlib", "logging", "unicodedata", "codecs"):
            # could be a submodule or a function; attribute access / call decides
            return VFunc("ext", dotted)
        return VMod(dotted) if len(parts) == 1 else VFunc("ext", dotted)

    def sub_executor(self, module):
        from .symex import Executor
        sub = Executor(module, self.reg, self.uni)
        sub.refs = self.refs
        return sub

    # ---------------------------------------------------------- composites --
    def e_Tuple(self, n, st):
        return [(s, VTuple(vals)) for (s, vals) in self.ev_list(n.elts, st)]

    def e_List(self, n, st):
        return [(s, self.new_list(s, vals)) for (s, vals) in self.ev_list(n.elts, st)]

    def e_Set(self, n, st):
        out = []
        for (s, vals) in self.ev_list(n.elts, st):
            consts = [self.py_const(v) for v in vals]
            if any(c is _NC for c in consts):
                self.unsupported(n, "set display with symbolic elements")
            out.append((s, VSetC(consts)))
        return out

    def e_Dict(self, n, st):
        out = []
        if any(k is None for k in n.keys):
            return self._dict_with_unpacking(n, st)
        for (s, ks) in self.ev_list(n.keys, st):
            for (s2, vs) in self.ev_list(n.values, s):
                consts = [self.py_const(k) for k in ks]
                if any(c is _NC for c in consts):
                    self.unsupported(n, "dict display with symbolic keys")
                ref = s2.alloc(HeapObj("dict", dict(zip(consts, vs))), self.refs)
                out.append((s2, VRef(ref)))
        return out

    def _dict_with_unpacking(self, n, st):
        """{**a, k: v, **b}: entries in display order, later keys overwrite (concrete keys only; `**x` of a constant table
        or of a dict with concrete keys)."""
        acc = [(st, {})]
        for k, v in zip(n.keys, n.values):
            nxt = []
            for (s, d) in acc:
                if k is None:
                    for (s2, m) in self.ev(v, s):
                        if isinstance(m, VDictC):
                            items = m.items
                        elif isinstance(m, VRef) and s2.obj(m.ref).kind == "dict" and s2.obj(m.ref).data is not None:
                            items = s2.obj(m.ref).data
                        else:
                            self.unsupported(n, "dict ** unpacking of a non-constant mapping")
                        d2 = dict(d)
                        for kk, vv in items.items():
                            d2[kk] = vv
                        nxt.append((s2, d2))
                else:
                    for (s2, kv) in self.ev(k, s):
                        c = self.py_const(kv)
                        if c is _NC:
                            self.unsupported(n, "dict display with symbolic keys")
                        for (s3, vv) in self.ev(v, s2):
                            d2 = dict(d)
                            d2[c] = vv
                            nxt.append((s3, d2))
            acc = nxt
        return [(s, VRef(s.alloc(HeapObj("dict", d), self.refs))) for (s, d) in acc]

    def py_const(self, v: V):
        if isinstance(v, (VInt, VBool, VStr)):
            c = v.const()
            return c if c is not None else _NC
        if isinstance(v, VNoneT):
            return None
        if isinstance(v, VTuple):
            cs = [self.py_const(x) for x in v.items]
            return _NC if any(c is _NC for c in cs) else tuple(cs)
        if isinstance(v, VBytes):
            cs = [x.const() for x in v.items]
            return _NC if any(c is None for c in cs) else bytes(cs)
        return _NC

    def e_JoinedStr(self, n, st):
        acc = [(st, VStr(""))]
        for part in n.values:
            nxt = []
            for (s, cur) in acc:
                if isinstance(part, ast.Constant):
                    nxt.append((s, VStr(z3.Concat(cur.t, z3.StringVal(part.value)))))
                else:
                    for (s2, v) in self.ev(part.value, s):
                        txt = self.to_str(s2, v, formatted=part.format_spec is not None or part.conversion != -1)
                        nxt.append((s2, VStr(z3.Concat(cur.t, txt.t))))
            acc = nxt
        return [(s, VStr(z3.simplify(v.t))) for (s, v) in acc]

    def to_str(self, st, v: V, formatted=False) -> VStr:
        if isinstance(v, VStr) and not formatted:
            return v
        if isinstance(v, VInt) and not formatted:
            c = v.const()
            if c is not None:
                return VStr(str(c))
            return VStr(z3.IntToStr(ops.int_term(v)))   # non-negative only; negative -> ""; used for messages
        return VStr(z3.String(fresh_name("str")))

    def e_BinOp(self, n, st):
        out = []
        for (s, a) in self.ev(n.left, st):
            for (s2, b) in self.ev(n.right, s):
                out.extend(self.binop(s2, type(n.op).__name__, a, b, n))
        return out

    def e_UnaryOp(self, n, st):
        out = []
        for (s, v) in self.ev(n.operand, st):
            if isinstance(n.op, ast.Not):
                out.append((s, VBool(z3.Not(self.truth(s, v).t))))
            elif isinstance(n.op, ast.USub):
                if isinstance(v, VInt):
                    c = v.const()
                    out.append((s, VInt(-c) if c is not None else VInt(-ops.int_term(v))))
                elif isinstance(v, VReal):
                    out.append((s, VReal(-v.t)))
                elif isinstance(v, VUnk):
                    out.append((s, VUnk("neg")))
                else:
                    self.unsupported(n, "unary minus")
            elif isinstance(n.op, ast.UAdd):
                out.append((s, v))
            elif isinstance(n.op, ast.Invert):
                if isinstance(v, VInt):
                    out.append((s, VInt(-ops.int_term(v) - 1)))
                else:
                    self.unsupported(n, "~ on non-int")
        return out

    def e_BoolOp(self, n, st):
        is_and = isinstance(n.op, ast.And)

        def rec(idx, s):
            res = []
            for (s2, v) in self.ev(n.values[idx], s):
                if idx == len(n.values) - 1:
                    res.append((s2, v))
                    continue
                t = self.truth(s2, v)
                c = t.const()
                if c is not None:
                    if c == is_and:
                        res.extend(rec(idx + 1, s2))
                    else:
                        res.append((s2, v))
                    continue
                # try a pure merge when the rest evaluates without forking
                mark = len(self.sinks[-1])
                s_rest = s2.fork()
                s_rest.assume(t.t if is_and else z3.Not(t.t))
                rest = rec(idx + 1, s_rest) if self.feasible(s_rest.pc) else []
                if len(rest) == 1 and len(self.sinks[-1]) == mark and self._same_effects(rest[0][0], s_rest, s2):
                    rv = rest[0][1]
                    merged = ops.same_shape_ite(t.t, rv, v) if is_and else ops.same_shape_ite(t.t, v, rv)
                    if merged is None and isinstance(v, VBool) is False and isinstance(rv, VBool):
                        # `x and <bool>` used as condition only: keep as boolean
                        merged = None
                    if merged is not None:
                        res.append((s2, merged))
                        continue
                # fork
                res.extend(rest)
                stay = s2.fork().assume(z3.Not(t.t) if is_and else t.t)
                if self.feasible(stay.pc):
                    res.append((stay, v))
            return res

        return rec(0, st)

    def _same_effects(self, after, before_assumed, orig) -> bool:
        """The sub-evaluation added no path conditions beyond the assumption and
        changed neither variables nor heap (so merging with If is sound)."""
        if len(after.pc) != len(before_assumed.pc):
            return False
        if after.heap.keys() != orig.heap.keys():
            return False
        for k in after.heap:
            if after.heap[k] is not orig.heap[k]:
                return False
        for fa, fo in zip(after.frames, orig.frames):
            if fa.env.keys() != fo.env.keys():
                return False
            for k in fa.env:
                if fa.env[k] is not fo.env[k]:
                    return False
        return True

    def e_IfExp(self, n, st):
        out = []
        for (s, c) in self.ev(n.test, st):
            t = self.truth(s, c)
            k = t.const()
            if k is not None:
                out.extend(self.ev(n.body if k else n.orelse, s))
                continue
            mark = len(self.sinks[-1])
            sa = s.fork().assume(t.t)
            sb = s.fork().assume(z3.Not(t.t))
            ra = self.ev(n.body, sa) if self.feasible(sa.pc) else []
            rb = self.ev(n.orelse, sb) if self.feasible(sb.pc) else []
            if len(ra) == 1 and len(rb) == 1 and len(self.sinks[-1]) == mark \
                    and self._same_effects(ra[0][0], sa, s) and self._same_effects(rb[0][0], sb, s):
                merged = ops.same_shape_ite(t.t, ra[0][1], rb[0][1])
                if merged is not None:
                    out.append((s, merged))
                    continue
            out.extend(ra + rb)
        return out

    def e_Compare(self, n, st):
        out = []

        def rec(s, left, idx, acc):
            if idx == len(n.ops):
                out.append((s, VBool(z3.simplify(z3.And(acc)) if acc else z3.BoolVal(True))))
                return
            for (s2, right) in self.ev(n.comparators[idx], s):
                for (s3, b) in self.compare(s2, type(n.ops[idx]).__name__, left, right, n):
                    # (chained comparisons short-circuit; comparators here are pure in the repo)
                    rec(s3, right, idx + 1, acc + [b.t])

        for (s, left) in self.ev(n.left, st):
            rec(s, left, 0, [])
        return out

    def compare(self, st, op, a, b, node):
        if op in ("In", "NotIn"):
            r = self.contains(st, b, a, node)
            res = []
            for (s, t) in r:
                res.append((s, t if op == "In" else VBool(z3.Not(t.t))))
            return res
        if isinstance(a, VUnk) or isinstance(b, VUnk):
            if op in ("Is", "IsNot") and (isinstance(a, VNoneT) or isinstance(b, VNoneT)):
                self.tag_havoc(st, "unknown is None", node)
                return [(st, VBool(z3.Bool(fresh_name("isnone"))))]
            if op not in ("Is", "IsNot"):
                self.exc_any(st.fork(), f"{self.loc(node)} compare unknown")
            self.tag_havoc(st, "compare unknown", node)
            return [(st, VBool(z3.Bool(fresh_name("cmp"))))]
        if op in ("Is", "IsNot") and not (isinstance(a, VNoneT) or isinstance(b, VNoneT)):
            if isinstance(a, (VExt, VStr, VInt)) or isinstance(b, (VExt, VStr, VInt)):
                try:
                    t = ops.eq_term(a, b)
                    return [(st, VBool(t if op == "Is" else z3.Not(t)))]
                except Unsupported:
                    pass
        if op in ("Is", "IsNot") and (isinstance(a, VNoneT) or isinstance(b, VNoneT)):
            r = isinstance(a, VNoneT) and isinstance(b, VNoneT)
            return [(st, VBool(r if op == "Is" else not r))]
        if op in ("Eq", "NotEq") and isinstance(a, VRef) and isinstance(b, (VRef, VTuple, VBytes)) or \
                op in ("Eq", "NotEq") and isinstance(b, VRef) and isinstance(a, (VTuple, VBytes)):
            ia, ib = self.concrete_items(st, a), self.concrete_items(st, b)
            if ia is not None and ib is not None:
                if len(ia) != len(ib):
                    t = z3.BoolVal(False)
                else:
                    t = z3.And([ops.eq_term(x, y) for x, y in zip(ia, ib)] + [z3.BoolVal(True)])
                return [(st, VBool(t if op == "Eq" else z3.Not(t)))]
        try:
            return [(st, ops.pure_compare(op, a, b))]
        except Unsupported as e:
            raise Unsupported(f"{self.loc(node)} {e}")

    def contains(self, st, container, item, node):
        """-> [(state, VBool)] for `item in container`."""
        if isinstance(item, VUnk) and not isinstance(container, VUnk):
            self.exc_any(st.fork(), f"{self.loc(node)} unknown in container")
            return [(st, VBool(z3.Bool(fresh_name("in"))))]
        if isinstance(container, (VSetC, VDictC)):
            keys = list(container.items)
            terms = []
            for k in keys:
                try:
                    terms.append(ops.eq_term(item, ops.lift(k)))
                except Unsupported:
                    pass
            return [(st, VBool(z3.simplify(z3.Or(terms)) if terms else z3.BoolVal(False)))]
        if isinstance(container, VStr) and isinstance(item, VStr):
            return [(st, VBool(z3.Contains(container.t, item.t)))]
        items = self.concrete_items(st, container)
        if items is not None:
            if isinstance(container, VRef) and st.obj(container.ref).kind == "dict":
                items = [ops.lift(k) for k in st.obj(container.ref).data]
            terms = [ops.eq_term(item, x) for x in items]
            return [(st, VBool(z3.simplify(z3.Or(terms)) if terms else z3.BoolVal(False)))]
        if isinstance(container, VSeq):
            j = z3.Int(fresh_name("j"))
            return [(st, VBool(z3.Exists([j], z3.And(j >= 0, j < container.length,
                                                     ops.eq_term(container.elem(j), item)))))]
        if isinstance(container, VUnk) or isinstance(item, VUnk) or \
                (isinstance(container, VRef) and st.obj(container.ref).kind == "unk"):
            self.exc_any(st.fork(), f"{self.loc(node)} in unknown")
            self.tag_havoc(st, "in unknown", node)
            return [(st, VBool(z3.Bool(fresh_name("in"))))]
        self.unsupported(node, f"`in` on {container!r}")

    def e_NamedExpr(self, n, st):
        out = []
        for (s, v) in self.ev(n.value, st):
            s.bind(n.target.id, v)
            out.append((s, v))
        return out

    def e_Lambda(self, n, st):
        return [(st, VFunc("closure", n, len(st.frames) - 1))]

    # ------------------------------------------------------------ attribute --
    def e_Attribute(self, n, st):
        out = []
        for (s, base) in self.ev(n.value, st):
            out.extend(self.get_attr(s, base, n.attr, n))
        return out

    def get_attr(self, st, base, attr, node):
        if isinstance(base, VTuple) and attr in getattr(base, "names", ()):
            return [(st, base.items[base.names.index(attr)])]       # field of a typing.NamedTuple instance
        if isinstance(base, VMod):
            return [(st, self.resolve_dotted(f"{base.name}.{attr}"))]
        if isinstance(base, VFunc) and base.how == "ext":
            return [(st, self.resolve_dotted(f"{base.a}.{attr}"))]
        if isinstance(base, VExt):
            m = self.reg.attr_models.get((base.sort, attr))
            if m is not None:
                return [(st, m(self, st, base))]
            if (base.sort, attr) in self.reg.method_models:
                return [(st, VFunc("bound", base, attr))]
            self.exc_any(st.fork(), f"{self.loc(node)} .{attr} on {base.sort}")
            return [(st, VUnk(f"{base.sort}.{attr}"))]
        if isinstance(base, VRef):
            o = st.obj(base.ref)
            if o.kind == "obj":
                if attr in o.data:
                    return [(st, o.data[attr])]
                return [(st, VFunc("bound", base, attr))]
            if o.kind == "unk":
                self.exc_any(st.fork(), f"{self.loc(node)} .{attr} on unknown")
                return [(st, VUnk(attr))]
            return [(st, VFunc("bound", base, attr))]
        if isinstance(base, VExc):
            if attr in base.attrs:
                return [(st, base.attrs[attr])]
            return [(st, VUnk(f"exc.{attr}"))]
        if isinstance(base, VUnk):
            self.exc_any(st.fork(), f"{self.loc(node)} .{attr} on unknown")
            return [(st, VUnk(attr))]
        if isinstance(base, VNoneT):
            self.raise_in(st, self.mk_exc("AttributeError"))
            return []
        if isinstance(base, VType):
            return [(st, VFunc("classattr", base.name, attr))]
        return [(st, VFunc("bound", base, attr))]

    def store_attr(self, st, base, attr, v, node):
        if isinstance(base, VRef):
            o = st.obj(base.ref)
            if o.kind == "obj":
                st.wobj(base.ref).data[attr] = v
                self.note_store(st, base.ref, node)
                return [st]
            if o.kind == "unk":
                return [st]
        if isinstance(base, VUnk):
            self.exc_any(st.fork(), f"{self.loc(node)} setattr unknown")
            return [st]
        h = self.reg.ext_models.get(("setattr", getattr(base, "sort", base.kind)))
        if h is not None:
            return h(self, st, base, attr, v, node)
        self.unsupported(node, f"attribute store on {base!r}")

    def note_store(self, st, ref, node):
        """Frame obligations hook: record stores to non-fresh objects."""
        o = st.obj(ref)
        if not o.fresh:
            st.ghost.setdefault("nonfresh_stores", [])
            st.ghost["nonfresh_stores"] = st.ghost["nonfresh_stores"] + [(ref, self.loc(node))]

    # ------------------------------------------------------------ subscript --
    def e_Subscript(self, n, st):
        out = []
        for (s, base) in self.ev(n.value, st):
            if isinstance(n.slice, ast.Slice):
                out.extend(self.get_slice(s, base, n.slice, n))
            else:
                for (s2, idx) in self.ev(n.slice, s):
                    out.extend(self.get_index(s2, base, idx, n))
        return out

    def _norm_index(self, st, idx: VInt, length: int, node, exc="IndexError"):
        """Concrete python index or (state-forking) symbolic handling.
        -> (state or None, python int or None, z3 Int term normalised)"""
        c = idx.const()
        if c is not None:
            k = c + length if c < 0 else c
            if 0 <= k < length:
                return st, k, None
            self.raise_in(st, self.mk_exc(exc))
            return None, None, None
        return st, None, idx

    def get_index(self, st, base, idx, node):
        if isinstance(base, VUnk) or isinstance(idx, VUnk) or \
                (isinstance(base, VRef) and st.obj(base.ref).kind == "unk"):
            self.exc_any(st.fork(), f"{self.loc(node)} subscript unknown")
            return [(st, VUnk("item"))]
        if isinstance(base, VRef) and st.obj(base.ref).kind == "dict":
            return self.dict_lookup(st, st.obj(base.ref).data, idx, node)
        if isinstance(base, VDictC):
            return self.dict_lookup(st, base.items, idx, node)
        if isinstance(base, VStr) and isinstance(idx, VInt):
            c = idx.const()
            ln = z3.Length(base.t)
            it = ops.int_term(idx)
            st = self.fork_raise(st, z3.Or(it >= ln, it < -ln), "IndexError")
            if st is None:
                return []
            pos = it if (c is not None and c >= 0) else z3.If(it < 0, it + ln, it)
            return [(st, VStr(z3.SubString(base.t, pos, 1)))]
        if isinstance(base, VSeq) and isinstance(idx, VInt):
            it = ops.int_term(idx)
            st = self.fork_raise(st, z3.Or(it >= base.length, it < -base.length), "IndexError")
            if st is None:
                return []
            pos = z3.If(it < 0, it + base.length, it)
            return [(st, base.elem(z3.simplify(pos)))]
        if isinstance(base, VTable) and isinstance(idx, VInt) and idx.is_bv and idx.const() is None \
                and (1 << idx.t.size()) <= len(base.items):
            return [(st, VInt(base.fn(idx.t)))]
        items = self.concrete_items(st, base)
        if items is not None and isinstance(idx, (VInt, VBool)):
            if isinstance(idx, VBool):
                idx = VInt(ops.int_term(idx))
            s2, k, sym = self._norm_index(st, idx, len(items), node)
            if s2 is None:
                return []
            if k is not None:
                return [(s2, items[k])]
            return self.symbolic_select(s2, items, sym, node)
        self.unsupported(node, f"subscript of {base!r} by {idx!r}")

    def symbolic_select(self, st, items, idx: VInt, node):
        n = len(items)
        if idx.is_bv:
            w = idx.t.size()
            if (1 << w) > n:
                st = self.fork_raise(st, z3.UGE(idx.t, z3.BitVecVal(n, w)), "IndexError")
                if st is None:
                    return []
            first = items[0]
            if all(isinstance(x, VInt) for x in items):
                # all entries as BV of common width when they are non-negative literals / BVs
                terms = [ops._as_bv(x) for x in items]
                if all(t is not None for t in terms):
                    width = max(t.size() for t in terms)
                    terms = [z3.ZeroExt(width - t.size(), t) if t.size() < width else t for t in terms]
                    return [(st, VInt(ops.bv_table_lookup(terms, idx.t)))]
                terms = [ops.int_term(x) for x in items]
                return [(st, VInt(ops.bv_table_lookup(terms, idx.t)))]
            it = z3.BV2Int(idx.t, False)
        else:
            it = idx.t
            st = self.fork_raise(st, z3.Or(it >= n, it < -n), "IndexError")
            if st is None:
                return []
            it = z3.If(it < 0, it + n, it)
        acc = items[-1]
        for k in range(n - 2, -1, -1):
            m = ops.same_shape_ite(it == k, items[k], acc)
            if m is None:
                # heterogeneous: fork per index
                out = []
                for j, x in enumerate(items):
                    if self.feasible(st.pc, it == j):
                        out.append((st.fork().assume(it == j), x))
                return out
            acc = m
        return [(st, acc)]

    def dict_lookup(self, st, mapping, key, node, default=_NC if False else None, have_default=False):
        """`mapping[key]` / `.get(key, default)` on a dict with concrete keys."""
        c = self.py_const(key)
        if c is not _NC:
            if c in mapping:
                return [(st, mapping[c])]
            if have_default:
                return [(st, default)]
            self.raise_in(st, self.mk_exc("KeyError"))
            return []
        keys = list(mapping)
        conds = []
        for k in keys:
            try:
                conds.append((k, ops.eq_term(key, ops.lift(k))))
            except Unsupported:
                conds.append((k, z3.BoolVal(False)))
        none_match = z3.simplify(z3.And([z3.Not(c_) for _k, c_ in conds] + [z3.BoolVal(True)]))
        if not have_default:
            st = self.fork_raise(st, none_match, "KeyError")
            if st is None:
                return []
            if not keys:
                return []
            acc = mapping[keys[-1]]
            rest = conds[:-1]
        else:
            acc = default
            rest = conds
        ok = True
        for k, c_ in reversed(rest):
            m = ops.same_shape_ite(c_, mapping[k], acc)
            if m is None:
                ok = False
                break
            acc = m
        if ok:
            return [(st, acc)]
        out = []
        for k, c_ in conds:
            if self.feasible(st.pc, c_):
                out.append((st.fork().assume(c_), mapping[k]))
        if have_default and self.feasible(st.pc, none_match):
            out.append((st.fork().assume(none_match), default))
        return out

    def _slice_bounds(self, st, sl, length, node):
        """Concrete (lo, hi) for a slice with constant bounds over concrete length."""
        def one(e, dflt):
            if e is None:
                return dflt
            r = self.ev(e, st)
            if len(r) != 1:
                self.unsupported(node, "forking slice bound")
            v = r[0][1]
            c = v.const() if isinstance(v, VInt) else None
            if c is None:
                return _NC
            return c
        if sl.step is not None:
            stp = one(sl.step, 1)
            if stp != 1:
                self.unsupported(node, "slice step")
        lo, hi = one(sl.lower, 0), one(sl.upper, length)
        if lo is _NC or hi is _NC:
            return None
        lo, hi, _ = slice(lo, hi).indices(length)
        return lo, max(lo, hi)

    def get_slice(self, st, base, sl, node):
        if isinstance(base, VUnk) or (isinstance(base, VRef) and st.obj(base.ref).kind == "unk"):
            self.exc_any(st.fork(), f"{self.loc(node)} slice unknown")
            return [(st, VUnk("slice"))]
        if isinstance(base, VStr):
            return self.str_slice(st, base, sl, node)
        if isinstance(base, VSeq):
            return self.seq_slice(st, base, sl, node)
        items = self.concrete_items(st, base)
        if items is None:
            self.unsupported(node, f"slice of {base!r}")
        b = self._slice_bounds(st, sl, len(items), node)
        if b is None:
            self.unsupported(node, "symbolic slice bounds on concrete list")
        lo, hi = b
        part = items[lo:hi]
        if isinstance(base, VTuple):
            return [(st, VTuple(part))]
        if isinstance(base, VBytes):
            return [(st, VBytes(part))]
        return [(st, self.new_list(st, part, st.obj(base.ref).kind))]

    def _ev_int1(self, e, st, node):
        r = self.ev(e, st)
        if len(r) != 1 or not isinstance(r[0][1], VInt):
            self.unsupported(node, "slice bound must be a non-forking int")
        return ops.int_term(r[0][1])

    def str_slice(self, st, base, sl, node):
        if sl.step is not None:
            self.unsupported(node, "string slice step")
        ln = z3.Length(base.t)

        def norm(e, dflt):
            if e is None:
                return dflt
            t = self._ev_int1(e, st, node)
            t = z3.If(t < 0, z3.If(t + ln < 0, z3.IntVal(0), t + ln), z3.If(t > ln, ln, t))
            return z3.simplify(t)
        lo, hi = norm(sl.lower, z3.IntVal(0)), norm(sl.upper, ln)
        return [(st, VStr(z3.SubString(base.t, lo, z3.If(hi - lo < 0, z3.IntVal(0), hi - lo))))]

    def seq_slice(self, st, base, sl, node):
        if sl.step is not None:
            self.unsupported(node, "seq slice step")
        ln = base.length

        def norm(e, dflt):
            if e is None:
                return dflt
            t = self._ev_int1(e, st, node)
            return z3.simplify(z3.If(t < 0, z3.If(t + ln < 0, z3.IntVal(0), t + ln), z3.If(t > ln, ln, t)))
        lo, hi = norm(sl.lower, z3.IntVal(0)), norm(sl.upper, ln)
        n = z3.simplify(z3.If(hi - lo < 0, z3.IntVal(0), hi - lo))
        elem = base.elem
        return [(st, VSeq(n, lambda i, lo=lo: elem(lo + i), base.ekind, base.is_bytes))]

    def store_index(self, st, base, idx, v, node):
        if isinstance(base, VRef):
            o = st.obj(base.ref)
            if o.kind == "unk":
                return [st]
            if o.kind == "dict":
                c = self.py_const(idx)
                if c is _NC:
                    self.note_store(st, base.ref, node)
                    st.heap[base.ref] = HeapObj("unk", None, None, o.fresh)
                    return [st]
                st.wobj(base.ref).data[c] = v
                self.note_store(st, base.ref, node)
                return [st]
            if o.kind in ("list", "bytearray") and isinstance(idx, VInt):
                n = len(o.data)
                s2, k, sym = self._norm_index(st, idx, n, node)
                if s2 is None:
                    return []
                self.note_store(s2, base.ref, node)
                if k is not None:
                    s2.wobj(base.ref).data[k] = v
                    return [s2]
                it = ops.int_term(sym)
                s2 = self.fork_raise(s2, z3.Or(it >= n, it < -n), "IndexError")
                if s2 is None:
                    return []
                it = z3.If(it < 0, it + n, it)
                w = s2.wobj(base.ref)
                new = []
                for j, old in enumerate(w.data):
                    m = ops.same_shape_ite(it == j, v, old)
                    if m is None:
                        self.unsupported(node, "symbolic index store of heterogeneous kinds")
                    new.append(m)
                w.data = new
                return [s2]
        if isinstance(base, VUnk):
            self.exc_any(st.fork(), f"{self.loc(node)} setitem unknown")
            return [st]
        self.unsupported(node, f"subscript store on {base!r}")

    def store_slice(self, st, base, sl, v, node):
        if isinstance(base, VRef) and st.obj(base.ref).kind in ("list", "bytearray"):
            o = st.obj(base.ref)
            items = self.concrete_items(st, v)
            b = self._slice_bounds(st, sl, len(o.data), node)
            if items is None or b is None:
                self.unsupported(node, "symbolic slice store")
            lo, hi = b
            w = st.wobj(base.ref)
            w.data = w.data[:lo] + items + w.data[hi:]
            self.note_store(st, base.ref, node)
            return [st]
        if isinstance(base, VRef) and st.obj(base.ref).kind == "unk" or isinstance(base, VUnk):
            return [st]
        self.unsupported(node, f"slice store on {base!r}")

    # -------------------------------------------------------- comprehensions --
    def comp(self, n, st, elt_fn):
        """Generic comprehension over *concrete* iterables -> [(state, [results])]."""
        def rec(gi, s, acc):
            if gi == len(n.generators):
                return elt_fn(s, acc)
            g = n.generators[gi]
            outs = []
            for (s2, it) in self.ev(g.iter, s):
                items = self.concrete_items(s2, it)
                if items is None:
                    return self.symbolic_comp(n, s2, it, gi)
                live = [(s2, acc)]
                for item in items:
                    nxt = []
                    for (cur, a) in live:
                        for s3 in self.assign(g.target, item, cur):
                            conds = [(s3, True)]
                            for cond in g.ifs:
                                nc = []
                                for (s4, ok) in conds:
                                    if not ok:
                                        nc.append((s4, False))
                                        continue
                                    for (s5, cv) in self.ev(cond, s4):
                                        for (s6, b) in self.fork_truth(s5, cv):
                                            nc.append((s6, b))
                                conds = nc
                            for (s4, ok) in conds:
                                if ok:
                                    nxt.extend(rec(gi + 1, s4, a))
                                else:
                                    nxt.append((s4, a))
                    live = nxt
                outs.extend(live)
            return outs
        # comprehension variables live in a child frame sharing the static chain
        fr = Frame({}, len(st.frames) - 1, st.frame.fnode)
        st.frames.append(fr)
        res = rec(0, st, [])
        for (s, _a) in res:
            s.frames.pop()
        return res

    def symbolic_comp(self, n, st, it, gi):
        self.unsupported(n, f"comprehension over symbolic iterable {it!r}")

    def e_ListComp(self, n, st):
        def elt(s, acc):
            return [(s2, acc + [v]) for (s2, v) in self.ev(n.elt, s)]
        return [(s, self.new_list(s, acc)) for (s, acc) in self.comp(n, st, elt)]

    def e_GeneratorExp(self, n, st):
        # evaluated eagerly: sound when the consumer exhausts it (tuple(), bytes(), any(), join ...)
        def elt(s, acc):
            return [(s2, acc + [v]) for (s2, v) in self.ev(n.elt, s)]
        return [(s, VTuple(acc)) for (s, acc) in self.comp(n, st, elt)]

    def e_SetComp(self, n, st):
        def elt(s, acc):
            return [(s2, acc + [v]) for (s2, v) in self.ev(n.elt, s)]
        out = []
        for (s, acc) in self.comp(n, st, elt):
            consts = [self.py_const(v) for v in acc]
            if any(c is _NC for c in consts):
                self.unsupported(n, "set comprehension with symbolic elements")
            out.append((s, VSetC(consts)))
        return out

    def e_DictComp(self, n, st):
        def elt(s, acc):
            res = []
            for (s2, k) in self.ev(n.key, s):
                for (s3, v) in self.ev(n.value, s2):
                    res.append((s3, acc + [(k, v)]))
            return res
        out = []
        for (s, acc) in self.comp(n, st, elt):
            d = {}
            for k, v in acc:
                c = self.py_const(k)
                if c is _NC:
                    self.unsupported(n, "dict comprehension with symbolic keys")
                d[c] = v
            out.append((s, VRef(s.alloc(HeapObj("dict", d), self.refs))))
        return out

    def e_Yield(self, n, st):
        out = []
        if n.value is None:
            st.yielded = st.yielded + [NONE]
            return [(st, NONE)]
        for (s, v) in self.ev(n.value, st):
            s.yielded = s.yielded + [v]
            self.on_yield(s, v, n)
            out.append((s, NONE))
        return out

    def on_yield(self, st, v, node):
        pass

    def on_yield_from(self, st, gen, node):
        """`yield from gen` with a generator of unknown length (gen: the delegated-to value)."""
        self.on_yield(st, VUnk("yield-from"), node)

    def e_YieldFrom(self, n, st):
        out = []
        for (s, v) in self.ev(n.value, st):
            items = self.concrete_items(s, v)
            if items is not None:
                s.yielded = s.yielded + items
            else:
                s.ghost["yield_count_unknown"] = True
                self.on_yield_from(s, v, n)
            out.append((s, NONE))
        return out

    def e_Starred(self, n, st):
        self.unsupported(n, "starred expression")

    def e_Slice(self, n, st):
        self.unsupported(n, "bare slice")


class _NCType:
    def __repr__(self):
        return "<non-const>"


_NC = _NCType()
