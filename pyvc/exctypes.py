"""Exception-type universe: the real builtin hierarchy + the classes defined in
/repo (read from the AST of every module of the package on each run).

A symbolic exception type is a z3 Int `t` ranging over indices of the universe.
Index 0 is `<other>`: an arbitrary user-defined subclass of `Exception` that is
not otherwise known (so EXC-ANY really covers third-party exception classes).
"""
from __future__ import annotations

import ast
import builtins
import os

import z3


class Universe:
    def __init__(self, repo_root: str):
        self.parents: dict[str, tuple[str, ...]] = {}
        for name in dir(builtins):
            obj = getattr(builtins, name)
            if isinstance(obj, type) and issubclass(obj, BaseException):
                self.parents[obj.__name__] = tuple(b.__name__ for b in obj.__bases__ if b is not object)
        # a few stdlib / third-party classes named in `except` clauses of the repo
        extra = {
            "zipfile.BadZipFile": ("Exception",), "BadZipFile": ("Exception",),
            "struct.error": ("Exception",), "lzma.LZMAError": ("Exception",), "LZMAError": ("Exception",),
            "zlib.error": ("Exception",), "binascii.Error": ("ValueError",),
            "json.JSONDecodeError": ("ValueError",), "JSONDecodeError": ("ValueError",),
            "urllib.error.URLError": ("OSError",), "URLError": ("OSError",),
            "urllib.error.HTTPError": ("URLError",), "HTTPError": ("URLError",),
            "tarfile.TarError": ("Exception",), "TarError": ("Exception",),
            "tarfile.ReadError": ("TarError",),
            "ET.ParseError": ("SyntaxError",), "ParseError": ("SyntaxError",),
            "DependencyError": ("Exception",), "PdfReadError": ("Exception",),
            "FileNotDecryptedError": ("PdfReadError",),
            "olefile.OleFileError": ("OSError",), "OleFileError": ("OSError",),
            "xlrd.XLRDError": ("Exception",), "XLRDError": ("Exception",),
            "Bad7zFile": ("Exception",),
        }
        self.parents.update({k: v for k, v in extra.items() if k not in self.parents})
        self.repo_classes: dict[str, str] = {}
        pkg = os.path.join(repo_root, "sharepoint2text")
        for dirpath, _dirs, files in os.walk(pkg):
            if "tests" in dirpath:
                continue
            for f in sorted(files):
                if not f.endswith(".py"):
                    continue
                p = os.path.join(dirpath, f)
                try:
                    tree = ast.parse(open(p, encoding="utf-8").read())
                except SyntaxError:
                    continue
                for node in tree.body:
                    if isinstance(node, ast.ClassDef) and node.bases:
                        bases = tuple(ast.unparse(b) for b in node.bases)
                        if any(b in self.parents or b.endswith("Error") or b.endswith("Exception") for b in bases):
                            pending = getattr(self, "_pending", [])
                            pending.append((node.name, bases, os.path.relpath(p, repo_root)))
                            self._pending = pending
        changed = True
        pending = getattr(self, "_pending", [])
        while changed:
            changed = False
            for name, bases, rel in list(pending):
                if all(b in self.parents for b in bases):
                    self.parents[name] = bases
                    self.repo_classes[name] = rel
                    pending.remove((name, bases, rel))
                    changed = True
        self.names = ["<other>"] + sorted(self.parents)
        self.parents["<other>"] = ("Exception",)
        self.index = {n: i for i, n in enumerate(self.names)}
        self._anc: dict[str, frozenset] = {}

    def ancestors(self, name: str) -> frozenset:
        if name not in self._anc:
            acc = {name}
            for p in self.parents.get(name, ()):
                acc |= self.ancestors(p)
            self._anc[name] = frozenset(acc)
        return self._anc[name]

    def is_subclass(self, a: str, b: str) -> bool:
        return b in self.ancestors(a)

    def known(self, name: str) -> bool:
        return name in self.index

    def subclass_term(self, tidx, cls: str):
        """z3 Bool: the type denoted by `tidx` is a subclass of `cls`."""
        if isinstance(tidx, int):
            return z3.BoolVal(self.is_subclass(self.names[tidx], cls))
        if z3.is_int_value(tidx):
            return z3.BoolVal(self.is_subclass(self.names[tidx.as_long()], cls))
        # the disjunction is built once per class over a template variable and instantiated by substitution
        # (building ~100 equalities per EXC-ANY site in Python dominated the abstract executions)
        cache = self.__dict__.setdefault("_sub_templates", {})
        if cls not in cache:
            subs = [i for i, n in enumerate(self.names) if self.is_subclass(n, cls)]
            tv = z3.Int("__exc_template__")
            if len(subs) == len(self.names):
                cache[cls] = (tv, z3.BoolVal(True))
            else:
                cache[cls] = (tv, z3.Or([tv == i for i in subs]) if subs else z3.BoolVal(False))
        tv, tmpl = cache[cls]
        return z3.substitute(tmpl, (tv, tidx))

    def any_exception(self, prefix="exc"):
        """Fresh symbolic type that is some subclass of Exception (EXC-ANY)."""
        from .values import fresh_name
        t = z3.Int(fresh_name(prefix))
        return t, z3.And(t >= 0, t < len(self.names), self.subclass_term(t, "Exception"))
