"""Contract objects: sidecar specifications on real functions of /repo.

A contract never restates a body.  It names a function by `file::qualname`,
declares the kinds of its parameters (how symbolic inputs are created),
a precondition, a postcondition on normal return, the complete list of
exceptions that may escape together with the condition under which each may,
loop invariants keyed by loop ordinal, and (optionally) a *functional* result
so that callers get the strongest postcondition.  `assumed=True` marks a
contract on a dependency (never verified, listed in evidence).
"""
from __future__ import annotations

from dataclasses import dataclass, field
from typing import Any, Callable, Optional


@dataclass
class LoopSpec:
    inv: Optional[Callable] = None        # inv(lc) -> z3 Bool / VBool ; lc: LoopCtx
    decreases: Optional[Callable] = None  # decreases(lc) -> Int term (while loops)
    unroll: Optional[int] = None          # exact unrolling bound (+ unwinding assertion)
    havoc: tuple = ()                     # ghost keys (fresh constant of the same sort) or callables f(ex, st) havocked with the loop state
    label: str = ""
    rebind: Optional[dict] = None         # name -> fn(ex, st) -> V : representation of a loop variable after havoc
    inv_point: Optional[Callable] = None  # inv_point(lc, j) -> Bool: the invariant additionally holds FOR ALL ints j; proved pointwise
                                          # at a fresh j0 with the hypothesis instantiated at j0 + d for d in inst_offsets (manual instantiation)
    inst_offsets: tuple = (0,)


@dataclass
class Raises:
    cls: str                               # exception class name (exact class unless sub=True)
    when: Optional[Callable] = None        # when(ctx) -> Bool : raise => when
    sub: bool = False                      # allow subclasses
    label: str = ""


@dataclass
class FnContract:
    target: str                            # "rel/path.py::qualname"  or external dotted name
    params: list = field(default_factory=list)   # [(name, maker)] maker(ex, st, name) -> V
    requires: Optional[Callable] = None    # requires(ctx) -> Bool
    hyps: Optional[Callable] = None        # proved lemmas assumed in the body: hyps(ctx) -> Bool
    ensures: list = field(default_factory=list)  # [(label, fn(ctx) -> Bool)]
    returns: Optional[Callable] = None     # functional result: returns(ctx) -> V   (result == this)
    final: dict = field(default_factory=dict)    # param name -> fn(ctx) -> list[V]: final content of a mutable list arg
    raises: list = field(default_factory=list)   # [Raises]; anything else escaping fails `raises` obligation
    loops: dict = field(default_factory=dict)    # ordinal -> LoopSpec
    modifies: tuple = ()                   # names of params whose referent may be mutated
    assumed: bool = False
    pure: bool = True
    result_maker: Optional[Callable] = None  # result_maker(ex, st, ctx) -> fresh V for relational posts
    note: str = ""
    inline: bool = False                   # callers symbolically inline the real body instead
    safety: bool = False
    generator: bool = False
    yields: Optional[Callable] = None      # yields(ctx) -> Bool over ctx.yielded
    exc_any_ok: bool = False               # `raises` lists are not exhaustive (used for assumed externals)
    oid_name: Optional[str] = None         # name used in obligation ids instead of the target's qualname (target located by role after a rename)
    may_raise_any: bool = False            # assumed external: may raise any Exception (EXC-ANY) besides `raises`
    exc_ensures: list = field(default_factory=list)  # [(label, fn(ctx) -> Bool)]: postconditions of every *exceptional* outcome (ctx.exc set)
    # --- nested functions (closures) under their own contract -----------------------------------
    closure: list = field(default_factory=list)   # [(name, maker)] free variables of the enclosing function the
                                                  # nested function reads/writes; ctx.args[name] = value at entry,
                                                  # ctx.closure(name) = value at exit
    closure_modifies: tuple = ()           # closure variables the function may rebind (`nonlocal`): havocked at calls
    decreases: Optional[Callable] = None   # decreases(ctx) -> Int term: measure; every recursive call must lower it
    total: bool = False                    # emit the `raises` obligation even when no exceptional path exists
    frame: Optional[Callable] = None       # frame(ex, st, amap): field-granular havoc at call sites instead of the
                                           # default whole-object havoc of `modifies` (pack C18: cached token / site id)
    bounded: str = ""                      # non-empty: the parameter makers enumerate a BOUNDED scope (described here); the
                                           # obligations are labelled BOUNDED and never counted as proved (DESIGN 2.8)


class Registry:
    def __init__(self):
        self.fn: dict[str, FnContract] = {}
        self.attr_models: dict[tuple, Callable] = {}     # (sort, attr) -> f(ex, st, obj) -> V
        self.method_models: dict[tuple, Any] = {}        # (sort, name) -> FnContract | callable
        self.ext_models: dict[str, Any] = {}             # dotted name -> FnContract | callable(ex, st, args, kwargs)->[(st,V)]
        self.module_consts: dict[tuple, Any] = {}        # (rel, name) -> V override

    def add(self, c: FnContract):
        self.fn[c.target] = c
        return c

    def get(self, target: str):
        return self.fn.get(target)
