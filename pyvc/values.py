"""Symbolic value model of the pyvc engine (see DESIGN.md Appendix A).

Values are *statically kinded at the meta level*: every Python value that the
symbolic executor manipulates is one of the classes below, wrapping z3 terms.
Python `int` is a mathematical integer.  A VInt may carry either an IntSort
term or a BitVec term; a BitVec term of width w denotes the *unsigned* value in
[0, 2**w) and every operation widens as needed, so the denotation is always the
exact mathematical integer (PY-INT) -- bit-vectors are only a cheaper encoding.
"""
from __future__ import annotations

import itertools
import z3

_fresh = itertools.count()


def fresh_name(prefix: str) -> str:
    return f"{prefix}!{next(_fresh)}"


class V:
    kind = "?"

    # operator sugar for contracts written as Python lambdas ------------------
    def _b(self, op, other, swap=False):
        from . import ops
        other = ops.lift(other)
        return ops.pure_binop(op, other, self) if swap else ops.pure_binop(op, self, other)

    def __add__(self, o): return self._b("Add", o)
    def __radd__(self, o): return self._b("Add", o, True)
    def __sub__(self, o): return self._b("Sub", o)
    def __rsub__(self, o): return self._b("Sub", o, True)
    def __mul__(self, o): return self._b("Mult", o)
    def __rmul__(self, o): return self._b("Mult", o, True)
    def __xor__(self, o): return self._b("BitXor", o)
    def __rxor__(self, o): return self._b("BitXor", o, True)
    def __and__(self, o): return self._b("BitAnd", o)
    def __rand__(self, o): return self._b("BitAnd", o, True)
    def __or__(self, o): return self._b("BitOr", o)
    def __lshift__(self, o): return self._b("LShift", o)
    def __rshift__(self, o): return self._b("RShift", o)
    def __floordiv__(self, o): return self._b("FloorDiv", o)
    def __mod__(self, o): return self._b("Mod", o)
    def __truediv__(self, o): return self._b("Div", o)

    def _c(self, op, other):
        from . import ops
        return ops.pure_compare(op, self, ops.lift(other))

    def __lt__(self, o): return self._c("Lt", o)
    def __le__(self, o): return self._c("LtE", o)
    def __gt__(self, o): return self._c("Gt", o)
    def __ge__(self, o): return self._c("GtE", o)
    def eq(self, o): return self._c("Eq", o)
    def ne(self, o): return self._c("NotEq", o)


class VInt(V):
    kind = "int"
    __slots__ = ("t",)

    def __init__(self, t):
        if isinstance(t, int):
            t = z3.IntVal(t)
        self.t = t

    @property
    def is_bv(self):
        return z3.is_bv(self.t)

    def const(self):
        """Python int if the term is a literal, else None."""
        t = z3.simplify(self.t) if not (z3.is_int_value(self.t) or z3.is_bv_value(self.t)) else self.t
        if z3.is_int_value(t) or z3.is_bv_value(t):
            return t.as_long()
        return None

    def __repr__(self):
        return f"VInt({self.t})"


class VReal(V):
    kind = "real"
    __slots__ = ("t",)

    def __init__(self, t):
        if isinstance(t, (int, float)):
            t = z3.RealVal(repr(t) if isinstance(t, float) else t)
        self.t = t

    def __repr__(self):
        return f"VReal({self.t})"


class VBool(V):
    kind = "bool"
    __slots__ = ("t",)

    def __init__(self, t):
        if isinstance(t, bool):
            t = z3.BoolVal(t)
        self.t = t

    def const(self):
        t = z3.simplify(self.t)
        if z3.is_true(t):
            return True
        if z3.is_false(t):
            return False
        return None

    def __repr__(self):
        return f"VBool({self.t})"

    def __invert__(self):
        return VBool(z3.Not(self.t))

    def __and__(self, o):
        return VBool(z3.And(self.t, o.t))

    def __or__(self, o):
        return VBool(z3.Or(self.t, o.t))


class VStr(V):
    kind = "str"
    __slots__ = ("t",)

    def __init__(self, t):
        if isinstance(t, str):
            t = z3.StringVal(t)
        self.t = t

    def const(self):
        t = self.t
        if z3.is_string_value(t):
            return z3_str_value(t)
        t = z3.simplify(t)
        if z3.is_string_value(t):
            return z3_str_value(t)
        return None

    def __repr__(self):
        return f"VStr({self.t})"


_ESC = None


def z3_str_value(t) -> str:
    """Python str of a z3 string literal.  `as_string()` prints code points outside
    printable ASCII as \\u{hex}; decode them (needed for non-ASCII table keys)."""
    global _ESC
    s = t.as_string()
    if "\\u{" not in s:
        return s
    if _ESC is None:
        import re
        _ESC = re.compile(r"\\u\{([0-9a-fA-F]+)\}")
    return _ESC.sub(lambda m: chr(int(m.group(1), 16)), s)


class VNoneT(V):
    kind = "none"

    def __repr__(self):
        return "VNone"


NONE = VNoneT()


class VTuple(V):
    kind = "tuple"
    __slots__ = ("items",)

    def __init__(self, items):
        self.items = tuple(items)

    def __repr__(self):
        return f"VTuple{self.items}"


class VNamedTuple(VTuple):
    """Instance of a typing.NamedTuple class of the repo: a tuple whose items can also be read by field name."""
    kind = "tuple"
    __slots__ = ("names", "cls")

    def __init__(self, items, names, cls=None):
        super().__init__(items)
        self.names = tuple(names)
        self.cls = cls


class VTable(VTuple):
    """A constant table with a proved functional description: T[i] == fn(i) for
    every index (the description is itself an obligation of the pack, checked
    on every run); symbolic lookups use fn instead of a 256-way If-tree."""
    kind = "tuple"
    __slots__ = ("fn", "name")

    def __init__(self, items, fn, name=""):
        super().__init__(items)
        self.fn, self.name = fn, name


class VBytes(V):
    """Immutable bytes of concrete length; items are VInt in [0,256)."""
    kind = "bytes"
    __slots__ = ("items",)

    def __init__(self, items):
        self.items = tuple(items)

    def __repr__(self):
        return f"VBytes(len={len(self.items)})"


class VSeq(V):
    """Immutable symbolic sequence: length term (Int) and element function.

    `elem(i_term) -> V`.  `ekind` names the element kind for documentation.
    Used for lists coming from outside (e.g. ZipFile.infolist()), list slices
    thereof, and for bytes of symbolic length (ekind='byte', is_bytes=True).
    """
    kind = "seq"
    __slots__ = ("length", "elem", "ekind", "is_bytes", "tag")

    def __init__(self, length, elem, ekind="?", is_bytes=False, tag=None):
        self.length = length
        self.elem = elem
        self.ekind = ekind
        self.is_bytes = is_bytes
        self.tag = tag

    def __repr__(self):
        return f"VSeq(len={self.length}, {self.ekind})"


class VRef(V):
    """Reference to a mutable heap object (list, dict, bytearray, instance)."""
    kind = "ref"
    __slots__ = ("ref",)

    def __init__(self, ref):
        self.ref = ref

    def __repr__(self):
        return f"VRef({self.ref})"


class VDictC(V):
    """Immutable dict with *concrete* keys (module-level tables, literals)."""
    kind = "dictc"
    __slots__ = ("items", "name")

    def __init__(self, items, name=None):
        self.items = dict(items)  # python const key -> V
        self.name = name

    def __repr__(self):
        return f"VDictC({self.name or len(self.items)})"


class VSetC(V):
    """Immutable set/frozenset of concrete python constants."""
    kind = "setc"
    __slots__ = ("items", "name")

    def __init__(self, items, name=None):
        self.items = tuple(sorted(set(items), key=repr))
        self.name = name

    def __repr__(self):
        return f"VSetC({self.name or len(self.items)})"


class VExt(V):
    """Abstract external object: a constant of an uninterpreted sort."""
    kind = "ext"
    __slots__ = ("sort", "t")

    def __init__(self, sort: str, t=None):
        self.sort = sort
        self.t = t if t is not None else z3.Const(fresh_name(sort), ext_sort(sort))

    def __repr__(self):
        return f"VExt({self.sort}:{self.t})"


_EXT_SORTS: dict[str, z3.SortRef] = {}


def ext_sort(name: str):
    if name not in _EXT_SORTS:
        _EXT_SORTS[name] = z3.DeclareSort(name)
    return _EXT_SORTS[name]


class VUnk(V):
    """Opaque value about which nothing is known (result of EXC-ANY calls)."""
    kind = "unk"
    __slots__ = ("tag",)

    def __init__(self, tag=""):
        self.tag = tag

    def __repr__(self):
        return f"VUnk({self.tag})"


class VFunc(V):
    """Callable: ('repo', module_rel, qualname) | ('builtin', name) |
    ('bound', obj, name) | ('closure', node, env_state) | ('ext', dotted)."""
    kind = "func"
    __slots__ = ("how", "a", "b", "c")

    def __init__(self, how, a=None, b=None, c=None):
        self.how, self.a, self.b, self.c = how, a, b, c

    def __repr__(self):
        return f"VFunc({self.how},{self.a},{self.b})"


class VMod(V):
    kind = "mod"
    __slots__ = ("name",)

    def __init__(self, name):
        self.name = name

    def __repr__(self):
        return f"VMod({self.name})"


class VType(V):
    """A class object (exception classes, dataclasses, builtin types)."""
    kind = "type"
    __slots__ = ("name",)

    def __init__(self, name):
        self.name = name

    def __repr__(self):
        return f"VType({self.name})"


class VExc(V):
    """Exception instance.  `tidx` is a z3 Int term indexing the exception
    universe (exctypes.Universe); attrs: message etc."""
    kind = "exc"
    __slots__ = ("tidx", "attrs")

    def __init__(self, tidx, attrs=None):
        self.tidx = tidx
        self.attrs = attrs or {}

    def __repr__(self):
        return f"VExc({self.tidx})"
