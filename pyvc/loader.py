"""Reads the *current working tree* of /repo on every run (DESIGN §2.1).

Nothing of the repository is copied into /verif: functions are located by
`file::qualname` in the freshly parsed AST, module-level tables are evaluated
from the same AST.
"""
from __future__ import annotations

import ast
import hashlib
import os

REPO = os.environ.get("VERIF_REPO", "/repo")


class Module:
    def __init__(self, rel: str, repo: str = None):
        self.rel = rel
        self.repo = repo or REPO
        self.path = os.path.join(self.repo, rel)
        with open(self.path, encoding="utf-8") as fh:
            self.source = fh.read()
        self.sha256 = hashlib.sha256(self.source.encode()).hexdigest()
        self.tree = ast.parse(self.source)
        self.functions: dict[str, ast.AST] = {}
        self.classes: dict[str, ast.ClassDef] = {}
        self.assigns: dict[str, ast.AST] = {}      # module-level NAME = expr (last wins)
        self.imports: dict[str, str] = {}          # local name -> dotted origin
        self._index(self.tree.body, "")
        for node in self.tree.body:
            if isinstance(node, ast.Assign) and len(node.targets) == 1 and isinstance(node.targets[0], ast.Name):
                self.assigns[node.targets[0].id] = node.value
            elif isinstance(node, ast.AnnAssign) and isinstance(node.target, ast.Name) and node.value is not None:
                self.assigns[node.target.id] = node.value
        for node in ast.walk(self.tree):
            if isinstance(node, ast.Import):
                for a in node.names:
                    self.imports[a.asname or a.name.split(".")[0]] = a.name if a.asname else a.name.split(".")[0]
            elif isinstance(node, ast.ImportFrom) and node.module:
                for a in node.names:
                    self.imports[a.asname or a.name] = f"{node.module}.{a.name}"

    def _index(self, body, prefix):
        for node in body:
            if isinstance(node, (ast.FunctionDef, ast.AsyncFunctionDef)):
                q = prefix + node.name
                self.functions[q] = node
                self._index_nested(node, q + ".<locals>.")
            elif isinstance(node, ast.ClassDef):
                q = prefix + node.name
                self.classes[q] = node
                self._index(node.body, q + ".")

    def _index_nested(self, fn, prefix):
        for node in ast.walk(fn):
            if node is fn:
                continue
            if isinstance(node, (ast.FunctionDef, ast.AsyncFunctionDef)):
                q = prefix + node.name
                if q not in self.functions:
                    self.functions[q] = node

    def function(self, qualname: str):
        return self.functions.get(qualname)

    def segment(self, node) -> str:
        return ast.get_source_segment(self.source, node) or ""

    def fn_info(self, qualname: str) -> dict:
        node = self.functions[qualname]
        seg = self.segment(node)
        return {
            "function": f"{self.rel}::{qualname}",
            "lines": [node.lineno, node.end_lineno],
            "file_sha256": self.sha256,
            "segment_sha256": hashlib.sha256(seg.encode()).hexdigest(),
        }

    def literal(self, name: str):
        """Value of a module-level literal table via ast.literal_eval."""
        return ast.literal_eval(self.assigns[name])


_cache: dict[tuple, Module] = {}


def module(rel: str, repo: str = None) -> Module:
    key = (repo or REPO, rel)
    if key not in _cache:
        _cache[key] = Module(rel, repo)
    return _cache[key]


def all_package_files(repo: str = None):
    root = os.path.join(repo or REPO, "sharepoint2text")
    out = []
    for dirpath, _d, files in os.walk(root):
        if os.sep + "tests" in dirpath:
            continue
        for f in sorted(files):
            if f.endswith(".py"):
                out.append(os.path.relpath(os.path.join(dirpath, f), repo or REPO))
    return sorted(out)
