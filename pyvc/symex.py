"""Symbolic executor over the Python AST of the real source (statements).

exec_block(stmts, st) -> [Outcome(kind, st, val)], kind in
{'fall','return','raise','break','continue'}.  Paths fork at symbolic
conditions; infeasible forks are pruned with a cheap solver call.  Loops are
either unrolled exactly (concrete iterables / `unroll` with unwinding
assertion) or cut by the sidecar invariant (inv-init / inv-preserve VCs are
emitted here); a symbolic loop without invariant is cut with invariant `True`
(havoc of everything the body assigns) -- sound, weakest.
"""
from __future__ import annotations

import ast
import itertools
import time
from dataclasses import dataclass, field
from typing import Optional

import z3

from . import ops
from .contracts import FnContract, LoopSpec, Registry
from .exctypes import Universe
from .ops import Unsupported
from .state import Frame, HeapObj, State
from .values import (NONE, V, VBool, VBytes, VDictC, VExc, VExt, VFunc, VInt, VMod,
                     VNoneT, VReal, VRef, VSeq, VSetC, VStr, VTuple, VType, VUnk, fresh_name)
from .exprs import ExprMixin
from .calls import CallMixin


@dataclass
class Outcome:
    kind: str
    st: State
    val: Optional[V] = None


@dataclass
class VC:
    pc: list
    goal: object
    note: str = ""


@dataclass
class Obligation:
    oid: str
    kind: str
    vcs: list = field(default_factory=list)
    loc: str = ""


_QCACHE: dict = {}


def _has_quantifier(e) -> bool:
    k = e.get_id()
    hit = _QCACHE.get(k)
    r = hit[1] if hit is not None and hit[0].eq(e) else None     # (AST ids are reused once a term is freed)
    if r is None:
        r = False
        seen = set()
        stack = [e]
        while stack:
            x = stack.pop()
            i = x.get_id()
            if i in seen:
                continue
            seen.add(i)
            if z3.is_quantifier(x):
                r = True
                break
            stack.extend(x.children())
        _QCACHE[k] = (e, r)
    return r


class PathLimit(Exception):
    pass


class LoopCtx:
    """What a loop invariant sees: current locals, loop index, entry state."""

    def __init__(self, ex, st: State, i, entry: State, seq=None, extra=None):
        self.ex, self.st, self.i, self.entry, self.seq = ex, st, i, entry, seq
        self.extra = extra or {}

    def __getitem__(self, name):
        v = self.st.lookup(name)
        if v is None:
            # the sidecar invariant names a local that the (edited) function no longer has: undecided, not an engine error
            raise Unsupported(f"loop invariant refers to local `{name}` which does not exist (renamed?)")
        return v

    def old(self, name):
        return self.entry.lookup(name)

    def list_of(self, name):
        v = self.st.lookup(name)
        return self.st.obj(v.ref).data

    def old_list_of(self, name):
        v = self.entry.lookup(name)
        return self.entry.obj(v.ref).data


class Executor(ExprMixin, CallMixin):
    def __init__(self, module, registry: Registry, universe: Universe, *,
                 max_paths=20000, feas_timeout_ms=2000, merge=False, abstract=False, inline_calls=True, inline_local=False):
        self.module = module
        self.reg = registry
        self.uni = universe
        self.refs = itertools.count(1)
        self.obls: dict[str, Obligation] = {}
        self.sinks: list[list] = []
        self.max_paths = max_paths
        self.paths = 0
        self.merge = merge
        self.abstract = abstract          # unsupported expressions -> havoc + EXC-ANY (sound over-approximation)
        self.inline_calls = inline_calls  # False: repo functions without contract are EXC-ANY calls
        self.inline_local = inline_local  # with inline_calls=False: small private helpers of the same module are still inlined
        self.abstracted: list[str] = []
        self.feas = z3.Solver()
        self.feas.set("timeout", feas_timeout_ms)
        self.feas_calls = 0
        self.contract: Optional[FnContract] = None   # contract of the function being verified
        self.oid_prefix = ""
        self.inline_depth = 0
        self.out_of_subset: list[str] = []
        self.assumed_used: set = set()
        self.exc_any_sites: list[str] = []
        self.cur_fn_stack: list = []
        self.loop_ord_stack: list = []

    # ---------------------------------------------------------------- infra --
    def feasible(self, pc, extra=None) -> bool:
        cs = list(pc) + ([extra] if extra is not None else [])
        # cheap syntactic shortcuts
        for c in cs:
            if z3.is_false(c):
                return False
        # quantified hypotheses are dropped for pruning (sound: fewer constraints
        # can only keep more paths alive)
        cs = [c for c in cs if not _has_quantifier(c)]
        self.feas_calls += 1
        self.feas.push()
        try:
            self.feas.add(*cs)
            r = self.feas.check()
        finally:
            self.feas.pop()
        return r != z3.unsat

    def add_vc(self, kind: str, label: str, pc, goal, note="", loc=""):
        oid = f"{self.oid_prefix}/{kind}" + (f"#{label}" if label else "")
        ob = self.obls.get(oid)
        if ob is None:
            ob = self.obls[oid] = Obligation(oid, kind, [], loc)
        if isinstance(goal, VBool):
            goal = goal.t
        if isinstance(goal, bool):
            goal = z3.BoolVal(goal)
        ob.vcs.append(VC(list(pc), goal, note))

    def loc(self, node) -> str:
        return f"{self.module.rel}:{getattr(node, 'lineno', '?')}"

    def unsupported(self, node, what):
        raise Unsupported(f"{self.loc(node)} {what}")

    # exceptional continuation of an expression / primitive ------------------
    def raise_in(self, st: State, exc: VExc):
        self.sinks[-1].append((st, exc))

    def mk_exc(self, cls: str, **attrs) -> VExc:
        if not self.uni.known(cls):
            raise Unsupported(f"unknown exception class {cls}")
        return VExc(z3.IntVal(self.uni.index[cls]), attrs)

    def fork_raise(self, st: State, cond, cls: str) -> Optional[State]:
        """Primitive that raises `cls` when `cond`: pushes the exceptional path,
        returns the state constrained by not cond (or None if that is infeasible)."""
        if isinstance(cond, VBool):
            cond = cond.t
        cond = z3.simplify(cond)
        if z3.is_false(cond):
            return st
        if self.feasible(st.pc, cond):
            s2 = st.fork().assume(cond)
            self.raise_in(s2, self.mk_exc(cls))
        if z3.is_true(cond):
            return None
        if self.feasible(st.pc, z3.Not(cond)):
            return st.assume(z3.Not(cond))
        return None

    def exc_any(self, st: State, site: str, also=()):
        """EXC-ANY: an un-contracted call may raise any subclass of Exception."""
        t, c = self.uni.any_exception()
        s2 = st.fork().assume(c)
        if not self.abstract:
            s2.assume(z3.Bool(f"__havoc__@{site}"[:120]))      # exact mode: "may raise anything" is an over-approximation, see tag_havoc
        self.raise_in(s2, VExc(t, {"site": site}))
        self.exc_any_sites.append(site)

    def tag_havoc(self, st: State, what: str, node=None):
        """Exact mode: the path now depends on a value the engine made up for something it has no model for (an unknown's truth value,
        a comparison with an unknown, membership in an unknown container, an opaque string).  A VC refuted on a tagged path is
        reported `unknown` (verify.discharge): only a natively replayed input can make it a violation."""
        if not self.abstract:
            st.assume(z3.Bool(f"__havoc__@{self.loc(node) if node is not None else '?'} {what}"[:120]))

    def fork_truth(self, st: State, v: V):
        """-> [(state, bool)] for the feasible truth values of v."""
        t = self.truth(st, v)
        c = t.const()
        if c is not None:
            return [(st, c)]
        out = []
        ft = self.feasible(st.pc, t.t)
        ff = self.feasible(st.pc, z3.Not(t.t))
        if ft and ff:
            out.append((st.fork().assume(t.t), True))
            out.append((st.assume(z3.Not(t.t)), False))
        elif ft:
            out.append((st.assume(t.t), True))
        elif ff:
            out.append((st.assume(z3.Not(t.t)), False))
        self.paths += len(out)
        if self.paths > self.max_paths:
            raise PathLimit(f"more than {self.max_paths} paths")
        return out

    # ------------------------------------------------------------ statements --
    def exec_block(self, stmts, st: State) -> list:
        live = [st]
        done: list[Outcome] = []
        for s in stmts:
            nxt = []
            for cur in live:
                for o in self.exec_stmt(s, cur):
                    if o.kind == "fall":
                        nxt.append(o.st)
                    else:
                        done.append(o)
            live = nxt
            if self.merge and len(live) > 1:
                live = [self.merge_states(live)]
            if not live:
                break
        return done + [Outcome("fall", s) for s in live]

    def exec_stmt(self, s, st: State) -> list:
        self.sinks.append([])
        try:
            outs = self._exec_stmt(s, st)
        finally:
            sink = self.sinks.pop()
        outs = list(outs)
        for (es, exc) in sink:
            outs.append(Outcome("raise", es, exc))
        return outs

    def _exec_stmt(self, s, st: State):
        m = getattr(self, "s_" + type(s).__name__, None)
        if m is None:
            self.unsupported(s, f"statement {type(s).__name__}")
        return m(s, st)

    def s_Pass(self, s, st):
        return [Outcome("fall", st)]

    def s_Global(self, s, st):
        st.frame.globals_ = st.frame.globals_ | set(s.names)
        return [Outcome("fall", st)]

    def s_Nonlocal(self, s, st):
        st.frame.nonlocals = st.frame.nonlocals | set(s.names)
        return [Outcome("fall", st)]

    def s_Delete(self, s, st):
        return [Outcome("fall", st)]

    def s_Import(self, s, st):
        for a in s.names:
            st.bind(a.asname or a.name.split(".")[0], VMod(a.name if a.asname else a.name.split(".")[0]))
        return [Outcome("fall", st)]

    def s_ImportFrom(self, s, st):
        for a in s.names:
            st.bind(a.asname or a.name, self.resolve_dotted(f"{s.module}.{a.name}"))
        return [Outcome("fall", st)]

    def s_Expr(self, s, st):
        if self.is_logger_call(s.value):
            return [Outcome("fall", st)]          # PY-LOG: logging dropped
        if isinstance(s.value, ast.Constant):
            return [Outcome("fall", st)]          # docstring
        return [Outcome("fall", s2) for (s2, _v) in self.ev(s.value, st)]

    def is_logger_call(self, e) -> bool:
        return (isinstance(e, ast.Call) and isinstance(e.func, ast.Attribute)
                and isinstance(e.func.value, ast.Name) and e.func.value.id in ("logger", "logging", "log")
                and e.func.attr in ("debug", "info", "warning", "warn", "error", "exception", "critical", "log"))

    def s_Assign(self, s, st):
        outs = []
        for (s2, v) in self.ev(s.value, st):
            states = [s2]
            for tgt in s.targets:
                nxt = []
                for s3 in states:
                    nxt.extend(self.assign(tgt, v, s3))
                states = nxt
            outs.extend(Outcome("fall", x) for x in states)
        return outs

    def s_AnnAssign(self, s, st):
        if s.value is None:
            return [Outcome("fall", st)]
        outs = []
        for (s2, v) in self.ev(s.value, st):
            outs.extend(Outcome("fall", x) for x in self.assign(s.target, v, s2))
        return outs

    def s_AugAssign(self, s, st):
        load = self._as_load(s.target)
        outs = []
        for (s2, cur) in self.ev(load, st):
            for (s3, rhs) in self.ev(s.value, s2):
                for (s4, v) in self.binop(s3, type(s.op).__name__, cur, rhs, s, inplace=True):
                    if v is None:   # in-place mutation already done (list += ...)
                        outs.append(Outcome("fall", s4))
                    else:
                        outs.extend(Outcome("fall", x) for x in self.assign(s.target, v, s4))
        return outs

    def _as_load(self, tgt):
        import copy
        t = copy.copy(tgt)
        t.ctx = ast.Load()
        return t

    def assign(self, tgt, v: V, st: State) -> list:
        """-> list of states after `tgt = v` (exceptional paths go to the sink)."""
        if isinstance(tgt, ast.Name):
            if tgt.id in st.frame.globals_:
                if not getattr(self.reg, "global_cells", False):
                    self.unsupported(tgt, "assignment to global")
                self.store_global(st, tgt.id, v)       # opt-in (reg.global_cells): module globals as cells, see exprs.read_global_cell
                return [st]
            st.bind(tgt.id, v)
            return [st]
        if isinstance(tgt, (ast.Tuple, ast.List)):
            if any(isinstance(e, ast.Starred) for e in tgt.elts):
                self.unsupported(tgt, "starred unpacking")
            items = self.concrete_items(st, v)
            if items is None:
                if isinstance(v, VUnk):
                    self.exc_any(st, f"{self.loc(tgt)} unpack unknown")
                    items = [VUnk("unpack") for _ in tgt.elts]
                else:
                    self.unsupported(tgt, f"unpacking of {v!r}")
            if len(items) != len(tgt.elts):
                self.raise_in(st, self.mk_exc("ValueError"))
                return []
            states = [st]
            for e, item in zip(tgt.elts, items):
                nxt = []
                for s2 in states:
                    nxt.extend(self.assign(e, item, s2))
                states = nxt
            return states
        if isinstance(tgt, ast.Subscript):
            res = []
            for (s2, base) in self.ev(tgt.value, st):
                if isinstance(tgt.slice, ast.Slice):
                    res.extend(self.store_slice(s2, base, tgt.slice, v, tgt))
                else:
                    for (s3, idx) in self.ev(tgt.slice, s2):
                        res.extend(self.store_index(s3, base, idx, v, tgt))
            return res
        if isinstance(tgt, ast.Attribute):
            res = []
            for (s2, base) in self.ev(tgt.value, st):
                res.extend(self.store_attr(s2, base, tgt.attr, v, tgt))
            return res
        self.unsupported(tgt, f"assignment target {type(tgt).__name__}")

    def s_Return(self, s, st):
        if s.value is None:
            return [Outcome("return", st, NONE)]
        return [Outcome("return", s2, v) for (s2, v) in self.ev(s.value, st)]

    def s_Raise(self, s, st):
        if s.exc is None:
            if st.cur_exc is None:
                self.unsupported(s, "bare raise outside handler")
            return [Outcome("raise", st, st.cur_exc)]
        outs = []
        for (s2, v) in self.ev(s.exc, st):
            exc = self.to_exc(s2, v, s)
            if s.cause is not None:
                for (s3, c) in self.ev(s.cause, s2):
                    exc2 = VExc(exc.tidx, dict(exc.attrs, __cause__=c))
                    outs.append(Outcome("raise", s3, exc2))
            else:
                outs.append(Outcome("raise", s2, exc))
        return outs

    def to_exc(self, st, v, node) -> VExc:
        if isinstance(v, VExc):
            return v
        if isinstance(v, VType):
            return self.mk_exc(v.name)
        if isinstance(v, VUnk):
            t, c = self.uni.any_exception()
            st.assume(c)
            return VExc(t, {})
        self.unsupported(node, f"raise of {v!r}")

    def s_Assert(self, s, st):
        outs = []
        for (s2, v) in self.ev(s.test, st):
            for (s3, b) in self.fork_truth(s2, v):
                if b:
                    outs.append(Outcome("fall", s3))
                else:
                    outs.append(Outcome("raise", s3, self.mk_exc("AssertionError")))
        return outs

    def s_If(self, s, st):
        outs = []
        for (s2, v) in self.ev(s.test, st):
            base_len = len(s2.pc)
            branches = self.fork_truth(s2, v)
            if len(branches) == 2 and self._simple_branch(s.body) and self._simple_branch(s.orelse):
                # if-conversion: both arms are straight-line assignments -> one merged state
                (sa, ba), (sb, bb) = branches
                cond = sa.pc[base_len]
                mark = len(self.sinks[-1])
                oa = self.exec_block(s.body if ba else s.orelse, sa)
                ob = self.exec_block(s.body if bb else s.orelse, sb)
                if len(oa) == 1 and len(ob) == 1 and oa[0].kind == "fall" and ob[0].kind == "fall" \
                        and len(self.sinks[-1]) == mark \
                        and len(oa[0].st.pc) == base_len + 1 and len(ob[0].st.pc) == base_len + 1:
                    m = self.ite_states(cond, oa[0].st, ob[0].st, base_len)
                    if m is not None:
                        outs.append(Outcome("fall", m))
                        continue
                outs.extend(oa + ob)
                continue
            for (s3, b) in branches:
                outs.extend(self.exec_block(s.body if b else s.orelse, s3))
        return self.maybe_merge(outs)

    def _simple_branch(self, stmts) -> bool:
        for n in stmts:
            if not isinstance(n, (ast.Assign, ast.AugAssign, ast.AnnAssign, ast.Pass, ast.Expr)):
                return False
            if isinstance(n, ast.Expr) and not self.is_logger_call(n.value) and not isinstance(n.value, ast.Constant):
                return False
            for sub in ast.walk(n):
                if isinstance(sub, (ast.Yield, ast.YieldFrom, ast.Await, ast.NamedExpr)):
                    return False
        return True

    def ite_states(self, cond, a: State, b: State, base_len):
        """State equal to `a` when cond else `b` (exact, not an over-approximation);
        None when some differing value cannot be merged with If."""
        m = a.fork()
        m.pc = list(a.pc[:base_len])
        if len(a.frames) != len(b.frames):
            return None
        for fa, fb, fm in zip(a.frames, b.frames, m.frames):
            if fa.env.keys() != fb.env.keys():
                return None
            for k in fa.env:
                va, vb = fa.env[k], fb.env[k]
                if va is vb:
                    continue
                if isinstance(va, VRef) and isinstance(vb, VRef) and va.ref == vb.ref:
                    continue
                mv = ops.same_shape_ite(cond, va, vb)
                if mv is None:
                    return None
                fm.env[k] = mv
        if a.heap.keys() != b.heap.keys():
            return None
        for r in a.heap:
            oa, ob = a.heap[r], b.heap[r]
            if oa is ob:
                continue
            if oa.kind != ob.kind or oa.kind not in ("list", "bytearray", "obj", "dict") or oa.data is None or ob.data is None:
                return None
            if isinstance(oa.data, list):
                if len(oa.data) != len(ob.data):
                    return None
                items = [x if x is y else ops.same_shape_ite(cond, x, y) for x, y in zip(oa.data, ob.data)]
                if any(i is None for i in items):
                    return None
                m.heap[r] = HeapObj(oa.kind, items, oa.cls, oa.fresh)
            else:
                if oa.data.keys() != ob.data.keys():
                    return None
                d = {}
                for k in oa.data:
                    x, y = oa.data[k], ob.data[k]
                    mv = x if x is y else (x if isinstance(x, VRef) and isinstance(y, VRef) and x.ref == y.ref else ops.same_shape_ite(cond, x, y))
                    if mv is None:
                        return None
                    d[k] = mv
                m.heap[r] = HeapObj(oa.kind, d, oa.cls, oa.fresh)
        try:
            if a.ghost.keys() != b.ghost.keys() or any(a.ghost[k] is not b.ghost[k] and a.ghost[k] != b.ghost[k] for k in a.ghost):
                return None
        except Exception:  # noqa  (values that cannot be compared: do not merge)
            return None
        if len(a.yielded) != len(b.yielded):
            return None
        return m

    def maybe_merge(self, outs):
        if not self.merge:
            return outs
        falls = [o.st for o in outs if o.kind == "fall"]
        if len(falls) <= 1:
            return outs
        rest = [o for o in outs if o.kind != "fall"]
        return rest + [Outcome("fall", self.merge_states(falls))]

    def merge_states(self, states):
        """Over-approximating join (only used in `merge` mode): common pc prefix,
        differing variables / heap objects widened to unknown."""
        base = states[0].fork()
        n = min(len(s.pc) for s in states)
        k = 0
        while k < n and all(s.pc[k] is states[0].pc[k] for s in states):
            k += 1
        base.pc = list(states[0].pc[:k])
        for fi, fr in enumerate(base.frames):
            names = set()
            for s in states:
                if fi < len(s.frames):
                    names |= set(s.frames[fi].env)
            for name in names:
                vals = [s.frames[fi].env.get(name) if fi < len(s.frames) else None for s in states]
                if all(v is vals[0] for v in vals):
                    continue
                if all(isinstance(v, VRef) and v.ref == vals[0].ref for v in vals if v is not None) and all(v is not None for v in vals):
                    continue
                fr.env[name] = VUnk(f"merge:{name}")
        for ref in set().union(*[set(s.heap) for s in states]):
            objs = [s.heap.get(ref) for s in states]
            if all(o is objs[0] for o in objs):
                continue
            base.heap[ref] = HeapObj("unk", None)
        ys = [s.yielded for s in states]
        if any(len(y) != len(ys[0]) for y in ys):
            base.ghost["yield_count_unknown"] = True
            base.yielded = max(ys, key=len)
        for s in states:
            for g, val in s.ghost.items():
                if base.ghost.get(g) != val:
                    base.ghost[g] = self.ghost_join(g, base.ghost.get(g), val)
        return base

    def ghost_join(self, key, a, b):
        return None

    def s_Break(self, s, st):
        return [Outcome("break", st)]

    def s_Continue(self, s, st):
        return [Outcome("continue", st)]

    def s_FunctionDef(self, s, st):
        st.bind(s.name, VFunc("closure", s, len(st.frames) - 1))
        return [Outcome("fall", st)]

    def s_ClassDef(self, s, st):
        self.unsupported(s, "class definition inside function")

    # ---------------------------------------------------------------- loops --
    def loop_spec(self, node) -> Optional[LoopSpec]:
        if self.contract is None or self.inline_depth > 0:
            return None
        fnode = self.cur_fn_stack[-1] if self.cur_fn_stack else None
        if fnode is None:
            return None
        loops = [n for n in ast.walk(fnode) if isinstance(n, (ast.For, ast.While))]
        loops.sort(key=lambda n: (n.lineno, n.col_offset))
        try:
            ordinal = loops.index(node)
        except ValueError:
            return None
        return self.contract.loops.get(ordinal)

    def assigned_names(self, stmts) -> set:
        names = set()
        for n in stmts:
            for sub in ast.walk(n):
                if isinstance(sub, ast.Name) and isinstance(sub.ctx, ast.Store):
                    names.add(sub.id)
                elif isinstance(sub, (ast.FunctionDef, ast.Lambda)):
                    pass
        return names

    def mutated_refs(self, stmts, st: State) -> set:
        """Heap objects that the loop body may mutate: subscript/attribute stores,
        mutating method calls and calls receiving the object (conservative)."""
        refs = set()

        def name_ref(e):
            while isinstance(e, (ast.Subscript, ast.Attribute)):
                e = e.value
            if isinstance(e, ast.Name):
                v = st.lookup(e.id)
                if isinstance(v, VRef):
                    refs.add(v.ref)

        def arg_ref(e):
            # `f(obj.field)` passes the *value* of the field: the callee can mutate the object that value
            # refers to (if any), never rebind obj.field itself
            e0 = e
            # obj.field[i] / obj.field[a:b] / obj.field[i].attr: derived from the field's value -- descend to the
            # first access on the base name
            while isinstance(e, (ast.Subscript, ast.Attribute)) and not (isinstance(e, ast.Attribute) and isinstance(e.value, ast.Name)):
                e = e.value
            if isinstance(e, ast.Attribute) and isinstance(e.value, ast.Name):
                v = st.lookup(e.value.id)
                if isinstance(v, VRef):
                    o = st.heap.get(v.ref)
                    if o is not None and o.kind == "obj" and isinstance(o.data, dict) and e.attr in o.data:
                        fv = o.data[e.attr]
                        if isinstance(fv, VRef):
                            refs.add(fv.ref)
                        return
            name_ref(e0)

        for n in stmts:
            for sub in ast.walk(n):
                if isinstance(sub, (ast.Subscript, ast.Attribute)) and isinstance(sub.ctx, ast.Store):
                    name_ref(sub.value)
                elif isinstance(sub, ast.Call):
                    if isinstance(sub.func, ast.Attribute):
                        if not self._contracted_pure_method(sub.func, st):
                            arg_ref(sub.func.value)      # `obj.field.m()` mutates the field's object, not obj
                    for a in list(sub.args) + [k.value for k in sub.keywords]:
                        arg_ref(a)
                elif isinstance(sub, ast.AugAssign):
                    name_ref(sub.target)
        return refs

    def _contracted_pure_method(self, func, st) -> bool:
        """`obj.m(...)` where m is a repo method under a contract that does not list `self` in `modifies`:
        the call is replaced by the contract, which leaves the receiver unchanged."""
        if not isinstance(func.value, ast.Name):
            return False
        v = st.lookup(func.value.id)
        if not isinstance(v, VRef):
            return False
        o = st.heap.get(v.ref)
        if o is None or o.kind != "obj" or not o.cls:
            return False
        c = self.reg.get(f"{self.module.rel}::{o.cls}.{func.attr}")
        return c is not None and not c.inline and "self" not in c.modifies

    def havoc_like(self, st: State, v: V, name: str) -> V:
        """Fresh symbolic value of the same kind."""
        if isinstance(v, VInt):
            if v.is_bv:
                return VInt(z3.BitVec(fresh_name(name), v.t.size()))
            return VInt(z3.Int(fresh_name(name)))
        if isinstance(v, VBool):
            return VBool(z3.Bool(fresh_name(name)))
        if isinstance(v, VReal):
            return VReal(z3.Real(fresh_name(name)))
        if isinstance(v, VStr):
            return VStr(z3.String(fresh_name(name)))
        if isinstance(v, VExt):
            return VExt(v.sort)
        if isinstance(v, VTuple):
            return VTuple([self.havoc_like(st, x, name) for x in v.items])
        if isinstance(v, VBytes):
            return VBytes([self.havoc_like(st, x, name) for x in v.items])
        if isinstance(v, (VNoneT, VRef, VFunc, VMod, VType, VDictC, VSetC)):
            return v if not isinstance(v, VNoneT) else VUnk(f"havoc:{name}")
        return VUnk(f"havoc:{name}")

    def havoc_loop_state(self, st: State, body, spec: Optional[LoopSpec], extra_names=()):
        names = self.assigned_names(body) | set(extra_names)
        for name in sorted(names):
            cur = st.lookup(name)
            if cur is not None:
                st.bind(name, self.havoc_like(st, cur, name))
        for ref in sorted(self.mutated_refs(body, st)):
            o = st.heap.get(ref)
            if o is None:
                continue
            if o.kind in ("list", "bytearray") and spec is not None and spec.inv is not None and o.data is not None \
                    and not st.ghost.get(("growing", ref)):
                # fixed-length lists mutated element-wise keep their length
                w = st.wobj(ref)
                w.data = [self.havoc_like(st, x, f"h{ref}") for x in o.data]
            else:
                st.heap[ref] = HeapObj("unk", None, o.cls, False)
        for g in (spec.havoc if spec is not None else ()):
            if callable(g):
                g(self, st)
            elif g in st.ghost and z3.is_expr(st.ghost[g]):
                st.ghost[g] = z3.Const(fresh_name(f"ghost!{g}"), st.ghost[g].sort())

    def s_For(self, s, st):
        outs = []
        for (s2, it) in self.ev(s.iter, st):
            items = self.concrete_items(s2, it)
            if items is not None:
                outs.extend(self.unrolled_for(s, s2, items))
            else:
                outs.extend(self.symbolic_for(s, s2, it))
        return outs

    def unrolled_for(self, s, st, items):
        live = [st]
        done = []
        for item in items:
            nxt = []
            for cur in live:
                for s3 in self.assign(s.target, item, cur):
                    for o in self.exec_block(s.body, s3):
                        if o.kind in ("fall", "continue"):
                            nxt.append(o.st)
                        elif o.kind == "break":
                            done.append(Outcome("fall", o.st))
                        else:
                            done.append(o)
            live = nxt
            if self.merge and len(live) > 1:
                live = [self.merge_states(live)]
        for cur in live:
            if s.orelse:
                done.extend(self.exec_block(s.orelse, cur))
            else:
                done.append(Outcome("fall", cur))
        return done

    def seq_view(self, st, it):
        """(length Int term, elem(i)->V) for a symbolic iterable, or None."""
        if isinstance(it, VSeq):
            return it.length, it.elem
        return None

    def symbolic_for(self, s, st, it):
        spec = self.loop_spec(s)
        view = self.seq_view(st, it)
        entry = st.fork()
        outs = []
        label = f"L{s.lineno}" if spec is None or not spec.label else spec.label
        if view is None:
            # unknown iterable: invariant True, unknown element
            if not isinstance(it, VUnk) and not (isinstance(it, VRef) and st.obj(it.ref).kind == "unk"):
                self.unsupported(s, f"iteration over {it!r}")
            self.exc_any(st.fork(), f"{self.loc(s)} iter(unknown)")
            body_st = st.fork()
            self.havoc_loop_state(body_st, s.body + s.orelse, None)
            after = body_st.fork()
            for s3 in self.assign(s.target, VUnk("item"), body_st):
                self.exc_any(s3.fork(), f"{self.loc(s)} next(unknown)")
                for o in self.exec_block(s.body, s3):
                    if o.kind in ("return", "raise"):
                        outs.append(o)
            after.ghost["yield_count_unknown"] = after.ghost.get("yield_count_unknown") or self._has_yield(s.body)
            if s.orelse:
                outs.extend(self.exec_block(s.orelse, after))
            else:
                outs.append(Outcome("fall", after))
            return outs
        n, elem = view
        inv = spec.inv if spec is not None else None
        invp = spec.inv_point if spec is not None else None
        if inv is not None:
            g0 = inv(LoopCtx(self, st, z3.IntVal(0), entry, it, {"phase": "init"}))
            self.add_vc("inv-init", label, st.pc, g0, loc=self.loc(s))
        if invp is not None:
            j0 = z3.Int(fresh_name("j0"))
            self.add_vc("inv-init", label + ".pointwise", st.pc, invp(LoopCtx(self, st, z3.IntVal(0), entry, it), j0), loc=self.loc(s))
        # arbitrary iteration
        body_st = st.fork()
        self.havoc_loop_state(body_st, s.body, spec)
        i = z3.Int(fresh_name("i"))
        body_st.assume(z3.And(i >= 0, i < n))
        after = body_st.fork()
        after.pc = list(st.pc)
        # `after` shares the havocked variables but not the i-range assumption
        if inv is not None:
            body_st.assume(self._b(inv(LoopCtx(self, body_st, i, entry, it, {"phase": "assume"}))))
        head_st = body_st.fork() if invp is not None else None       # the state at the loop head of this iteration
        if invp is not None:
            jq = z3.Int(fresh_name("jq"))
            q_hyp = z3.ForAll([jq], self._b(invp(LoopCtx(self, head_st, i, entry, it), jq)))
            body_st.assume(q_hyp)
        for s3 in self.assign(s.target, elem(i), body_st):
            for o in self.exec_block(s.body, s3):
                if o.kind in ("fall", "continue"):
                    if inv is not None:
                        g = inv(LoopCtx(self, o.st, i + 1, entry, it, {"phase": "preserve"}))
                        self.add_vc("inv-preserve", label, o.st.pc, g, loc=self.loc(s))
                    if invp is not None:
                        j0 = z3.Int(fresh_name("j0"))
                        hyps = [self._b(invp(LoopCtx(self, head_st, i, entry, it), j0 + d)) for d in spec.inst_offsets]
                        # the quantified form of the hypothesis is replaced by its instances (keeps the query small and stable)
                        self.add_vc("inv-preserve", label + ".pointwise", [p_ for p_ in o.st.pc if p_ is not q_hyp] + hyps,
                                    invp(LoopCtx(self, o.st, i + 1, entry, it), j0), loc=self.loc(s))
                elif o.kind == "break":
                    outs.append(Outcome("fall", o.st))
                else:
                    outs.append(o)
        # exit: havocked state with inv(n)
        if inv is not None:
            after.assume(n >= 0)
            after.assume(self._b(inv(LoopCtx(self, after, n, entry, it, {"phase": "exit"}))))
        if invp is not None:
            jq = z3.Int(fresh_name("jq"))
            after.assume(z3.ForAll([jq], self._b(invp(LoopCtx(self, after, n, entry, it), jq))))
        if self._has_yield(s.body):
            after.ghost["yield_count_unknown"] = True
        if s.orelse:
            outs.extend(self.exec_block(s.orelse, after))
        else:
            outs.append(Outcome("fall", after))
        return outs

    def _has_yield(self, stmts):
        return any(isinstance(n, (ast.Yield, ast.YieldFrom)) for b in stmts for n in ast.walk(b))

    def _b(self, x):
        return x.t if isinstance(x, VBool) else (z3.BoolVal(x) if isinstance(x, bool) else x)

    def s_While(self, s, st):
        spec = self.loop_spec(s)
        label = f"L{s.lineno}" if spec is None or not spec.label else spec.label
        if spec is not None and spec.unroll is not None:
            return self.unrolled_while(s, st, spec.unroll, label)
        if spec is None or spec.inv is None:
            # try bounded exact unrolling when the guard becomes concrete
            res = self.try_concrete_while(s, st)
            if res is not None:
                return res
        entry = st.fork()
        outs = []
        inv = spec.inv if spec is not None else None
        if inv is not None:
            self.add_vc("inv-init", label, st.pc, inv(LoopCtx(self, st, None, entry)), loc=self.loc(s))
        body_st = st.fork()
        self.havoc_loop_state(body_st, s.body, spec)
        if inv is not None:
            body_st.assume(self._b(inv(LoopCtx(self, body_st, None, entry))))
        after0 = body_st.fork()
        for (s2, g) in self.ev(s.test, body_st):
            for (s3, b) in self.fork_truth(s2, g):
                if not b:
                    continue
                d0 = spec.decreases(LoopCtx(self, s3, None, entry)) if spec is not None and spec.decreases else None
                for o in self.exec_block(s.body, s3):
                    if o.kind in ("fall", "continue"):
                        if inv is not None:
                            self.add_vc("inv-preserve", label, o.st.pc, inv(LoopCtx(self, o.st, None, entry)), loc=self.loc(s))
                        if d0 is not None:
                            d1 = spec.decreases(LoopCtx(self, o.st, None, entry))
                            self.add_vc("decreases", label, o.st.pc, z3.And(d0 >= 0, d1 < d0), loc=self.loc(s))
                    elif o.kind == "break":
                        outs.append(Outcome("fall", o.st))
                    else:
                        outs.append(o)
        for (s2, g) in self.ev(s.test, after0):
            for (s3, b) in self.fork_truth(s2, g):
                if b:
                    continue
                if self._has_yield(s.body):
                    s3.ghost["yield_count_unknown"] = True
                if s.orelse:
                    outs.extend(self.exec_block(s.orelse, s3))
                else:
                    outs.append(Outcome("fall", s3))
        return outs

    def unrolled_while(self, s, st, bound, label):
        live = [st]
        done = []
        for _ in range(bound):
            nxt = []
            for cur in live:
                for (s2, g) in self.ev(s.test, cur):
                    for (s3, b) in self.fork_truth(s2, g):
                        if not b:
                            done.append(Outcome("fall", s3))
                            continue
                        for o in self.exec_block(s.body, s3):
                            if o.kind in ("fall", "continue"):
                                nxt.append(o.st)
                            elif o.kind == "break":
                                done.append(Outcome("fall", o.st))
                            else:
                                done.append(o)
            live = nxt
        for cur in live:   # unwinding assertion: guard is false now
            for (s2, g) in self.ev(s.test, cur):
                t = self.truth(s2, g)
                self.add_vc("unwind", label, s2.pc, z3.Not(t.t), loc=self.loc(s))
                done.append(Outcome("fall", s2.assume(z3.Not(t.t))))
        return done

    def try_concrete_while(self, s, st, limit=4096):
        live = [st]
        done = []
        steps = 0
        while live:
            steps += 1
            if steps > limit:
                return None
            nxt = []
            for cur in live:
                sink_mark = len(self.sinks[-1])
                for (s2, g) in self.ev(s.test, cur.fork()):
                    t = self.truth(s2, g).const()
                    if t is None:
                        del self.sinks[-1][sink_mark:]
                        return None
                    if not t:
                        done.append(Outcome("fall", s2))
                        continue
                    for o in self.exec_block(s.body, s2):
                        if o.kind in ("fall", "continue"):
                            nxt.append(o.st)
                        elif o.kind == "break":
                            done.append(Outcome("fall", o.st))
                        else:
                            done.append(o)
            live = nxt
        return done

    # ------------------------------------------------------------ try / with --
    def s_Try(self, s, st):
        outs = []
        body_outs = self.exec_block(s.body, st)
        after = []
        for o in body_outs:
            if o.kind == "raise":
                after.extend(self.handle(s, o))
            elif o.kind == "fall" and s.orelse:
                after.extend(self.exec_block(s.orelse, o.st))
            else:
                after.append(o)
        if not s.finalbody:
            return self.maybe_merge(after)
        for o in after:
            for fo in self.exec_block(s.finalbody, o.st):
                if fo.kind == "fall":
                    outs.append(Outcome(o.kind, fo.st, o.val))
                else:
                    outs.append(fo)     # finally overrides
        return self.maybe_merge(outs)

    def handler_classes(self, h, st):
        if h.type is None:
            return ["BaseException"]
        elts = h.type.elts if isinstance(h.type, ast.Tuple) else [h.type]
        # a module-level constant tuple of classes (`except _READ_ERRORS:`) stands for its elements
        expanded, todo = [], list(elts)
        while todo:
            e = todo.pop(0)
            tup = self.module.assigns.get(e.id) if isinstance(e, ast.Name) else None
            if isinstance(tup, ast.Tuple) and len(expanded) + len(todo) < 200:
                todo = list(tup.elts) + todo
            else:
                expanded.append(e)
        names = []
        for e in expanded:
            try:
                vals = self.ev(e, st.fork())
            except Unsupported:
                vals = []
            if len(vals) != 1 or not isinstance(vals[0][1], VType):
                n = ast.unparse(e)
                short = n.split(".")[-1]
                if self.uni.known(n):
                    names.append(n)
                elif self.uni.known(short):
                    names.append(short)
                elif self.abstract and isinstance(e, (ast.Name, ast.Attribute)):
                    # a library class outside the universe: under-approximate the handler (it catches nothing we can name);
                    # sound for "only X escapes" goals, which is what abstract mode is used for
                    self.abstracted.append(f"{self.loc(h)} except {n}: class outside the exception universe, handler under-approximated")
                else:
                    self.unsupported(h, f"except clause with unknown class {n}")
            else:
                names.append(vals[0][1].name)
        return names

    def handle(self, s, o: Outcome) -> list:
        st, exc = o.st, o.val
        outs = []
        remaining = z3.BoolVal(True)
        for h in s.handlers:
            classes = self.handler_classes(h, st)
            match = z3.Or([self.uni.subclass_term(exc.tidx, c) for c in classes])
            cond = z3.simplify(z3.And(remaining, match))
            if not z3.is_false(cond) and self.feasible(st.pc, cond):
                hs = st.fork().assume(cond)
                if h.name:
                    hs.bind(h.name, exc)
                prev = hs.cur_exc
                hs.cur_exc = exc
                for ho in self.exec_block(h.body, hs):
                    if ho.kind != "raise":
                        ho.st.cur_exc = prev
                    outs.append(ho)
            remaining = z3.simplify(z3.And(remaining, z3.Not(match)))
            if z3.is_false(remaining):
                break
        if not z3.is_false(remaining) and self.feasible(st.pc, remaining):
            outs.append(Outcome("raise", st.assume(remaining), exc))
        return outs

    def s_With(self, s, st):
        # `with E as v: body` == enter; try: body finally: exit (PY-GEN / with protocol)
        states = [st]
        cms = []
        for item in s.items:
            nxt = []
            for cur in states:
                for (s2, cm) in self.ev(item.context_expr, cur):
                    for (s3, val) in self.with_enter(s2, cm, item):
                        if item.optional_vars is not None:
                            for s4 in self.assign(item.optional_vars, val, s3):
                                nxt.append((s4, cm))
                        else:
                            nxt.append((s3, cm))
            states = [x[0] for x in nxt]
            cms.append([x[1] for x in nxt])
        outs = []
        for idx, cur in enumerate(states):
            for o in self.exec_block(s.body, cur):
                st2 = o.st
                for cmlist in reversed(cms):
                    cm = cmlist[idx] if idx < len(cmlist) else cmlist[-1]
                    self.with_exit(st2, cm, o)
                outs.append(o)
        return outs

    def with_enter(self, st, cm, item):
        """-> [(state, value bound by `as`)]; models for known context managers."""
        h = self.reg.ext_models.get(("with", getattr(cm, "sort", None) or cm.kind))
        if h is not None:
            return h(self, st, cm, "enter")
        if isinstance(cm, VUnk):
            self.exc_any(st, f"{self.loc(item.context_expr)} __enter__")
            return [(st, VUnk("enter"))]
        return [(st, cm)]

    def with_exit(self, st, cm, outcome):
        h = self.reg.ext_models.get(("with", getattr(cm, "sort", None) or cm.kind))
        if h is not None:
            h(self, st, cm, "exit")
