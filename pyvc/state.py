"""Execution state of the symbolic executor: frames, functional heap, path condition."""
from __future__ import annotations

from .values import V


class HeapObj:
    """kind: 'list' (data: python list of V, concrete length), 'dict' (data:
    python dict const-key -> V), 'obj' (data: dict field -> V, cls: class
    name), 'bytearray' (like list), 'unk' (havocked, nothing known)."""
    __slots__ = ("kind", "data", "cls", "fresh")

    def __init__(self, kind, data, cls=None, fresh=True):
        self.kind, self.data, self.cls, self.fresh = kind, data, cls, fresh

    def copy(self):
        d = self.data
        if isinstance(d, list):
            d = list(d)
        elif isinstance(d, dict):
            d = dict(d)
        return HeapObj(self.kind, d, self.cls, self.fresh)


class Frame:
    __slots__ = ("env", "static", "fnode", "nonlocals", "globals_")

    def __init__(self, env=None, static=None, fnode=None):
        self.env: dict[str, V] = env if env is not None else {}
        self.static = static      # index of the lexically enclosing frame or None
        self.fnode = fnode
        self.nonlocals: set = set()
        self.globals_: set = set()

    def copy(self):
        f = Frame(dict(self.env), self.static, self.fnode)
        f.nonlocals = self.nonlocals
        f.globals_ = self.globals_
        return f


class State:
    __slots__ = ("frames", "heap", "pc", "ghost", "yielded", "cur_exc", "depth")

    def __init__(self):
        self.frames: list[Frame] = [Frame()]
        self.heap: dict[int, HeapObj] = {}
        self.pc: list = []
        self.ghost: dict = {}
        self.yielded: list = []
        self.cur_exc = None     # exception being handled (for bare `raise`)
        self.depth = 0

    def fork(self) -> "State":
        s = State()
        s.frames = [f.copy() for f in self.frames]
        s.heap = dict(self.heap)        # HeapObj are copy-on-write (see write())
        s.pc = list(self.pc)
        s.ghost = dict(self.ghost)
        s.yielded = list(self.yielded)
        s.cur_exc = self.cur_exc
        s.depth = self.depth
        return s

    def assume(self, cond) -> "State":
        self.pc.append(cond)
        return self

    # -- variables ----------------------------------------------------------
    @property
    def frame(self) -> Frame:
        return self.frames[-1]

    def lookup(self, name):
        f = self.frames[-1]
        idx = len(self.frames) - 1
        while True:
            if name in f.env:
                return f.env[name]
            if f.static is None:
                return None
            idx = f.static
            f = self.frames[idx]

    def bind(self, name, val):
        f = self.frames[-1]
        if name in f.nonlocals:
            idx = f.static
            while idx is not None:
                g = self.frames[idx]
                if name in g.env:
                    g.env[name] = val
                    return
                idx = g.static
        f.env[name] = val

    # -- heap -----------------------------------------------------------------
    def alloc(self, obj: HeapObj, counter) -> int:
        ref = next(counter)
        self.heap[ref] = obj
        return ref

    def obj(self, ref) -> HeapObj:
        return self.heap[ref]

    def wobj(self, ref) -> HeapObj:
        """Heap object for writing (copy-on-write)."""
        o = self.heap[ref].copy()
        self.heap[ref] = o
        return o
