"""Discharging VCs: z3 (python API) first, cvc5 CLI on what z3 leaves unknown."""
from __future__ import annotations

import os
import subprocess
import tempfile
import time

import z3

QUICK_TIMEOUT_MS = int(os.environ.get("PYVC_TIMEOUT_MS", "30000"))


EXTRA_REFUTERS: list = []
EXTRA_PROVERS: list = []      # see check_vc: consulted only when z3 answers `unknown`; a True answer must come from an `unsat`
# pack-registered fn(pc, goal) -> bool: True when a `sat` answer of the unbounded VC cannot be trusted as a counter-model
# (the VC mentions a spec function that the pack keeps uninterpreted for proofs); the VC is then handed to the
# bounded refuters like an `unknown` one.  Added for C04 (seq_max); proofs (`unsat`) are unaffected.
SAT_UNTRUSTED: list = []


class VCResult:
    __slots__ = ("status", "backend", "seconds", "model", "reason", "smt_size")

    def __init__(self, status, backend, seconds, model=None, reason="", smt_size=0):
        self.status, self.backend, self.seconds = status, backend, seconds
        self.model, self.reason, self.smt_size = model, reason, smt_size


def _cvc5(smt2: str, timeout_s: float):
    # z3's simplifier splits seq.nth(s, i) into ite(in bounds, seq.nth_i(s, i), seq.nth_u(s, i)); both are the standard seq.nth for cvc5
    smt2 = smt2.replace("seq.nth_i", "seq.nth").replace("seq.nth_u", "seq.nth")
    with tempfile.NamedTemporaryFile("w", suffix=".smt2", delete=False, dir=os.environ.get("PYVC_SCRATCH")) as fh:
        fh.write("(set-logic ALL)\n" + smt2 + "\n(check-sat)\n")
        path = fh.name
    try:
        p = subprocess.run(["/usr/bin/cvc5", "--strings-exp", f"--tlimit={int(timeout_s * 1000)}", path],
                           capture_output=True, text=True, timeout=timeout_s + 5)
        out = p.stdout.strip().splitlines()
        return out[0] if out else "unknown"
    except (subprocess.TimeoutExpired, OSError):
        return "unknown"
    finally:
        try:
            os.unlink(path)
        except OSError:
            pass


def check_vc(pc, goal, timeout_ms=None, want_model=True, use_cvc5=True) -> VCResult:
    """Valid iff pc /\\ not goal is unsat."""
    timeout_ms = timeout_ms or QUICK_TIMEOUT_MS
    s = z3.Solver()
    s.set("timeout", timeout_ms)
    s.add(*pc)
    s.add(z3.Not(goal))
    t0 = time.time()
    r = s.check()
    dt = time.time() - t0
    if r == z3.unsat:
        res = VCResult("proved", "z3", dt)
        if os.environ.get("PYVC_CROSSCHECK"):
            res.reason = "cross:" + cross_check(pc, goal)
        return res
    untrusted = r != z3.unsat and any(f(pc, goal) for f in SAT_UNTRUSTED)
    if r == z3.sat and not untrusted:
        return VCResult("refuted", "z3", dt, model=s.model() if want_model else None)
    reason = s.reason_unknown() if r != z3.sat else "sat with an uninterpreted spec function (not a counter-model by itself)"
    if r == z3.unknown or (r == z3.sat and untrusted):
        for prover in EXTRA_PROVERS:    # pack-registered second attempts (other seeds / tactics): fn(pc, goal, timeout_ms) -> bool (valid)
            try:
                if prover(pc, goal, timeout_ms):
                    return VCResult("proved", "z3-retry", time.time() - t0)
            except z3.Z3Exception:
                pass
    try:
        w = None if untrusted else random_refute(pc, goal)     # (a VC whose models are declared untrusted is not refuted by instantiation either)
    except z3.Z3Exception:
        w = None
    if w is not None:
        return VCResult("refuted", "random-instantiation", dt, model=None, reason="falsified by concrete instantiation: " + str(dict(list(w.items())[:40])))
    for refuter in EXTRA_REFUTERS:      # pack-registered bounded instantiation (DESIGN 2.5.3a): fn(pc, goal, timeout_ms) -> reason | None
        try:
            why = refuter(pc, goal, timeout_ms)
        except z3.Z3Exception:
            why = None
        if why:
            return VCResult("refuted", "bounded-instantiation", time.time() - t0, model=None, reason=why)
    if use_cvc5 and not (untrusted and r == z3.sat):
        try:
            s_orig = z3.Solver()          # print the ORIGINAL assertions: after check() z3 prints internal symbols (seq.nth_i) cvc5 cannot parse
            s_orig.add(*pc)
            s_orig.add(z3.Not(goal))
            smt2 = s_orig.to_smt2()
            smt2 = "\n".join(l for l in smt2.splitlines() if not l.startswith("(check-sat)") and not l.startswith("(set-info") and not l.startswith("; benchmark"))
            t1 = time.time()
            r2 = _cvc5(smt2, timeout_ms / 1000.0)
            dt2 = time.time() - t1
            if r2 == "unsat":
                return VCResult("proved", "cvc5", dt + dt2, smt_size=len(smt2))
            if r2 == "sat" and not untrusted and "forall" not in smt2 and "exists" not in smt2:
                # (with quantifiers a `sat` of cvc5 is not trusted as a refutation: stays unknown)
                return VCResult("refuted", "cvc5", dt + dt2, reason="cvc5 sat (no model decoded)", smt_size=len(smt2))
        except Exception as e:  # noqa
            reason += f"; cvc5 fallback failed: {e}"
    return VCResult("unknown", "z3", dt, reason=reason)


def cross_check(pc, goal, timeout_s=5.0):
    """Thorough tier: the same VC on cvc5.  -> 'agree' (unsat) | 'unknown' | 'disagree' (cvc5 sat on a quantifier-free VC)."""
    try:
        s = z3.Solver()
        s.add(*pc)
        s.add(z3.Not(goal))
        smt2 = s.to_smt2()
        smt2 = "\n".join(l for l in smt2.splitlines() if not l.startswith("(check-sat)") and not l.startswith("(set-info") and not l.startswith("; benchmark"))
        if len(smt2) > 400_000:
            return "unknown"
        r = _cvc5(smt2, timeout_s)
        if r == "unsat":
            return "agree"
        if r == "sat" and "forall" not in smt2 and "exists" not in smt2 and "lambda" not in smt2:
            return "disagree"
        return "unknown"
    except Exception:  # noqa
        return "unknown"


def free_consts(exprs):
    seen, out, stack = set(), {}, list(exprs)
    while stack:
        x = stack.pop()
        i = x.get_id()
        if i in seen:
            continue
        seen.add(i)
        if z3.is_quantifier(x):
            return None          # not ground-evaluable
        if z3.is_app(x):
            if x.num_args() == 0 and x.decl().kind() == z3.Z3_OP_UNINTERPRETED:
                out[x.decl().name()] = x
            elif x.decl().kind() == z3.Z3_OP_UNINTERPRETED:
                return None      # uninterpreted function application
            stack.extend(x.children())
    return out


def random_refute(pc, goal, tries=24, seed=0):
    """Refuter (DESIGN 2.5.3a): concrete random instantiation of a ground VC over
    bit-vectors / ints / bools.  Returns {name: value} falsifying the VC, or None."""
    import random
    consts = free_consts(list(pc) + [goal])
    if not consts:
        return None
    rnd = random.Random(seed)
    for k in range(tries):
        sub = []
        vals = {}
        for name, c in consts.items():
            srt = c.sort()
            if z3.is_bv_sort(srt):
                w = srt.size()
                v = rnd.choice([0, 1, (1 << w) - 1, rnd.getrandbits(w), rnd.getrandbits(w)]) if k else rnd.getrandbits(w)
                sub.append((c, z3.BitVecVal(v, w)))
            elif srt == z3.IntSort():
                v = rnd.choice([0, 1, -1, rnd.randint(0, 300), rnd.randint(-5, 70000)])
                sub.append((c, z3.IntVal(v)))
            elif srt == z3.BoolSort():
                v = rnd.random() < 0.5
                sub.append((c, z3.BoolVal(v)))
            else:
                return None
            vals[name] = v
        ok = True
        for p_ in pc:
            r = z3.simplify(z3.substitute(p_, *sub))
            if not z3.is_true(r):
                ok = False
                break
        if not ok:
            continue
        g = z3.simplify(z3.substitute(goal, *sub))
        if z3.is_false(g):
            return vals
    return None


def model_value(model, term):
    """Python value of a term under a model (ints, bools, strings, bitvectors)."""
    v = model.eval(term, model_completion=True)
    if z3.is_int_value(v) or z3.is_bv_value(v):
        return v.as_long()
    if z3.is_true(v):
        return True
    if z3.is_false(v):
        return False
    if z3.is_string_value(v):
        from .values import z3_str_value
        return z3_str_value(v)
    if z3.is_rational_value(v):
        return [v.numerator_as_long(), v.denominator_as_long()]
    if z3.is_algebraic_value(v):
        return str(v.approx(10))
    return str(v)
