"""./check <Cxx> [--tier quick|thorough] [--replay FILE] [--update-lock]

Exit codes: 0 all obligations discharged (or only recorded known findings);
1 VIOLATION (an obligation is refuted; replayed on the real code where a
failing input is found); 2 UNDECIDED (solver unknown / function left the
subset / contract target missing) -- never reported as a violation;
3 engine error or vacuity (fewer obligations than locked).
"""
from __future__ import annotations

import argparse
import importlib
import json
import multiprocessing as mp
import os
import subprocess
import sys
import time

ROOT = os.path.dirname(os.path.dirname(os.path.abspath(__file__)))
sys.path.insert(0, ROOT)

from pyvc import loader  # noqa: E402

VENV_PY = "/venv/bin/python"


def _worker(task):
    prop, idx, repo, tier = task
    os.environ["VERIF_TIER"] = tier
    if tier == "thorough":
        os.environ.setdefault("PYVC_CROSSCHECK", "1")
    from pyvc.contracts import Registry
    from pyvc.exctypes import Universe
    from pyvc import verify
    pack = importlib.import_module(f"contracts.{prop}")
    reg = Registry()
    uni = Universe(repo)
    cs = pack.contracts(reg)
    for c in cs:
        reg.add(c)
    todo = [c for c in cs if not c.assumed]
    if tier == "quick" and getattr(pack, "QUICK_SKIP_BOUNDED", False):
        todo = [c for c in todo if not getattr(c, "bounded", "")]
    c = todo[idx]
    kw = getattr(pack, "EXECUTOR_KW", {}).get(c.target, None)
    timeout = 60000 if tier == "thorough" else None
    t0 = time.time()
    rep = verify.run_contract(prop, c, reg, uni, repo=repo, timeout_ms=timeout,
                              executor_cls=getattr(pack, "EXECUTOR", verify.Executor), executor_kw=kw)
    if os.environ.get("PYVC_TIMING"):
        print(f"[timing] {c.target.split('::')[-1]} {time.time() - t0:.1f}s", file=sys.stderr, flush=True)
    hook = getattr(pack, "post_report", None)     # optional pack hook: adjust a function report (e.g. solver models that
    if hook is not None:                           # interpret uninterpreted spec functions are not refutations: -> unknown)
        hook(c, rep)
    return rep.to_dict()


def _lemma_worker(task):
    prop, idx, repo, tier = task
    from pyvc import solve
    pack = importlib.import_module(f"contracts.{prop}")
    lem = pack.lemmas()[idx]
    oid, hyps, goal = lem[0], lem[1], lem[2]
    r = solve.check_vc(hyps, goal, 60000 if tier == "thorough" else None, want_model=False)
    return {"id": oid, "kind": "lemma", "status": r.status, "vcs": 1, "seconds": round(r.seconds, 4),
            "backends": {r.backend: 1}, "witness": None, "reason": r.reason, "loc": "spec"}


def _extra_worker(task):
    prop, idx, repo, tier = task
    pack = importlib.import_module(f"contracts.{prop}")
    t0 = time.time()
    r = pack.EXTRA[idx](repo, tier)
    if os.environ.get("PYVC_TIMING"):
        print(f"[timing] EXTRA {pack.EXTRA[idx].__name__} {time.time() - t0:.1f}s", file=sys.stderr, flush=True)
    return r


def load_json(path, default):
    try:
        with open(path) as fh:
            return json.load(fh)
    except FileNotFoundError:
        return default


def main(argv=None):
    ap = argparse.ArgumentParser()
    ap.add_argument("prop")
    ap.add_argument("--tier", default=os.environ.get("VERIF_TIER") or "quick")
    ap.add_argument("--replay")
    ap.add_argument("--update-lock", action="store_true")
    ap.add_argument("--jobs", type=int, default=int(os.environ.get("PYVC_JOBS", "16")))
    a = ap.parse_args(argv)
    prop = a.prop
    tier = a.tier if a.tier in ("quick", "thorough") else "quick"
    seed = int(os.environ.get("VERIF_SEED", "0") or 0)
    repo = loader.REPO
    os.chdir(ROOT)
    os.makedirs("out/replays", exist_ok=True)
    os.makedirs("evidence", exist_ok=True)
    t0 = time.time()

    if a.replay:
        return replay_file(prop, a.replay)

    pack = importlib.import_module(f"contracts.{prop}")
    from pyvc.contracts import Registry
    reg0 = Registry()
    cs0 = pack.contracts(reg0)
    todo = [c for c in cs0 if not c.assumed]
    skipped_bounded = []
    if tier == "quick" and getattr(pack, "QUICK_SKIP_BOUNDED", False):
        skipped_bounded = [c.target for c in todo if getattr(c, "bounded", "")]
        todo = [c for c in todo if not getattr(c, "bounded", "")]
    assumed = [c for c in cs0 if c.assumed]
    n_lem = len(pack.lemmas()) if hasattr(pack, "lemmas") else 0
    n_extra = len(getattr(pack, "EXTRA", []))

    tasks = [(prop, i, repo, tier) for i in range(len(todo))]
    ctx = mp.get_context(os.environ.get("PYVC_MP", "spawn"))
    with ctx.Pool(min(a.jobs, max(1, len(tasks) + n_lem + n_extra))) as pool:
        r1 = pool.map_async(_worker, tasks, chunksize=1)
        r2 = pool.map_async(_lemma_worker, [(prop, i, repo, tier) for i in range(n_lem)], chunksize=1)
        r3 = pool.map_async(_extra_worker, [(prop, i, repo, tier) for i in range(n_extra)], chunksize=1)
        reports = r1.get()
        lemma_res = r2.get()
        extra_res = r3.get()

    obligations = []
    fn_infos = []
    undecided = []
    engine_errors = []
    exc_any_total = 0
    assumed_used = set()
    verified_assumed = set()
    for rep in reports:
        if rep["error"] == "contract-target-missing":
            undecided.append({"obligation": rep["target"], "why": "contract-target-missing"})
            continue
        if rep["error"]:
            if getattr(pack, "REPLAY_UNKNOWN", True):
                # the engine/pack model broke on this (changed) function: only a natively reproduced failing input is a violation
                short = rep["target"].split("/")[-1]
                pseudo = {"id": f"{prop}/{short}/out-of-subset", "kind": "out-of-subset", "status": "unknown", "vcs": 0, "seconds": 0.0,
                          "backends": {}, "witness": None, "reason": "ENGINE-ERROR " + rep["error"][:300], "function": rep["target"], "loc": ""}
                rp = do_replay(prop, pseudo, repo)
                if rp.get("reproduced"):
                    pseudo["status"] = "refuted"
                    pseudo["reason"] += "; failing input found natively"
                    obligations.append(pseudo)
                    continue
            engine_errors.append({"function": rep["target"], "error": rep["error"]})
            continue
        if rep["out_of_subset"]:
            if getattr(pack, "REPLAY_UNKNOWN", True):
                # the function left the verifiable subset: only a natively reproduced failing input makes this a violation
                short = rep["target"].split("/")[-1]
                pseudo = {"id": f"{prop}/{short}/out-of-subset", "kind": "out-of-subset", "status": "unknown", "vcs": 0, "seconds": 0.0,
                          "backends": {}, "witness": None, "reason": "OUT-OF-SUBSET " + rep["out_of_subset"], "function": rep["target"], "loc": ""}
                rp = do_replay(prop, pseudo, repo)
                if rp.get("reproduced"):
                    pseudo["status"] = "refuted"
                    pseudo["reason"] += "; failing input found natively"
                    obligations.append(pseudo)
                    continue
            undecided.append({"obligation": rep["target"], "why": "OUT-OF-SUBSET " + rep["out_of_subset"]})
            continue
        info = dict(rep["info"], paths=rep["paths"], gen_seconds=round(rep["gen_seconds"], 3),
                    obligations=len(rep["obligations"]))
        fn_infos.append(info)
        exc_any_total += rep["exc_any_sites"]
        assumed_used |= set(rep["assumed_used"])
        for o in rep["obligations"]:
            o["function"] = rep["target"]
            obligations.append(o)
    obligations.extend(lemma_res)
    for er in extra_res:
        # extra: {"obligations":[...], "functions":[...], "undecided":[...], "errors": [...]}
        obligations.extend(er.get("obligations", []))
        fn_infos.extend(er.get("functions", []))
        undecided.extend(er.get("undecided", []))
        engine_errors.extend(er.get("errors", []))
        # optional: targets of contracts that are ASSUMED at their call sites in this pack and were verified on the real body by this
        # EXTRA in this very run (all their obligations proved): they leave the `assumed_contracts` list of the evidence
        verified_assumed |= set(er.get("verified_assumed", []) or [])

    # ------------------------------------------------------------ verdicts --
    lock_all = load_json("obligations.lock.json", {})
    lock = lock_all.get(prop, {})
    known = load_json("known_findings.json", {"findings": [], "fixed": []})
    kf = [f for f in known.get("findings", []) if f["property"] == prop]

    by_id = {}
    for o in obligations:
        if o["id"] in by_id:           # same obligation id from several alternatives: merge
            p = by_id[o["id"]]
            p["vcs"] += o["vcs"]
            p["seconds"] += o["seconds"]
            if o.get("failing"):          # bounded obligations split over several jobs: union of the failing instances
                p["failing"] = list(p.get("failing") or []) + list(o["failing"])
            order = {"refuted": 3, "unknown": 2, "proved": 1, "bounded-ok": 0}
            if order[o["status"]] > order[p["status"]]:
                p.update(status=o["status"], witness=o.get("witness"), reason=o.get("reason"))
        else:
            by_id[o["id"]] = o
    obligations = list(by_id.values())

    cur_hashes = source_hashes(repo)
    if a.update_lock:
        # an obligation marked `volatile` belongs to a code site whose id follows the code (function / local names): it is checked and
        # counted like any other but not locked -- the vacuity guard for such families is a package-level coverage obligation
        lock_all[prop] = {o["id"]: o["status"] for o in obligations if not o.get("volatile")}
        lock_all.setdefault("_source_hashes", {})[prop] = cur_hashes
        with open("obligations.lock.json", "w") as fh:
            json.dump(lock_all, fh, indent=1, sort_keys=True)
        print(f"lock updated: {len(obligations)} obligations for {prop}")
        lock = lock_all[prop]

    missing = [oid for oid in lock if oid not in by_id]
    missing_fn_prefixes = list(skipped_bounded) + [u["obligation"] for u in undecided] + [o.get("function", "") for o in obligations if o.get("kind") == "out-of-subset"]
    really_missing = []
    for oid in missing:
        if "/call-pre#" in oid:
            continue   # a call site may legitimately disappear; the callee's own obligations remain
        if any(k in oid for k in ("/inv-init#", "/inv-preserve#", "/inv-use#", "/unwind#")):
            # a loop may legitimately disappear (loop -> comprehension): accepted when the same function still has a
            # functional postcondition obligation (returns / ensures / final) generated in this run
            fn_prefix = oid.rsplit("/", 1)[0] + "/"
            label = oid.rsplit("#", 1)[-1]
            if any(o2.startswith(fn_prefix) and (any(k in o2 for k in ("/returns", "/ensures", "/final"))
                                                 or ("/inv-preserve#" in o2 and o2.rsplit("#", 1)[-1] != label)) for o2 in by_id):
                continue   # (an enclosing / other loop of the function still carries its invariant over the rewritten code)
        fn = oid.split("/", 1)[1].rsplit("/", 1)[0] if "/" in oid else oid
        # pack option LOCK_OPTIONAL_KINDS (e.g. ("inv-init", "inv-preserve", "decreases")): obligations of these kinds exist only
        # while the code has the construct (a loop rewritten as a comprehension has no invariant); they may disappear as long as
        # the same function still generates its other obligations (returns / ensures / raises ...)
        if any(f"/{k}#" in oid for k in getattr(pack, "LOCK_OPTIONAL_KINDS", ())) and \
                any(o_["id"].startswith(oid.rsplit("/", 1)[0] + "/") for o_ in obligations):
            continue
        # pack option LOCK_FILE_COVERAGE (e.g. {"decreases#while-": "::*/decreases#for-loops"}): obligations of that kind are ENUMERATED from the source
        # of a file (one per construct found by a scanner), and the scanner's own per-file obligation -- id of the same file containing
        # the given marker -- is generated in this run: the construct is no longer in the code (loop moved into a helper, `while`
        # rewritten as `for`), the scan that would have listed it ran.
        cov = getattr(pack, "LOCK_FILE_COVERAGE", None) or {}
        file_prefix = oid.split("::")[0] + "::"
        if any(f"/{k}" in oid and any(o_["id"].startswith(file_prefix) and mk in o_["id"] and o_["status"] != "unknown" for o_ in obligations)
               for k, mk in cov.items()):
            continue
        if any(fn.split("::")[-1] in m and fn.split("::")[0].split("/")[-1] in m for m in missing_fn_prefixes):
            continue
        # pack option LOCK_OPTIONAL_FUNCTIONS (substrings of obligation ids): COMPLEMENTARY contracts that the pack only registers while
        # the function has the code shape their invariants were written for (and the solver decides them); the function stays covered
        # by other locked obligations of the pack (its bounded walker), so these may disappear after an edit
        if any(k in oid for k in getattr(pack, "LOCK_OPTIONAL_FUNCTIONS", ())):
            continue
        really_missing.append(oid)
    # A locked obligation that is not generated is a vacuity error of the harness (exit 3) only when the source it belongs to is
    # the source the lock was taken from.  When that file changed (functions renamed, split, merged), the contract no longer
    # lines up with the code: the obligation is `unknown` and goes to the native replayer like any other undecided one.
    locked_hashes = lock_all.get("_source_hashes", {}).get(prop)
    if locked_hashes is not None and really_missing:
        changed = {b for b in set(cur_hashes) | set(locked_hashes) if cur_hashes.get(b) != locked_hashes.get(b)}
        still = []
        for oid in really_missing:
            base = oid.split("/", 1)[1].split("::")[0] if "/" in oid else ""
            drift = (base in changed) if base.endswith(".py") else bool(changed)
            if drift:
                obligations.append({"id": oid, "kind": "drift", "status": "unknown", "vcs": 0, "seconds": 0.0, "backends": {}, "witness": None,
                                    "reason": f"locked obligation not generated; source changed since the lock ({', '.join(sorted(changed))[:120]})",
                                    "function": "", "loc": base})
            else:
                still.append(oid)
        really_missing = still

    violations = []
    known_lines = []
    discharged = 0
    under_exclusion = 0
    bounded_ok = 0
    is_bounded = lambda o_: bool(o_.get("bounded")) or o_.get("kind") == "bounded" or o_["status"] == "bounded-ok"
    for o in obligations:
        if o["status"] == "proved":
            if is_bounded(o):
                bounded_ok += 1      # BOUNDED stand-in (DESIGN 2.8): checked, listed, never counted as proved
            else:
                discharged += 1
            continue
        if o["status"] == "bounded-ok":
            # DESIGN 2.8: an exhaustive small-scope run that found nothing is a bounded stand-in, never counted as proved
            bounded_ok += 1
            continue
        if o["status"] == "unknown":
            if getattr(pack, "REPLAY_UNKNOWN", True):
                # DESIGN 2.5.3(c): native small-scope search on the real function as a last witness finder (opt-in per pack);
                # only a natively reproduced failing input turns `unknown` into a violation
                rp = do_replay(prop, o, repo)
                if rp.get("reproduced"):
                    o["status"] = "refuted"
                    o["reason"] = ((o.get("reason") or "") + "; solver unknown, failing input found natively").strip("; ")
                    o["_replayed"] = rp
                    violations.append(o)
                    continue
            undecided.append({"obligation": o["id"], "why": "solver unknown: " + (o.get("reason") or "")})
            continue
        # refuted
        match = [f for f in kf if f["obligation"] == o["id"]]
        violations.append(o)

    # known findings handled by the pack itself (proved under exclusion + witness replay)
    kf_results = []
    if hasattr(pack, "known_findings"):
        kf_results = pack.known_findings(kf, violations, repo, tier)
        # pack returns: list of {"finding":id, "still_fails":bool, "line":str, "covers":[obligation ids]}
    covered = set()
    for r in kf_results:
        if r.get("still_fails"):
            known_lines.append(f"KNOWN-FINDING: property={prop} {r['line']}")
        covered |= set(r.get("covers", []))
    new_violations = [o for o in violations if o["id"] not in covered]
    under_exclusion = len([o for o in violations if o["id"] in covered])

    out_lines = []
    exit_code = 0
    vio_records = []
    for o in new_violations:
        rp = o.pop("_replayed", None) or do_replay(prop, o, repo)
        path = rp["path"]
        if rp.get("reproduced"):
            out_lines.append(f"VIOLATION property={prop} replay={path} obligation={o['id']}")
        else:
            out_lines.append(f"VIOLATION property={prop} replay={path} obligation={o['id']} no-failing-input-found")
        vio_records.append({"obligation": o["id"], "replay": path, "reproduced": bool(rp.get("reproduced"))})
        exit_code = 1
    if exit_code == 0 and engine_errors:
        exit_code = 3
    if exit_code == 0 and really_missing:
        exit_code = 3
    if exit_code == 0 and not obligations:
        exit_code = 3
    if exit_code == 0 and undecided:
        exit_code = 2

    wall = time.time() - t0
    by_backend = {}
    for o in obligations:
        for k, v in (o.get("backends") or {}).items():
            by_backend[k] = by_backend.get(k, 0) + v
    solver_seconds = round(sum(o["seconds"] for o in obligations), 3)
    cross = {"agree": 0, "unknown": 0, "disagree": 0}
    for o in obligations:
        for k, v in (o.get("cross") or {}).items():
            cross[k] = cross.get(k, 0) + v
    if cross["disagree"] and exit_code == 0:
        exit_code = 3
        print(f"SOLVER-DISAGREEMENT property={prop}: cvc5 found a model for {cross['disagree']} VC(s) that z3 proved")
    samples = [{"id": o["id"], "kind": o["kind"], "vcs": o["vcs"], "status": o["status"], "seconds": o["seconds"]}
               for o in obligations[:6]]
    # an `assumed` contract that carries `implied_by` (obligation ids) is the call-site VIEW of a contract verified elsewhere in the
    # pack: when every named obligation is proved in this run (and none of them is a bounded one) it is reported as a view, not as
    # an assumption; in every other case it stays in `assumed_contracts` (additive: packs without the attribute are unaffected)
    implied_views = {}
    _proved = {o["id"] for o in obligations if o.get("status") == "proved" and not is_bounded(o)}
    for c_ in assumed:
        need = list(getattr(c_, "implied_by", None) or [])
        if need and all(n_ in _proved for n_ in need):
            implied_views[c_.target] = need
    # opt-in (pack attribute CALL_SITE_VIEWS = {target: why the verified contract implies the assumed registration}): a target that
    # is registered twice -- VERIFIED on its real body and, abbreviated, as the view its callers use -- is reported as assumed only
    # while some obligation of the verified registration is not discharged (additive: packs without the attribute are unaffected)
    views, views_open = {}, {}
    try:
        for tgt, why in dict(getattr(pack, "CALL_SITE_VIEWS", {}) or {}).items():
            qn = tgt.split("/")[-1]
            mine = [o for o in obligations if o["id"].startswith(f"{prop}/{qn}/")]
            if mine and all(o["status"] in ("proved", "discharged") for o in mine) and any(c.target == tgt for c in todo):
                views[tgt] = why
            elif mine:
                views_open[tgt] = [o["id"] for o in mine if o["status"] not in ("proved", "discharged")]      # still listed under assumed_contracts
    except Exception:  # noqa
        views, views_open = {}, {}
    evidence = {
        "property_id": prop, "tier": tier, "seed": seed, "level": "proof",
        "coverage": {
            "obligations": len(obligations) - under_exclusion - bounded_ok,
            "discharged": discharged,
            "bounded_checked_not_counted": bounded_ok,
            "obligations_failing_as_recorded_known_findings": under_exclusion,
            "obligations_generated_total": len(obligations),
            "checker_cmd": f"./check {prop} --tier {tier}",
            "trusted_base": list(getattr(pack, "TRUSTED", [])) + [
                "pyvc engine (AST->VC generator, builtin models)", "z3 5.1.0 (python API)", "cvc5 1.0.3 (CLI, unknowns only)",
                "CPython ast module"],
            "samples": samples,
            "functions_under_contract": fn_infos,
            "assumed_contracts": sorted(({c.target for c in assumed} | assumed_used | set(getattr(pack, "ASSUMED_MODELS", []))) - verified_assumed - set(implied_views) - set(views)),
            **({"call_site_contracts_verified_in_this_run": sorted(verified_assumed)} if verified_assumed else {}),
            **({"call_site_views_of_verified_contracts": {**implied_views, **views}} if (implied_views or views) else {}),
            **({"call_site_views_with_open_obligations": views_open} if views_open else {}),
            "bounded_functions_run_in_thorough_tier_only": skipped_bounded,
            "by_backend_vcs": by_backend,
            "second_solver_cross_check": cross,
            "solver_seconds": solver_seconds,
            "exc_any_sites": exc_any_total,
            "undecided": undecided,
            "engine_errors": engine_errors,
            "missing_vs_lock": really_missing,
            "known_findings": [r for r in kf_results],
            "bounded": list(getattr(pack, "BOUNDED", [])) + [{"id": o["id"], "status": o["status"], "bound": o.get("bound", ""), "instances": o["vcs"]}
                                                              for o in obligations if is_bounded(o)],
            "obligation_list": [{"id": o["id"], "status": o["status"], "vcs": o["vcs"]} for o in obligations],
            "dropped_by_extraction": ["docstrings", "type annotations (sort hints only)", "logger.* statements (PY-LOG)",
                                      "del statements"],
            "violations": vio_records,
        },
        "assumptions": list(getattr(pack, "ASSUMPTIONS", [])),
        "wall_s": round(wall, 3),
        "violations": len(new_violations),
    }
    ev_path = f"evidence/{prop}.json" if not os.environ.get("PYVC_NO_EVIDENCE") else f"out/evidence_scratch_{prop}_{os.getpid()}.json"
    if tier == "thorough" and exit_code == 0 and not os.environ.get("PYVC_NO_EVIDENCE"):
        # thorough tier: write the evidence first (the canary tool reads the function list from it), then mutation canaries
        with open(ev_path, "w") as fh:
            json.dump(evidence, fh, indent=1)
        try:
            n = os.environ.get("PYVC_CANARIES", "12")
            subprocess.run([sys.executable, os.path.join(ROOT, "tools", "canaries.py"), prop, n], cwd=ROOT, timeout=6 * 3600,
                           capture_output=True, text=True)
            evidence["coverage"]["canaries"] = json.load(open(f"out/canaries_{prop}.json"))
        except Exception as e:  # noqa
            evidence["coverage"]["canaries"] = {"error": str(e)[:200]}
    with open(ev_path, "w") as fh:
        json.dump(evidence, fh, indent=1)
    if os.environ.get("PYVC_NO_EVIDENCE"):
        try:
            os.unlink(ev_path)
        except OSError:
            pass

    for l in known_lines:
        print(l)
    for l in out_lines:
        print(l)
    for u in undecided:
        print(f"UNDECIDED property={prop} obligation={u['obligation']} ({u['why'][:200]})")
    for e in engine_errors:
        print(f"ENGINE-ERROR property={prop} {e}")
    for m in really_missing:
        print(f"MISSING-OBLIGATION property={prop} {m} (locked but not generated: vacuity guard)")
    print(f"{prop}: obligations={len(obligations)} discharged={discharged} bounded-ok={bounded_ok} under-exclusion={under_exclusion} "
          f"refuted-new={len(new_violations)} undecided={len(undecided)} functions={len(fn_infos)} "
          f"solver={solver_seconds}s wall={wall:.1f}s exit={exit_code}")
    return exit_code


def source_hashes(repo):
    """{file basename: sha1 of the AST dumps of the package files with that basename} -- used to tell harness vacuity from code drift."""
    import ast as _ast
    import hashlib
    acc = {}
    for rel in sorted(loader.all_package_files(repo)):
        try:
            src = open(os.path.join(repo or loader.REPO, rel), encoding="utf-8").read()
            d = _ast.dump(_ast.parse(src))
        except Exception as e:  # noqa
            d = f"unparsable: {e}"
        acc.setdefault(os.path.basename(rel), hashlib.sha1()).update(d.encode())
    return {k: v.hexdigest() for k, v in acc.items()}


def do_replay(prop, o, repo):
    """Ask the pack's native replayer (real code under /venv) for a failing input."""
    import re as _re
    safe = _re.sub(r"[^A-Za-z0-9_.-]", "_", o["id"])[:180]
    path = f"out/replays/{safe}.json"
    req = {"property": prop, "obligation": o["id"], "witness": o.get("witness"), "reason": o.get("reason"),
           "function": o.get("function"), "repo": repo, "extra": o.get("replay_hint")}
    rec = {"property": prop, "obligation": o["id"], "kind": "no-failing-input-found", "target": o.get("function"),
           "solver": {"status": o["status"], "reason": o.get("reason"), "witness_model": o.get("witness"),
                      "seconds": o.get("seconds")}}
    try:
        p = subprocess.run([VENV_PY, os.path.join(ROOT, "replay", "run.py")], input=json.dumps(req),
                           capture_output=True, text=True, timeout=600, cwd=ROOT,
                           env=dict(os.environ, VERIF_REPO=repo))
        lines = [l for l in p.stdout.splitlines() if l.startswith("{")]
        res = json.loads(lines[-1]) if lines else {"reproduced": False, "note": (p.stderr or p.stdout)[-2000:]}
    except Exception as e:  # noqa
        res = {"reproduced": False, "note": f"replay harness failed: {e}"}
    rec.update(res)
    if res.get("reproduced"):
        rec["kind"] = "replayed"
    with open(path, "w") as fh:
        json.dump(rec, fh, indent=1)
    return {"path": path, "reproduced": res.get("reproduced")}


def replay_file(prop, path):
    rec = json.load(open(path))
    req = {"property": prop, "obligation": rec["obligation"], "stored": rec, "repo": loader.REPO, "rerun": True}
    p = subprocess.run([VENV_PY, os.path.join(ROOT, "replay", "run.py")], input=json.dumps(req),
                       capture_output=True, text=True, cwd=ROOT, env=dict(os.environ, VERIF_REPO=loader.REPO))
    print(p.stdout)
    lines = [l for l in p.stdout.splitlines() if l.startswith("{")]
    res = json.loads(lines[-1]) if lines else {}
    if res.get("reproduced"):
        print(f"VIOLATION property={prop} replay={path}")
        return 1
    return 0


if __name__ == "__main__":
    sys.exit(main())
