"""Pure (non-forking) operations on symbolic values.

Everything here is total on the kinds it accepts and raises `Unsupported`
otherwise; operations that can raise a Python exception (division, indexing)
are handled by the executor, which forks an exceptional path first and calls
these functions only on the non-raising side.
"""
from __future__ import annotations

import z3

from .values import (NONE, V, VBool, VBytes, VDictC, VExt, VInt, VNoneT, VReal,
                     VRef, VSeq, VSetC, VStr, VTuple, VType, VUnk, VFunc, VExc, VMod)


class Unsupported(Exception):
    """Construct outside the subset / model (-> OUT-OF-SUBSET, undecided)."""


def lift(x) -> V:
    if isinstance(x, V):
        return x
    if x is None:
        return NONE
    if isinstance(x, bool):
        return VBool(x)
    if isinstance(x, int):
        return VInt(x)
    if isinstance(x, float):
        return VReal(x)
    if isinstance(x, str):
        return VStr(x)
    if isinstance(x, bytes):
        return VBytes([VInt(z3.BitVecVal(b, 8)) for b in x])
    if isinstance(x, tuple):
        return VTuple([lift(i) for i in x])
    if isinstance(x, (set, frozenset)):
        return VSetC(x)
    if isinstance(x, dict):
        return VDictC({k: lift(v) for k, v in x.items()})
    if isinstance(x, list):
        return VTuple([lift(i) for i in x])  # immutable view of a literal list
    if z3.is_bool(x):
        return VBool(x)
    if z3.is_int(x) or z3.is_bv(x):
        return VInt(x)
    if z3.is_real(x):
        return VReal(x)
    if z3.is_string(x):
        return VStr(x)
    raise Unsupported(f"cannot lift {type(x).__name__}")


# ---------------------------------------------------------------- integers --

def int_term(v: V):
    """IntSort term denoting v (VInt or VBool)."""
    if isinstance(v, VBool):
        return z3.If(v.t, z3.IntVal(1), z3.IntVal(0))
    if not isinstance(v, VInt):
        raise Unsupported(f"int expected, got {v!r}")
    if z3.is_bv(v.t):
        if z3.is_bv_value(v.t):
            return z3.IntVal(v.t.as_long())
        return z3.BV2Int(v.t, False)
    return v.t


def _bv_pair(a, b):
    wa, wb = a.size(), b.size()
    if wa < wb:
        a = z3.ZeroExt(wb - wa, a)
    elif wb < wa:
        b = z3.ZeroExt(wa - wb, b)
    return a, b


def _as_bv(v: VInt, width_hint=None):
    """BitVec term for a VInt that is BV or a non-negative literal, else None."""
    if z3.is_bv(v.t):
        return v.t
    c = v.const()
    if c is not None and c >= 0:
        w = max(c.bit_length(), 1)
        if width_hint:
            w = max(w, width_hint) if c.bit_length() <= width_hint else w
        return z3.BitVecVal(c, w)
    return None


def _shrink(t):
    return t


def int_binop(op: str, a: VInt, b: VInt) -> V:
    ca, cb = a.const(), b.const()
    if ca is not None and cb is not None and op not in ("Div",):
        try:
            r = {
                "Add": lambda: ca + cb, "Sub": lambda: ca - cb, "Mult": lambda: ca * cb,
                "FloorDiv": lambda: ca // cb, "Mod": lambda: ca % cb,
                "BitAnd": lambda: ca & cb, "BitOr": lambda: ca | cb, "BitXor": lambda: ca ^ cb,
                "LShift": lambda: ca << cb, "RShift": lambda: ca >> cb, "Pow": lambda: ca ** cb,
            }[op]()
            if isinstance(r, int):
                # keep BV-ness if either side was BV and the result is non-negative
                if (a.is_bv or b.is_bv) and r >= 0:
                    w = max(r.bit_length(), a.t.size() if a.is_bv else 1, b.t.size() if b.is_bv else 1)
                    return VInt(z3.BitVecVal(r, w))
                return VInt(r)
        except (ZeroDivisionError, KeyError, ValueError):
            pass
    if op in ("BitAnd", "BitOr", "BitXor"):
        # x & mask with an Int-sorted x: exact via Int2BV (two's complement)
        if op == "BitAnd":
            for x, m in ((a, b), (b, a)):
                mc = m.const()
                if mc is not None and mc >= 0:
                    w = max(mc.bit_length(), 1)
                    if z3.is_bv(x.t):
                        xt = x.t
                        xt = z3.Extract(w - 1, 0, xt) if xt.size() > w else z3.ZeroExt(w - xt.size(), xt) if xt.size() < w else xt
                    else:
                        xt = z3.Int2BV(x.t, w)
                    if mc == (1 << w) - 1:
                        return VInt(xt)
                    return VInt(xt & z3.BitVecVal(mc, w))
        ta, tb = _as_bv(a), _as_bv(b)
        if ta is None or tb is None:
            raise Unsupported(f"bitwise {op} on unbounded ints")
        ta, tb = _bv_pair(ta, tb)
        return VInt({"BitAnd": ta & tb, "BitOr": ta | tb, "BitXor": ta ^ tb}[op])
    if op == "LShift":
        k = b.const()
        ta = _as_bv(a)
        if k is None or ta is None:
            if k is not None:
                return VInt(int_term(a) * z3.IntVal(1 << k))
            raise Unsupported("<< by symbolic amount")
        if k == 0:
            return VInt(ta)
        return VInt(z3.ZeroExt(k, ta) << k)
    if op == "RShift":
        k = b.const()
        ta = _as_bv(a)
        if k is not None and ta is None:
            return VInt(int_term(a) / z3.IntVal(1 << k))     # floor division (Euclidean with positive divisor)
        if k is None or ta is None:
            raise Unsupported(">> on unbounded int or by symbolic amount")
        if k >= ta.size():
            return VInt(z3.BitVecVal(0, 1))
        return VInt(z3.Extract(ta.size() - 1, k, ta))
    if a.is_bv and b.is_bv or (a.is_bv and cb is not None and cb >= 0) or (b.is_bv and ca is not None and ca >= 0):
        ta, tb = _as_bv(a), _as_bv(b)
        if op == "Add":
            ta, tb = _bv_pair(ta, tb)
            return VInt(z3.ZeroExt(1, ta) + z3.ZeroExt(1, tb))
        if op == "Mult":
            w = ta.size() + tb.size()
            return VInt(z3.ZeroExt(w - ta.size(), ta) * z3.ZeroExt(w - tb.size(), tb))
        if op == "Mod" and cb is not None and cb > 0:
            ta, tb = _bv_pair(ta, tb)
            return VInt(z3.URem(ta, tb))
        if op == "FloorDiv" and cb is not None and cb > 0:
            ta, tb = _bv_pair(ta, tb)
            return VInt(z3.UDiv(ta, tb))
    x, y = int_term(a), int_term(b)
    if op == "Add":
        return VInt(x + y)
    if op == "Sub":
        return VInt(x - y)
    if op == "Mult":
        return VInt(x * y)
    if op == "FloorDiv":
        # python floor division; z3 Int div is Euclidean: agree when divisor > 0
        return VInt(z3.If(y > 0, x / y, -((-x) / (-y))) if cb is None else (x / y if cb > 0 else -((-x) / (-y))))
    if op == "Mod":
        if cb is not None and cb > 0:
            return VInt(x % y)
        return VInt(z3.If(y > 0, x % y, -((-x) % (-y))))
    if op == "Div":
        return VReal(z3.ToReal(x) / z3.ToReal(y))
    if op == "Pow":
        if cb is not None and cb >= 0:
            r = z3.IntVal(1)
            for _ in range(cb):
                r = r * x
            return VInt(r)
    raise Unsupported(f"int op {op}")


def real_term(v: V):
    if isinstance(v, VReal):
        return v.t
    if isinstance(v, (VInt, VBool)):
        return z3.ToReal(int_term(v))
    raise Unsupported(f"number expected, got {v!r}")


def pure_binop(op: str, a: V, b: V) -> V:
    if isinstance(a, VBool) and isinstance(b, VBool) and op in ("BitAnd", "BitOr", "BitXor"):
        return VBool({"BitAnd": z3.And, "BitOr": z3.Or, "BitXor": z3.Xor}[op](a.t, b.t))
    if isinstance(a, VBool):
        a = VInt(int_term(a))
    if isinstance(b, VBool):
        b = VInt(int_term(b))
    if isinstance(a, VInt) and isinstance(b, VInt):
        return int_binop(op, a, b)
    if isinstance(a, (VInt, VReal)) and isinstance(b, (VInt, VReal)):
        x, y = real_term(a), real_term(b)
        if op == "Add":
            return VReal(x + y)
        if op == "Sub":
            return VReal(x - y)
        if op == "Mult":
            return VReal(x * y)
        if op == "Div":
            return VReal(x / y)
        raise Unsupported(f"real op {op}")
    if isinstance(a, VStr) and isinstance(b, VStr) and op == "Add":
        return VStr(z3.Concat(a.t, b.t))
    if isinstance(a, VStr) and isinstance(b, VInt) and op == "Mult":
        n = b.const()
        if n is not None:
            if n <= 0:
                return VStr("")
            r = a.t
            for _ in range(n - 1):
                r = z3.Concat(r, a.t)
            return VStr(r)
    if isinstance(a, VTuple) and isinstance(b, VTuple) and op == "Add":
        return VTuple(a.items + b.items)
    if isinstance(a, VBytes) and isinstance(b, VBytes) and op == "Add":
        return VBytes(a.items + b.items)
    if isinstance(a, VBytes) and isinstance(b, VInt) and op == "Mult":
        n = b.const()
        if n is not None:
            return VBytes(a.items * max(n, 0))
    if isinstance(a, VSetC) and isinstance(b, VSetC) and op == "BitOr":
        return VSetC(set(a.items) | set(b.items))
    raise Unsupported(f"binop {op} on {a.kind},{b.kind}")


# -------------------------------------------------------------- comparison --

def eq_term(a: V, b: V):
    """z3 Bool for Python `a == b` (structural, total)."""
    if isinstance(a, VNoneT) or isinstance(b, VNoneT):
        return z3.BoolVal(isinstance(a, VNoneT) and isinstance(b, VNoneT))
    if isinstance(a, VBool) and isinstance(b, VBool):
        return a.t == b.t
    if isinstance(a, (VInt, VBool)) and isinstance(b, (VInt, VBool)):
        if isinstance(a, VInt) and isinstance(b, VInt) and (a.is_bv or b.is_bv):
            ta, tb = _as_bv(a), _as_bv(b)
            if ta is not None and tb is not None:
                ta, tb = _bv_pair(ta, tb)
                return ta == tb
            ca, cb = a.const(), b.const()
            if (ca is not None and ca < 0) or (cb is not None and cb < 0):
                return z3.BoolVal(False)
        return int_term(a) == int_term(b)
    if isinstance(a, (VInt, VReal, VBool)) and isinstance(b, (VInt, VReal, VBool)):
        return real_term(a) == real_term(b)
    if isinstance(a, VStr) and isinstance(b, VStr):
        return a.t == b.t
    if isinstance(a, VTuple) and isinstance(b, VTuple):
        if len(a.items) != len(b.items):
            return z3.BoolVal(False)
        return z3.And([eq_term(x, y) for x, y in zip(a.items, b.items)] + [z3.BoolVal(True)])
    if isinstance(a, VBytes) and isinstance(b, VBytes):
        if len(a.items) != len(b.items):
            return z3.BoolVal(False)
        return z3.And([eq_term(x, y) for x, y in zip(a.items, b.items)] + [z3.BoolVal(True)])
    if isinstance(a, VExt) and isinstance(b, VExt):
        if a.sort != b.sort:
            return z3.BoolVal(False)
        return a.t == b.t
    if isinstance(a, VRef) and isinstance(b, VRef):
        if a.ref == b.ref:
            return z3.BoolVal(True)
        raise Unsupported("== on distinct heap objects (needs structural heap compare)")
    if isinstance(a, VType) and isinstance(b, VType):
        return z3.BoolVal(a.name == b.name)
    if isinstance(a, VSetC) and isinstance(b, VSetC):
        return z3.BoolVal(set(a.items) == set(b.items))
    simple = (VInt, VReal, VBool, VStr, VTuple, VBytes, VNoneT)
    if isinstance(a, simple) and isinstance(b, simple):
        return z3.BoolVal(False)  # different builtin kinds never compare equal
    raise Unsupported(f"== on {a.kind},{b.kind}")


def pure_compare(op: str, a: V, b: V) -> VBool:
    if op == "Eq":
        return VBool(eq_term(a, b))
    if op == "NotEq":
        return VBool(z3.Not(eq_term(a, b)))
    if op in ("Is", "IsNot"):
        if isinstance(a, VNoneT) or isinstance(b, VNoneT):
            r = isinstance(a, VNoneT) and isinstance(b, VNoneT)
            if isinstance(a, VUnk) or isinstance(b, VUnk):
                raise Unsupported("is None on unknown value")
        elif isinstance(a, VRef) and isinstance(b, VRef):
            r = a.ref == b.ref
        elif isinstance(a, VBool) and isinstance(b, VBool):
            t = a.t == b.t
            return VBool(t if op == "Is" else z3.Not(t))
        else:
            raise Unsupported(f"`is` on {a.kind},{b.kind}")
        return VBool(r if op == "Is" else not r)
    if isinstance(a, (VInt, VBool)) and isinstance(b, (VInt, VBool)):
        if isinstance(a, VInt) and isinstance(b, VInt) and (a.is_bv or b.is_bv):
            ta, tb = _as_bv(a), _as_bv(b)
            if ta is not None and tb is not None:
                ta, tb = _bv_pair(ta, tb)
                return VBool({"Lt": z3.ULT, "LtE": z3.ULE, "Gt": z3.UGT, "GtE": z3.UGE}[op](ta, tb))
        x, y = int_term(a), int_term(b)
    elif isinstance(a, (VInt, VReal, VBool)) and isinstance(b, (VInt, VReal, VBool)):
        x, y = real_term(a), real_term(b)
    elif isinstance(a, VStr) and isinstance(b, VStr):
        if op == "Lt":
            return VBool(a.t < b.t)
        if op == "LtE":
            return VBool(a.t <= b.t)
        if op == "Gt":
            return VBool(b.t < a.t)
        return VBool(b.t <= a.t)
    else:
        raise Unsupported(f"compare {op} on {a.kind},{b.kind}")
    return VBool({"Lt": x < y, "LtE": x <= y, "Gt": x > y, "GtE": x >= y}[op])


# --------------------------------------------------------------- structure --

def same_shape_ite(c, a: V, b: V):
    """`If(c, a, b)` as a value when a and b have mergeable kinds, else None."""
    if a is b:
        return a
    if isinstance(a, VBool) and isinstance(b, VBool):
        return VBool(z3.If(c, a.t, b.t))
    if isinstance(a, VInt) and isinstance(b, VInt):
        if a.is_bv or b.is_bv:
            ta, tb = _as_bv(a), _as_bv(b)
            if ta is not None and tb is not None:
                ta, tb = _bv_pair(ta, tb)
                return VInt(z3.If(c, ta, tb))
        return VInt(z3.If(c, int_term(a), int_term(b)))
    if isinstance(a, (VInt, VReal)) and isinstance(b, (VInt, VReal)):
        return VReal(z3.If(c, real_term(a), real_term(b)))
    if isinstance(a, VStr) and isinstance(b, VStr):
        return VStr(z3.If(c, a.t, b.t))
    if isinstance(a, VNoneT) and isinstance(b, VNoneT):
        return NONE
    if isinstance(a, VTuple) and isinstance(b, VTuple) and len(a.items) == len(b.items):
        items = [same_shape_ite(c, x, y) for x, y in zip(a.items, b.items)]
        if all(i is not None for i in items):
            return VTuple(items)
    if isinstance(a, VBytes) and isinstance(b, VBytes) and len(a.items) == len(b.items):
        items = [same_shape_ite(c, x, y) for x, y in zip(a.items, b.items)]
        if all(i is not None for i in items):
            return VBytes(items)
    if isinstance(a, VExt) and isinstance(b, VExt) and a.sort == b.sort:
        return VExt(a.sort, z3.If(c, a.t, b.t))
    if isinstance(a, VType) and isinstance(b, VType) and a.name == b.name:
        return a
    return None


def bv_table_lookup(table: list, idx):
    """Balanced If-tree selecting table[idx] for a BitVec idx (never Store chains).

    `table` is a python list of z3 terms of one sort, len(table) <= 2**idx.size().
    Out-of-range indices are the caller's obligation.
    """
    w = idx.size()

    def rec(lo, hi, bit):
        if hi - lo == 1 or bit < 0:
            return table[lo] if lo < len(table) else table[-1]
        mid = lo + (1 << bit)
        if mid >= len(table):
            return rec(lo, mid, bit - 1)
        return z3.If(z3.Extract(bit, bit, idx) == 1, rec(mid, hi, bit - 1), rec(lo, mid, bit - 1))

    nbits = max((len(table) - 1).bit_length(), 1)
    if nbits > w:
        nbits = w
    return rec(0, 1 << nbits, nbits - 1)
