"""Verification of one function under contract: VC generation + discharge."""
from __future__ import annotations

import ast
import itertools
import time
import traceback

import z3

from . import loader, ops, solve
from .calls import CallCtx
from .contracts import FnContract, Registry
from .exctypes import Universe
from .ops import Unsupported
from .state import Frame, HeapObj, State
from .symex import Executor, Obligation, Outcome, PathLimit, VC
from .values import (NONE, V, VBool, VBytes, VExc, VExt, VInt, VReal, VRef, VSeq, VStr, VTuple,
                     VUnk, fresh_name)


# ------------------------------------------------------------ param makers --
class Maker:
    """Creates the symbolic value(s) of a parameter.  make() returns a list of
    alternatives [(assumption or None, V)] (e.g. None | value for Optional)."""

    def __init__(self, fn, decode=None, default=None, desc="", coerce=None):
        self.fn, self.decode, self.default, self.desc = fn, decode, default, desc
        self.coerce = coerce     # coerce(V) -> (V', precondition Bool or None): argument adaptation at call sites

    def make(self, ex, st, name):
        r = self.fn(ex, st, name)
        return r if isinstance(r, list) else [(None, r)]


def p_int(lo=None, hi=None, default=None):
    def mk(ex, st, name):
        t = z3.Int(name)
        cs = []
        if lo is not None:
            cs.append(t >= lo)
        if hi is not None:
            cs.append(t <= hi)
        return [(z3.And(cs) if cs else None, VInt(t))]
    return Maker(mk, desc=f"int[{lo},{hi}]", default=(lambda ex, st: VInt(default)) if default is not None else None)


def _coerce_bv(width):
    def co(v):
        if isinstance(v, VBool):
            v = VInt(ops.int_term(v))
        if not isinstance(v, VInt):
            return v, None
        if v.is_bv:
            w = v.t.size()
            if w == width:
                return v, None
            if w < width:
                return VInt(z3.ZeroExt(width - w, v.t)), None
            return VInt(z3.Extract(width - 1, 0, v.t)), z3.Extract(w - 1, width, v.t) == 0
        c = v.const()
        if c is not None:
            return (VInt(z3.BitVecVal(c, width)), z3.BoolVal(0 <= c < (1 << width)))
        return VInt(z3.Int2BV(v.t, width)), z3.And(v.t >= 0, v.t < (1 << width))
    return co


def p_bv(width):
    return Maker(lambda ex, st, name: VInt(z3.BitVec(name, width)), desc=f"int in [0,2^{width})", coerce=_coerce_bv(width))


def p_real():
    return Maker(lambda ex, st, name: VReal(z3.Real(name)), desc="float (as real)")


def p_bool():
    return Maker(lambda ex, st, name: VBool(z3.Bool(name)), desc="bool")


def p_str():
    return Maker(lambda ex, st, name: VStr(z3.String(name)), desc="str")


def p_ext(sort):
    return Maker(lambda ex, st, name: VExt(sort, z3.Const(name, __import__("pyvc.values", fromlist=["ext_sort"]).ext_sort(sort))), desc=sort)


def p_opt(inner: Maker):
    def mk(ex, st, name):
        return [(None, NONE)] + inner.make(ex, st, name)
    return Maker(mk, desc=f"Optional[{inner.desc}]")


def p_const(v):
    return Maker(lambda ex, st, name: ops.lift(v), desc=f"const {v!r}", default=lambda ex, st: ops.lift(v))


def p_bytes(n, name_prefix=None):
    def mk(ex, st, name):
        return VBytes([VInt(z3.BitVec(f"{name}_{i}", 8)) for i in range(n)])
    return Maker(mk, desc=f"bytes[{n}]")


def p_list_bv(n, width=8):
    def mk(ex, st, name):
        items = [VInt(z3.BitVec(f"{name}_{i}", width)) for i in range(n)]
        ref = st.alloc(HeapObj("list", items, fresh=False), ex.refs)
        return VRef(ref)
    return Maker(mk, desc=f"list[int<2^{width}] of length {n}")


def p_obj(cls, fields: dict):
    """Instance of a repo class with symbolic fields: {field: Maker}."""
    def mk(ex, st, name):
        alts = [(None, {})]
        for f, m in fields.items():
            nxt = []
            for (c0, d) in alts:
                for (c1, v) in m.make(ex, st, f"{name}.{f}"):
                    cs = [c for c in (c0, c1) if c is not None]
                    nxt.append((z3.And(cs) if cs else None, dict(d, **{f: v})))
            alts = nxt
        out = []
        for (c, d) in alts:
            ref = st.alloc(HeapObj("obj", d, cls, fresh=False), ex.refs)
            out.append((c, VRef(ref)))
        return out
    return Maker(mk, desc=cls)


def p_unk():
    return Maker(lambda ex, st, name: VUnk(name), desc="any")


# ------------------------------------------------------------------ driver --
class FnReport:
    def __init__(self, target):
        self.target = target
        self.obligations = []     # dicts
        self.error = None
        self.out_of_subset = None
        self.info = {}
        self.paths = 0
        self.gen_seconds = 0.0
        self.assumed_used = []
        self.exc_any_sites = 0
        self.covers = []
        self.abstracted = []

    def to_dict(self):
        return self.__dict__


def run_contract(prop: str, c: FnContract, reg: Registry, uni: Universe, *, repo=None,
                 timeout_ms=None, executor_cls=Executor, executor_kw=None, post_hooks=()):
    """Generate and discharge all obligations of one function under contract."""
    rel, qual = c.target.split("::")
    rep = FnReport(c.target)
    t0 = time.time()
    try:
        mod = loader.module(rel, repo)
        fnode = mod.functions.get(qual)
        if fnode is None:
            rep.error = "contract-target-missing"
            return rep
        rep.info = mod.fn_info(qual)
        short = rel.split("/")[-1]
        ex = executor_cls(mod, reg, uni, **(executor_kw or {}))
        ex.contract = c
        # `oid_name` (optional contract attribute): stable name for the obligation ids of a function that the pack locates by its
        # role rather than by its name (e.g. a nested helper that may be renamed); default: the qualname
        ex.oid_prefix = f"{prop}/{short}::{getattr(c, 'oid_name', None) or qual}"
        obls, covers = generate(ex, c, mod, fnode)
        rep.paths = ex.paths
        rep.assumed_used = sorted(ex.assumed_used)
        rep.exc_any_sites = len(ex.exc_any_sites)
        rep.abstracted = sorted(set(ex.abstracted))[:40]
        for h in post_hooks:
            h(ex, c, obls)
    except Unsupported as e:
        rep.out_of_subset = str(e)
        return rep
    except PathLimit as e:
        rep.out_of_subset = f"path limit: {e}"
        return rep
    except Exception as e:  # engine error
        rep.error = "engine: " + "".join(traceback.format_exception_only(type(e), e)).strip() + " @ " + traceback.format_exc().splitlines()[-3].strip()
        return rep
    rep.gen_seconds = time.time() - t0
    rep.covers = covers
    for ob in obls.values():
        d = discharge(ob, timeout_ms, getattr(ex, "witness_terms", {}))
        if getattr(c, "bounded", ""):
            d["id"] += ".BOUNDED"
            d["kind"] = "bounded"
            d["bound"] = c.bounded
        rep.obligations.append(d)
    return rep


def discharge(ob: Obligation, timeout_ms=None, witness_terms=None):
    status = "proved"
    secs = 0.0
    backends = {}
    cross = {}
    witness = None
    reason = ""
    nvc = len(ob.vcs)
    for vc in ob.vcs:
        if vc.note.startswith("UNKNOWN-SHAPE"):
            if status == "proved":
                status, reason = "unknown", vc.note
            continue
        r = solve.check_vc(vc.pc, vc.goal, timeout_ms)
        if r.status == "unknown":
            r = _split_conjuncts(vc, timeout_ms, r)
        secs += r.seconds
        backends[r.backend] = backends.get(r.backend, 0) + 1
        if r.status == "proved" and (r.reason or "").startswith("cross:"):
            cross[r.reason[6:]] = cross.get(r.reason[6:], 0) + 1
        if r.status == "refuted":
            tags = [str(x) for x in vc.pc if z3.is_const(x) and x.decl().kind() == z3.Z3_OP_UNINTERPRETED and str(x).startswith("__havoc__@")]
            if tags:
                # the counterexample assigns a value to the result of a call the engine has no model for: not a refutation
                if status == "proved":
                    status = "unknown"
                    reason = "fails only if an unmodelled call returns / raises arbitrarily: " + tags[0][len("__havoc__@"):]
                continue
            status = "refuted"
            if r.model is not None and witness_terms:
                witness = {k: _decode(r.model, t) for k, t in witness_terms.items()}
            reason = vc.note or r.reason
            break
        if r.status == "unknown" and status == "proved":
            status = "unknown"
            reason = r.reason
    return {"id": ob.oid, "kind": ob.kind, "status": status, "vcs": nvc, "seconds": round(secs, 4),
            "backends": backends, "witness": witness, "reason": reason, "loc": ob.loc, "cross": cross}


def _split_conjuncts(vc, timeout_ms, first):
    """A conjunctive goal the solver leaves unknown is retried conjunct by conjunct (valid iff every conjunct is valid)."""
    def flat(e):
        if z3.is_and(e):
            out = []
            for ch in e.children():
                out.extend(flat(ch))
            return out
        return [e]
    parts = flat(vc.goal) if z3.is_expr(vc.goal) else []
    if len(parts) < 2:
        return first
    total = first.seconds
    worst = None
    for g in parts:
        r = solve.check_vc(vc.pc, g, timeout_ms)
        total += r.seconds
        if r.status == "refuted":
            r.seconds = total
            return r
        if r.status == "unknown":
            worst = r
    res = worst if worst is not None else solve.VCResult("proved", "z3", total)
    res.seconds = total
    return res


def _decode(model, t):
    if isinstance(t, (list, tuple)):
        return [_decode(model, x) for x in t]
    if isinstance(t, dict):
        return {k: _decode(model, v) for k, v in t.items()}
    if isinstance(t, (int, str, bool, type(None))):
        return t
    if callable(t):
        return t(model)
    return solve.model_value(model, t)


def generate(ex: Executor, c: FnContract, mod, fnode):
    """Symbolically execute the real body under the contract; returns
    (obligations dict, cover results)."""
    base = State()
    alts = [(base, {})]
    # bind parameters: cartesian product over alternatives
    for (name, maker) in c.params:
        nxt = []
        for (st, amap) in alts:
            for (cond, v) in maker.make(ex, st, name):
                s2 = st.fork() if True else st
                if cond is not None:
                    s2.assume(cond)
                nxt.append((s2, dict(amap, **{name: v})))
        alts = nxt
    # closure variables of a nested function under contract live in an enclosing frame
    cl_names = [n for (n, _m) in c.closure]
    for (name, maker) in c.closure:
        nxt = []
        for (st, amap) in alts:
            for (cond, v) in maker.make(ex, st, name):
                s2 = st.fork()
                if cond is not None:
                    s2.assume(cond)
                nxt.append((s2, dict(amap, **{name: v})))
        alts = nxt
    covers = []
    first = True
    n_raise_total = 0
    for (st, amap) in alts:
        if c.closure:
            from .values import VFunc
            outer = Frame({n: amap[n] for n in cl_names}, None, None)
            outer.env[fnode.name] = VFunc("closure", fnode, 0)      # the function sees itself (recursion)
            fr = Frame({k: v for k, v in amap.items() if k not in cl_names}, 0, fnode)
            st.frames = [outer, fr]
        else:
            fr = Frame(dict(amap), None, fnode)
            st.frames = [fr]
        entry = st.fork()
        ctx0 = CallCtx(ex, amap, entry, st)
        if c.closure:
            ctx0.cl_frame = 0
        ex.entry_ctx = ctx0
        if c.requires is not None:
            st.assume(ex._b(c.requires(ctx0)))
        if c.hyps is not None:
            st.assume(ex._b(c.hyps(ctx0)))
        if not ex.feasible(st.pc):
            continue
        ex.witness_terms = getattr(ex, "witness_terms", {})
        for pname, pv in amap.items():
            if isinstance(pv, (VInt, VStr, VBool, VReal)):
                ex.witness_terms.setdefault(pname, pv.t)
            elif isinstance(pv, VBytes):
                ex.witness_terms.setdefault(pname, [x.t for x in pv.items])
            elif isinstance(pv, VRef) and st.obj(pv.ref).kind in ("list", "bytearray") and st.obj(pv.ref).data is not None:
                ex.witness_terms.setdefault(pname, [x.t for x in st.obj(pv.ref).data if hasattr(x, "t")])
            elif isinstance(pv, VRef) and st.obj(pv.ref).kind == "obj":
                ex.witness_terms.setdefault(pname, {f: v.t for f, v in st.obj(pv.ref).data.items() if hasattr(v, "t")})
        ex.cur_fn_stack.append(fnode)
        ex.sinks.append([])
        try:
            outs = ex.exec_block(fnode.body, st)
        finally:
            sink = ex.sinks.pop()
            ex.cur_fn_stack.pop()
        for (es, exc) in sink:
            outs.append(Outcome("raise", es, exc))
        n_ret = n_raise = 0
        for o in outs:
            if o.kind in ("fall", "return"):
                n_ret += 1
                val = o.val if o.kind == "return" else NONE
                if c.generator:
                    val = VTuple(o.st.yielded)
                cx = CallCtx(ex, amap, entry, o.st, result=val)
                if c.closure:
                    cx.cl_frame = 0
                if c.returns is not None:
                    exp = c.returns(cx)
                    if isinstance(exp, list) and exp and isinstance(exp[0], tuple):
                        goal = z3.And([z3.Implies(cond, _eq(ex, o.st, val, ev)) for cond, ev in exp] +
                                      [z3.Or([cond for cond, _ in exp])])
                    else:
                        goal = _eq(ex, o.st, val, ops.lift(exp) if not isinstance(exp, V) else exp)
                    ex.add_vc("returns", "", o.st.pc, goal, loc=ex.loc(fnode))
                for (label, e) in c.ensures:
                    cx.note = ""
                    try:
                        g_ = ex._b(e(cx))
                    except Unsupported as ue:
                        # the postcondition cannot even be stated over this outcome (e.g. result of an unmodelled
                        # operation): UNDECIDED for this obligation, never a violation by itself
                        ex.add_vc("ensures", label, o.st.pc, z3.BoolVal(False), note=f"UNKNOWN-SHAPE: {ue}", loc=ex.loc(fnode))
                        continue
                    ex.add_vc("ensures", label, o.st.pc, g_, note=cx.note, loc=ex.loc(fnode))
                for p, fn in c.final.items():
                    want = list(fn(cx))
                    got = o.st.obj(amap[p].ref).data
                    if got is None or len(got) != len(want):
                        goal = z3.BoolVal(False)
                    else:
                        goal = z3.And([ops.eq_term(a, b) for a, b in zip(got, want)] + [z3.BoolVal(True)])
                    ex.add_vc("final", p, o.st.pc, goal, loc=ex.loc(fnode))
                # frame: parameters not in `modifies` keep their referent unchanged
                for p, v in amap.items():
                    if isinstance(v, VRef) and p not in c.modifies and p not in c.final:
                        same = o.st.heap.get(v.ref) is entry.heap.get(v.ref) or _same_obj(o.st.heap.get(v.ref), entry.heap.get(v.ref))
                        if not same:
                            ex.add_vc("modifies", p, o.st.pc, z3.BoolVal(False),
                                      note=f"parameter {p} mutated but not in modifies", loc=ex.loc(fnode))
                        else:
                            ex.add_vc("modifies", p, o.st.pc, z3.BoolVal(True), loc=ex.loc(fnode))
            elif o.kind == "raise":
                n_raise += 1
                exc = o.val
                cx = CallCtx(ex, amap, entry, o.st, exc=exc)
                if c.closure:
                    cx.cl_frame = 0
                alts_ok = []
                for r in c.raises:
                    tm = ex.uni.subclass_term(exc.tidx, r.cls) if r.sub else (exc.tidx == ex.uni.index[r.cls])
                    w = ex._b(r.when(cx)) if r.when is not None else z3.BoolVal(True)
                    alts_ok.append(z3.And(tm, w))
                goal = z3.Or(alts_ok) if alts_ok else z3.BoolVal(False)
                ex.add_vc("raises", "", o.st.pc, goal,
                          note=f"exception escaping: site={exc.attrs.get('site', '')}", loc=ex.loc(fnode))
                for (label, e) in c.exc_ensures:
                    cx.note = ""
                    ex.add_vc("exc-ensures", label, o.st.pc, ex._b(e(cx)), note=cx.note or f"exceptional outcome: site={exc.attrs.get('site', '')}",
                              loc=ex.loc(fnode))
            else:
                raise Unsupported(f"{o.kind} escaping function body")
        if n_raise == 0:
            ex.add_vc("raises", "", [], z3.BoolVal(True), note="no escaping exceptional path", loc=ex.loc(fnode))
            for (label, _e) in c.exc_ensures:
                ex.add_vc("exc-ensures", label, [], z3.BoolVal(True), note="no escaping exceptional path", loc=ex.loc(fnode))
        covers.append({"paths_return": n_ret, "paths_raise": n_raise})
        n_raise_total += n_raise
        first = False
    if c.total and n_raise_total == 0:
        # totality claimed and no exceptional path exists: record the (trivially discharged) obligation
        ex.add_vc("raises", "", [], z3.BoolVal(True), loc=ex.loc(fnode))
    if c.returns is not None and "returns" not in "".join(ex.obls):
        pass
    return ex.obls, covers


def _same_obj(a, b):
    if a is None or b is None:
        return a is b
    if a.kind != b.kind:
        return False
    if isinstance(a.data, list) and isinstance(b.data, list):
        return len(a.data) == len(b.data) and all(x is y for x, y in zip(a.data, b.data))
    if isinstance(a.data, dict) and isinstance(b.data, dict):
        return a.data.keys() == b.data.keys() and all(a.data[k] is b.data[k] for k in a.data)
    return False


def _eq(ex, st, a: V, b: V):
    hook = getattr(ex, "eq_values", None) or getattr(ex, "eq_hook", None)   # pack-local executors with their own value kinds
    if hook is not None:
        r = hook(st, a, b)
        if r is not None:
            return r
    if isinstance(a, VRef) or isinstance(b, VRef):
        ia, ib = ex.concrete_items(st, a), ex.concrete_items(st, b)
        if ia is None or ib is None or len(ia) != len(ib):
            return z3.BoolVal(False)
        return z3.And([_eq(ex, st, x, y) for x, y in zip(ia, ib)] + [z3.BoolVal(True)])
    if isinstance(a, VUnk) or isinstance(b, VUnk):
        return z3.BoolVal(False)
    if isinstance(a, VSeq) and isinstance(b, VSeq):
        # goal position only: the free index constant makes the VC range over every index
        j = z3.Int(fresh_name("j!eq"))
        return z3.And(a.length == b.length, z3.Implies(z3.And(j >= 0, j < a.length), _eq(ex, st, a.elem(j), b.elem(j))))
    try:
        return ops.eq_term(a, b)
    except Unsupported:
        return z3.BoolVal(False)
