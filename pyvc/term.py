"""Termination (`decreases`) obligations for `while` loops of the real source.

Every `while` loop of the scanned files gets one obligation
`<prop>/<file>::<function>/decreases#while-<k>` (k = ordinal among the
function's while loops, in source order), so a loop added later is picked up
automatically.  A loop is discharged by one of these rules, each of which is
a classical variant argument checked on the real AST:

* **index**: the guard bounds an integer variable (`v < B`, `v + c <= B`,
  `v <= B - c`, `v >= c`, `while v`): the body is executed symbolically from
  an arbitrary state satisfying the guard (integers precise, everything else
  unknown, EXC-ANY for calls); on every path back to the loop head the
  variable has strictly moved towards the bound and the bound's operands are
  not assigned in the body.  VCs go to z3.
* **pop**: guard `S and ...` over a list S that the body pops on every path
  back to the head and never grows: variant len(S).  (dataflow)
* **consume**: `while True` record loops over a byte stream: every path back
  to the head has called a consuming reader (which advances the position or
  raises at end of data -- assumed contract of the reader): variant = bytes
  remaining.  (dataflow)
* **shrink**: guard `len(L) > e`, every path back to the head has removed an
  element of L and none adds one.  (dataflow)

Inner loops met while executing a body are cut with the automatic invariant
"a variable only ever incremented (decremented) by positive constants inside
the loop is >= (<=) its value at loop entry".
Regex matches: `P.match/search(...)` of a module-level compiled literal
pattern returns None or a match whose `group(0)` has at least the pattern's
minimal width (computed with sre_parse) -- PY-RE.
"""
from __future__ import annotations

import ast
import re

import z3

from . import loader, ops
from .contracts import Registry
from .exctypes import Universe
from .flow import MustFacts, dotted, ground_obligation
from .ops import Unsupported
from .state import Frame, HeapObj, State
from .symex import Executor, PathLimit
from .values import NONE, VBool, VExt, VInt, VStr, VTuple, VUnk, fresh_name
from . import solve

try:
    import sre_parse
except ImportError:  # pragma: no cover
    from re import _parser as sre_parse


def while_loops(mod):
    """[(qualname, fnode, ordinal, loop)] for every while loop, attributed to its innermost function."""
    out = []
    for q, fnode in mod.functions.items():
        loops = []
        for n in _own(fnode):
            if isinstance(n, ast.While):
                loops.append(n)
        loops.sort(key=lambda n: (n.lineno, n.col_offset))
        for k, l in enumerate(loops):
            out.append((q, fnode, k, l))
    return out


def _own(fnode):
    stack = list(ast.iter_child_nodes(fnode))
    while stack:
        n = stack.pop()
        yield n
        if isinstance(n, (ast.FunctionDef, ast.AsyncFunctionDef, ast.Lambda, ast.ClassDef)):
            continue
        stack.extend(ast.iter_child_nodes(n))


def assigned(stmts):
    names = set()
    for s in stmts:
        for n in ast.walk(s):
            if isinstance(n, ast.Name) and isinstance(n.ctx, ast.Store):
                names.add(n.id)
    return names


# ------------------------------------------------------------- index rule --
def guard_candidates(test):
    """[(var, direction, description)] from the conjuncts of the guard."""
    def normal(e):
        """`not (a > b)` -> `a <= b` etc.; `not (A or B)` -> conjuncts not A, not B."""
        if isinstance(e, ast.UnaryOp) and isinstance(e.op, ast.Not):
            x = e.operand
            if isinstance(x, ast.Compare) and len(x.ops) == 1:
                flip = {ast.Gt: ast.LtE, ast.GtE: ast.Lt, ast.Lt: ast.GtE, ast.LtE: ast.Gt}
                if type(x.ops[0]) in flip:
                    return [ast.copy_location(ast.Compare(left=x.left, ops=[flip[type(x.ops[0])]()], comparators=x.comparators), e)]
            if isinstance(x, ast.BoolOp) and isinstance(x.op, ast.Or):
                out_ = []
                for v in x.values:
                    out_ += normal(ast.copy_location(ast.UnaryOp(op=ast.Not(), operand=v), e))
                return out_
            if isinstance(x, ast.UnaryOp) and isinstance(x.op, ast.Not):
                return normal(x.operand)
        if isinstance(e, ast.BoolOp) and isinstance(e.op, ast.And):
            out_ = []
            for v in e.values:
                out_ += normal(v)
            return out_
        return [e]
    conj = normal(test)
    out = []
    for c in conj:
        if isinstance(c, ast.Name):
            out.append((c.id, "dec-to-zero", c, None))
        if isinstance(c, ast.Compare) and len(c.ops) == 1:
            l, op, r = c.left, c.ops[0], c.comparators[0]
            def var_of(e):
                if isinstance(e, ast.Name):
                    return e.id
                if isinstance(e, ast.BinOp) and isinstance(e.op, (ast.Add, ast.Sub)) and isinstance(e.left, ast.Name) and isinstance(e.right, ast.Constant):
                    return e.left.id
                return None
            if isinstance(op, (ast.Lt, ast.LtE)) and var_of(l):
                out.append((var_of(l), "inc", c, r))
            if isinstance(op, (ast.Gt, ast.GtE)) and var_of(r):
                out.append((var_of(r), "inc", c, l))
            if isinstance(op, (ast.Gt, ast.GtE)) and var_of(l) and isinstance(r, ast.Constant):
                out.append((var_of(l), "dec", c, r))
    return out


def int_like_names(fnode, mod=None):
    """Names that hold integers by construction (literals, len(), arithmetic on such, += constants, struct sizes)."""
    ints = set()
    if mod is not None:
        for nm, e in mod.assigns.items():
            if (isinstance(e, ast.Constant) and isinstance(e.value, int) and not isinstance(e.value, bool)) or \
                    (isinstance(e, ast.Call) and dotted(e.func) == "struct.calcsize") or (isinstance(e, ast.Attribute) and e.attr == "size"):
                ints.add(nm)
    for _ in range(4):
        for n in _own(fnode):
            tgt = val = None
            if isinstance(n, ast.Assign) and len(n.targets) == 1 and isinstance(n.targets[0], ast.Name):
                tgt, val = n.targets[0].id, n.value
            elif isinstance(n, ast.AugAssign) and isinstance(n.target, ast.Name):
                if isinstance(n.op, (ast.Add, ast.Sub)) and _is_int_expr(n.value, ints):
                    ints.add(n.target.id)
                continue
            elif isinstance(n, ast.AnnAssign) and isinstance(n.target, ast.Name) and n.value is not None:
                tgt, val = n.target.id, n.value
            if tgt is not None and _is_int_expr(val, ints):
                ints.add(tgt)
    return ints


def _is_int_expr(e, ints):
    if isinstance(e, ast.Constant):
        return isinstance(e.value, int) and not isinstance(e.value, bool)
    if isinstance(e, ast.Name):
        return e.id in ints
    if isinstance(e, ast.Call) and isinstance(e.func, ast.Name) and e.func.id in ("len", "int"):
        return True
    if isinstance(e, ast.BinOp) and isinstance(e.op, (ast.Add, ast.Sub, ast.Mult, ast.FloorDiv)):
        return _is_int_expr(e.left, ints) and _is_int_expr(e.right, ints)
    if isinstance(e, ast.UnaryOp) and isinstance(e.op, ast.USub):
        return _is_int_expr(e.operand, ints)
    return False


def always_exits(block):
    """The statement list always ends in break / return / raise."""
    if not block:
        return False
    last = block[-1]
    if isinstance(last, (ast.Break, ast.Return, ast.Raise)):
        return True
    if isinstance(last, ast.If):
        return always_exits(last.body) and always_exits(last.orelse)
    return False


def in_exiting_block(body, node):
    """`node` occurs in a statement list of the loop body `body` (not inside a deeper loop) whose remainder always leaves the loop."""
    def walk(block):
        for i, s_ in enumerate(block):
            if any(x is node for x in ast.walk(s_)):
                if always_exits(block[i:]):
                    return True
                if isinstance(s_, ast.If):
                    return walk(s_.body) or walk(s_.orelse)
                if isinstance(s_, ast.Try):
                    return walk(s_.body) or any(walk(h.body) for h in s_.handlers) or walk(s_.orelse) or walk(s_.finalbody)
                if isinstance(s_, ast.With):
                    return walk(s_.body)
                return False
        return False
    return walk(body)


class TermExecutor(Executor):
    """Abstract executor with precise integers, monotone inner-loop invariants and regex match widths."""

    def __init__(self, *a, **k):
        super().__init__(*a, abstract=True, inline_calls=False, max_paths=4000, **k)
        self.patterns = {}
        self.len_consts = {}
        self.stable_names = set()
        self.bytes_names = set()
        self.nonlocal_names = set()

    def havoc_loop_state(self, st, body, spec, extra_names=()):
        mono = {}
        names = self.assigned_names(body)
        for name in names:
            cur = st.lookup(name)
            if isinstance(cur, VInt):
                d = _monotone(body, name)
                if d:
                    mono[name] = (d, ops.int_term(cur))
                else:
                    mono[name] = ("?", ops.int_term(cur))
        # names stored only on paths that leave the loop keep their entry value at every later loop head
        keep = {}
        for name in names:
            stores = [n for s_ in body for n in ast.walk(s_) if isinstance(n, ast.Name) and n.id == name and isinstance(n.ctx, ast.Store)]
            if stores and all(in_exiting_block(body, n) for n in stores):
                keep[name] = st.lookup(name)
        super().havoc_loop_state(st, body, spec, extra_names)
        for name, val in keep.items():
            if val is not None:
                st.bind(name, val)
                mono.pop(name, None)
        # names without a syntactic `+= k` shape: infer `v >= v_entry` by proving it inductive on the real body
        # (one symbolic execution of the body from the havocked state; cached per loop)
        unknown = [n for n, (d, _o) in mono.items() if d == "?"]
        if unknown:
            inferred = self._infer_monotone(st, body, unknown)
            for n in unknown:
                if inferred.get(n):
                    mono[n] = (inferred[n], mono[n][1])
                else:
                    del mono[n]
        for name, (d, old) in mono.items():
            new = st.lookup(name)
            if isinstance(new, VInt):
                st.assume(ops.int_term(new) >= old if d == "inc" else ops.int_term(new) <= old)

    def _infer_monotone(self, st, body, names):
        cache = self.__dict__.setdefault("_mono_cache", {})
        key = id(body[0]) if body else 0
        if key in cache:
            return cache[key]
        res = {}
        cache[key] = res                      # nested re-entry sees "nothing inferred"
        if getattr(self, "_inferring", 0) >= 2:
            return res
        self._inferring = getattr(self, "_inferring", 0) + 1
        try:
            trial = st.fork()
            v0 = {n: ops.int_term(trial.lookup(n)) for n in names if isinstance(trial.lookup(n), VInt)}
            ends = []
            for o in self.exec_block(body, trial):
                if o.kind in ("fall", "continue"):
                    ends.append(o.st)
            for n, t0 in v0.items():
                ok_inc = True
                for e in ends:
                    v1 = e.lookup(n)
                    if not isinstance(v1, VInt):
                        ok_inc = False
                        break
                    r = solve.check_vc(e.pc, ops.int_term(v1) >= t0, 3000, want_model=False, use_cvc5=False)
                    if r.status != "proved":
                        ok_inc = False
                        break
                if ok_inc:
                    res[n] = "inc"
        except (Unsupported, PathLimit):
            pass
        finally:
            self._inferring -= 1
        return res

    def s_While(self, s, st):
        """Inner loops: peel the first iteration (precise), then cut the rest with the monotone invariant."""
        from .symex import Outcome
        if getattr(self, "_peeling", 0) > 2:
            return super().s_While(s, st)
        self._peeling = getattr(self, "_peeling", 0) + 1
        try:
            outs = []
            for (s2, g) in self.ev(s.test, st):
                for (s3, b) in self.fork_truth(s2, g):
                    if not b:
                        outs.extend(self.exec_block(s.orelse, s3) if s.orelse else [Outcome("fall", s3)])
                        continue
                    for o in self.exec_block(s.body, s3):
                        if o.kind in ("fall", "continue"):
                            outs.extend(super().s_While(s, o.st))
                        elif o.kind == "break":
                            outs.append(Outcome("fall", o.st))
                        else:
                            outs.append(o)
            return outs
        finally:
            self._peeling -= 1

    def struct_format(self, name):
        e = self.module.assigns.get(name)
        if isinstance(e, ast.Call) and dotted(e.func) == "struct.Struct" and e.args and isinstance(e.args[0], ast.Constant) and isinstance(e.args[0].value, str):
            return e.args[0].value
        return None

    def b_len(self, st, args, kwargs, node):
        v = args[0]
        if isinstance(v, VUnk):
            # len() of a named unknown that the loop does not reassign is one fixed non-negative integer
            key = v.tag if v.tag in self.stable_names else None
            if key is not None:
                n = self.len_consts.setdefault(key, z3.Int(f"len({key})"))
            else:
                n = z3.Int(fresh_name("len"))
            st.assume(n >= 0)
            self.exc_any(st.fork(), f"{self.loc(node)} len(unknown)")
            return [(st, VInt(n))]
        return super().b_len(st, args, kwargs, node)

    def havoc_everything(self, st):
        # An abstracted *expression* cannot rebind a local name of the enclosing function (only a nested function
        # with `nonlocal` could): immutable integer locals keep their value unless a nested def declares them nonlocal.
        for fr in st.frames:
            for k, v in list(fr.env.items()):
                if isinstance(v, VInt):
                    if k in self.nonlocal_names:
                        fr.env[k] = VInt(z3.Int(fresh_name(k)))
                elif not isinstance(v, (VUnk,)) and v.kind not in ("func", "type", "mod"):
                    fr.env[k] = VUnk(k)
        for r in list(st.heap):
            o = st.heap[r]
            st.heap[r] = HeapObj("unk", None, o.cls, o.fresh)

    def binop(self, st, op, a, b, node, inplace=False):
        # integer-typed unknowns: arithmetic of an int with an unknown stays unknown, but bit operations on
        # ints that the exact encoder rejects yield a fresh integer (no information, still an int)
        if isinstance(a, VInt) and isinstance(b, VInt):
            try:
                return super().binop(st, op, a, b, node, inplace)
            except Unsupported:
                r = z3.Int(fresh_name("int"))
                if op in ("BitAnd",):
                    pass
                return [(st, VInt(r))]
        return super().binop(st, op, a, b, node, inplace)

    inline_helpers = False
    owner_class = ""

    def _helper_node(self, f):
        """function node of `self.h(...)` / `cls.h(...)` / `Class.h(...)` (method of the class under analysis) or `h(...)` (module level)"""
        if isinstance(f, ast.Attribute) and isinstance(f.value, ast.Name):
            if f.value.id in ("self", "cls") or f.value.id == self.owner_class.split(".")[-1]:
                q = f"{self.owner_class}.{f.attr}" if self.owner_class else f.attr
                return self.module.functions.get(q), True
            return None, False
        if isinstance(f, ast.Name) and f.id in self.module.functions:
            return self.module.functions[f.id], False
        return None, False

    def e_Call(self, n, st):
        f = n.func
        if self.inline_helpers and not n.keywords:
            h, is_method = self._helper_node(f)
            if h is not None and not any(h is x for x in self.cur_fn_stack) and self.inline_depth < 2 \
                    and sum(1 for _ in ast.walk(h)) <= 400 and not any(isinstance(x, (ast.Yield, ast.YieldFrom)) for x in ast.walk(h)):
                decos = [ast.unparse(d) for d in h.decorator_list]
                # names the helper stores to must not collide with the caller's loop-stable names: `len(<unknown named k>)` is one
                # constant per stable name, and an unknown local of the helper called the same would share it
                if all(d in ("staticmethod", "classmethod") for d in decos) and not (assigned(h.body) & set(self.stable_names)):
                    outs = []
                    for (s2, args) in self.ev_list(n.args, st):
                        self_val = VUnk("self") if (is_method and "staticmethod" not in decos) else None
                        env = self.bind_params(h, args, {}, n, self_val=self_val)
                        outs.extend(self.run_body(s2, h, env, None))
                    return outs
        # P.match/search(...) for a module-level compiled literal pattern
        if isinstance(f, ast.Attribute) and f.attr in ("match", "search", "fullmatch") and isinstance(f.value, ast.Name):
            w = self.pattern_width(f.value.id)
            if w is not None:
                outs = []
                for (s2, _args) in self.ev_list(n.args, st):
                    m = VExt("Match")
                    a = s2.fork()
                    s2.ghost[("match_width", m.t.get_id())] = w
                    outs += [(a, NONE), (s2, m)]
                return outs
        # struct.unpack / unpack_from with a literal format: a tuple of integers in the format's ranges
        d = dotted(f)
        fmt_src = None
        if d in ("struct.unpack", "struct.unpack_from") and n.args and isinstance(n.args[0], ast.Constant) and isinstance(n.args[0].value, str):
            fmt_src, rest_args = n.args[0].value, n.args[1:]
        elif isinstance(f, ast.Attribute) and f.attr in ("unpack", "unpack_from") and isinstance(f.value, ast.Name) and self.struct_format(f.value.id):
            fmt_src, rest_args = self.struct_format(f.value.id), n.args
        if fmt_src is not None:
            fmt = fmt_src.lstrip("<>=!@")
            rng = {"B": (0, 255), "H": (0, 65535), "I": (0, 2**32 - 1), "L": (0, 2**32 - 1), "Q": (0, 2**64 - 1),
                   "b": (-128, 127), "h": (-2**15, 2**15 - 1), "i": (-2**31, 2**31 - 1), "l": (-2**31, 2**31 - 1), "q": (-2**63, 2**63 - 1)}
            # counted items (`2H` = two integers, `4s` / `4p` = ONE bytes object, `x` = pad byte, no item), whitespace ignored
            codes = []
            for cnt, ch in re.findall(r"(\d*)([A-Za-z?])", fmt) if re.fullmatch(r"(?:\s*\d*[A-Za-z?])*\s*", fmt) else [("", "\0")]:
                if ch in ("s", "p"):
                    codes.append(ch)
                elif ch == "x":
                    continue
                else:
                    codes.extend([ch] * (int(cnt) if cnt else 1))
            if codes and len(codes) <= 64 and all(ch in rng or ch in ("s", "p") for ch in codes):
                outs = []
                for (s2, _a) in self.ev_list(rest_args, st):
                    self.exc_any(s2.fork(), f"{self.loc(n)} struct.unpack")
                    items = []
                    for ch in codes:
                        if ch in ("s", "p"):
                            items.append(VUnk(fresh_name("unpacked_bytes")))
                            continue
                        t = z3.Int(fresh_name("unpacked"))
                        s2.assume(z3.And(t >= rng[ch][0], t <= rng[ch][1]))
                        items.append(VInt(t))
                    outs.append((s2, VTuple(items)))
                return outs
        if d == "int.from_bytes":
            signed = any(k.arg == "signed" for k in n.keywords)
            outs = []
            for (s2, _a) in self.ev_list(n.args, st):
                t = z3.Int(fresh_name("from_bytes"))
                if not signed:
                    s2.assume(t >= 0)
                self.exc_any(s2.fork(), f"{self.loc(n)} int.from_bytes")
                outs.append((s2, VInt(t)))
            return outs
        # x.find(sub[, start]) on str/bytes: -1, or >= start (>= 0) and <= len(x)
        if isinstance(f, ast.Attribute) and f.attr in ("find", "index") and isinstance(f.value, ast.Name) and 1 <= len(n.args) <= 2:
            base = st.lookup(f.value.id)
            if isinstance(base, VUnk):
                outs = []
                for (s2, args) in self.ev_list(n.args, st):
                    t = z3.Int(fresh_name("found"))
                    lo = ops.int_term(args[1]) if len(args) == 2 and isinstance(args[1], VInt) else z3.IntVal(0)
                    ln = self.b_len(s2, [base], {}, n)[0][1].t
                    s2.assume(z3.Or(t == -1, z3.And(t >= lo, t >= 0, t <= ln)))
                    self.exc_any(s2.fork(), f"{self.loc(n)} find")
                    outs.append((s2, VInt(t)))
                return outs
        return super().e_Call(n, st)

    def get_index(self, st, base, idx, node):
        # indexing a bytes-typed unknown gives an int in [0, 255]
        if isinstance(base, VUnk) and base.tag in self.bytes_names and isinstance(idx, VInt):
            self.exc_any(st.fork(), f"{self.loc(node)} bytes index")
            t = z3.Int(fresh_name("byte"))
            st.assume(z3.And(t >= 0, t <= 255))
            return [(st, VInt(t))]
        return super().get_index(st, base, idx, node)

    def call_method(self, st, obj, name, args, kwargs, node):
        # compiled module-level regex: P.match(...) / P.search(...) -> None | Match
        if name in ("match", "search", "fullmatch") and isinstance(node.func, ast.Attribute) and isinstance(node.func.value, ast.Name):
            w = self.pattern_width(node.func.value.id)
            if w is not None:
                m = VExt("Match")
                a = st.fork()
                st.ghost[("match_width", m.t.get_id())] = w
                return [(a, NONE), (st, m)]
        if isinstance(obj, VExt) and obj.sort == "Match":
            w = st.ghost.get(("match_width", obj.t.get_id()), 0)
            if name == "group":
                s = VStr(z3.String(fresh_name("group")))
                if args and isinstance(args[0], VInt) and args[0].const() == 0:
                    st.assume(z3.Length(s.t) >= w)
                    return [(st, s)]
                self.exc_any(st.fork(), f"{self.loc(node)} group")
                return [(st, VUnk("group"))]
            if name in ("end", "start"):
                return [(st, VInt(z3.Int(fresh_name(name))))]
        return super().call_method(st, obj, name, args, kwargs, node)

    def get_attr(self, st, base, attr, node):
        if isinstance(base, VExt) and base.sort == "Match":
            from .values import VFunc
            return [(st, VFunc("bound", base, attr))]
        return super().get_attr(st, base, attr, node)

    def truth(self, st, v):
        if isinstance(v, VExt) and v.sort == "Match":
            return VBool(True)
        return super().truth(st, v)

    def pattern_width(self, name):
        if name in self.patterns:
            return self.patterns[name]
        w = None
        e = self.module.assigns.get(name)
        if isinstance(e, ast.Call) and dotted(e.func) in ("re.compile",) and e.args and isinstance(e.args[0], ast.Constant) and isinstance(e.args[0].value, str):
            try:
                flags = 0
                w = int(sre_parse.parse(e.args[0].value, flags).getwidth()[0])
            except Exception:  # noqa
                w = None
        self.patterns[name] = w
        return w


def _monotone(body, name):
    """'inc' / 'dec' if every assignment to `name` in `body` is `name += c` / `name -= c` with c a positive literal."""
    kinds = set()
    for s in body:
        for n in ast.walk(s):
            if isinstance(n, ast.AugAssign) and isinstance(n.target, ast.Name) and n.target.id == name:
                if isinstance(n.value, ast.Constant) and isinstance(n.value.value, int) and n.value.value > 0 and isinstance(n.op, (ast.Add, ast.Sub)):
                    kinds.add("inc" if isinstance(n.op, ast.Add) else "dec")
                else:
                    return None
            elif isinstance(n, ast.Name) and n.id == name and isinstance(n.ctx, ast.Store):
                p = [x for x in ast.walk(s) if isinstance(x, ast.AugAssign) and x.target is n]
                if not p:
                    return None
    return kinds.pop() if len(kinds) == 1 else None


def index_rule(mod, reg, uni, q, fnode, loop, extra_assume=None, timeout_ms=10000):
    """-> (status, detail, seconds, nvc) for the index rule, trying each guard candidate."""
    cands = guard_candidates(loop.test)
    body_assigned = assigned(loop.body)
    ints = int_like_names(fnode, mod) | {a.arg for a in fnode.args.args if a.annotation is not None and ast.unparse(a.annotation) == "int"}
    if isinstance(loop.test, ast.Constant) and loop.test.value is True:
        # `while True`: an integer local that strictly increases on every path back to the head and stays <= len(x) + 1 for a
        # sequence x the loop does not rebind (e.g. offset = x.find(sig, offset) + 1): variant len(x) + 1 - var
        cands = [(v_, "inc-bounded", loop.test, None) for v_ in sorted(body_assigned & ints)]
    last = ("unknown", "no usable guard conjunct", 0.0, 0)
    for (var, direction, conj, bound) in cands:
        if var not in body_assigned:
            continue
        if bound is not None:
            bnames = {n.id for n in ast.walk(bound) if isinstance(n, ast.Name)}
            if bnames & body_assigned:
                last = ("unknown", f"bound {ast.unparse(bound)} is assigned in the body", 0.0, 0)
                continue
        try:
            res = _run_index(mod, reg, uni, fnode, loop, var, direction, ints, extra_assume, timeout_ms)
            if res[0] == "unknown" and "does not follow" in (res[1] or ""):
                # the index is the result of a helper of the same module / class (`i = self._end_of_group(text, i)`): second attempt
                # with such helpers executed in place (their own loops are cut with the proved-monotone invariant as usual)
                try:
                    res2 = _run_index(mod, reg, uni, fnode, loop, var, direction, ints, extra_assume, timeout_ms, inline_helpers=True)
                    if res2[0] == "proved":
                        res = (res2[0], (res2[1] + " [module helpers executed in place]").strip(), res2[2], res2[3])
                except (Unsupported, PathLimit):
                    pass
        except (Unsupported, PathLimit) as e:
            last = ("unknown", f"OUT-OF-SUBSET {e}", 0.0, 0)
            continue
        if res[0] == "proved":
            return res[0], f"index {var} ({direction}) w.r.t. guard conjunct `{ast.unparse(conj)}`", res[2], res[3]
        last = (res[0], f"index {var} ({direction}): {res[1]}", res[2], res[3])
    return last


def _run_index(mod, reg, uni, fnode, loop, var, direction, ints, extra_assume, timeout_ms, inline_helpers=False):
    ex = TermExecutor(mod, reg, uni)
    ex.inline_helpers = inline_helpers
    ex.owner_class = next((".".join(q_.split(".")[:-1]) for q_, f_ in mod.functions.items() if f_ is fnode), "")
    st = State()
    env = {}
    names = {n.id for n in ast.walk(loop) if isinstance(n, ast.Name)}
    local_names = {a.arg for a in fnode.args.args + fnode.args.kwonlyargs} | assigned(fnode.body)
    for nm in sorted(names & local_names):
        if nm in ints or nm == var:
            env[nm] = VInt(z3.Int(f"{nm}!0"))
        else:
            env[nm] = VUnk(nm)
    for n_ in _own(fnode):
        if isinstance(n_, (ast.FunctionDef, ast.AsyncFunctionDef)):
            env.setdefault(n_.name, VUnk(n_.name))
            for sub in ast.walk(n_):
                if isinstance(sub, ast.Nonlocal):
                    ex.nonlocal_names |= set(sub.names)
    # module-level integer constants referenced by name (X = 8, X = struct.calcsize(...), X = S.size)
    for nm in sorted(names - set(env)):
        e = mod.assigns.get(nm)
        if isinstance(e, ast.Constant) and isinstance(e.value, int) and not isinstance(e.value, bool):
            env[nm] = VInt(e.value)
        elif e is not None and (isinstance(e, ast.Call) and dotted(e.func) == "struct.calcsize" or isinstance(e, ast.Attribute) and e.attr == "size"):
            t = z3.Int(f"{nm}!size")
            st.assume(t > 0)
            env[nm] = VInt(t)
    # constant propagation for locals assigned exactly once (outside the loop) from a literal / module-level literal
    counts = {}
    for n_ in _own(fnode):
        if isinstance(n_, ast.Name) and isinstance(n_.ctx, ast.Store):
            counts[n_.id] = counts.get(n_.id, 0) + 1
    for n_ in _own(fnode):
        if isinstance(n_, ast.Assign) and len(n_.targets) == 1 and isinstance(n_.targets[0], ast.Name) and counts.get(n_.targets[0].id) == 1 \
                and n_.targets[0].id in env and not any(x is n_ for x in ast.walk(loop)):
            v_ = n_.value
            if isinstance(v_, ast.Name) and isinstance(mod.assigns.get(v_.id), ast.Constant) and isinstance(mod.assigns[v_.id].value, int):
                env[n_.targets[0].id] = VInt(mod.assigns[v_.id].value)
            elif isinstance(v_, ast.Constant) and isinstance(v_.value, int) and not isinstance(v_.value, bool):
                env[n_.targets[0].id] = VInt(v_.value)
    # `n = len(x)` assigned exactly once outside the loop, x a str / bytes parameter the function never rebinds (immutable, so its
    # length is one fixed number): n IS len(x) -- the same constant b_len gives for `len(x)` written out in the loop or in a helper
    imm_params = {a.arg for a in fnode.args.args + fnode.args.kwonlyargs if a.annotation is not None and ast.unparse(a.annotation) in ("str", "bytes")
                  and not counts.get(a.arg)}
    for n_ in _own(fnode):
        if isinstance(n_, ast.Assign) and len(n_.targets) == 1 and isinstance(n_.targets[0], ast.Name) and counts.get(n_.targets[0].id) == 1 \
                and n_.targets[0].id in env and not any(x is n_ for x in ast.walk(loop)) and isinstance(n_.value, ast.Call) \
                and isinstance(n_.value.func, ast.Name) and n_.value.func.id == "len" and len(n_.value.args) == 1 \
                and isinstance(n_.value.args[0], ast.Name) and n_.value.args[0].id in imm_params and n_.value.args[0].id in env:
            L = ex.len_consts.setdefault(n_.value.args[0].id, z3.Int(f"len({n_.value.args[0].id})"))
            st.assume(L >= 0)
            env[n_.targets[0].id] = VInt(L)
    st.frames = [Frame(env, None, fnode)]
    body_assigned = assigned(loop.body)
    ex.stable_names = {nm for nm in env if nm not in body_assigned}
    ex.bytes_names = {a.arg for a in fnode.args.args if a.annotation is not None and ast.unparse(a.annotation) in ("bytes", "bytes | memoryview", "bytearray")}
    for n_ in _own(fnode):
        if isinstance(n_, ast.AnnAssign) and isinstance(n_.target, ast.Name) and ast.unparse(n_.annotation) == "bytes":
            ex.bytes_names.add(n_.target.id)
        if isinstance(n_, ast.Assign) and len(n_.targets) == 1 and isinstance(n_.targets[0], ast.Name) and isinstance(n_.value, ast.Call) \
                and isinstance(n_.value.func, ast.Attribute) and n_.value.func.attr == "read":
            ex.bytes_names.add(n_.targets[0].id)
    if direction == "dec-to-zero":
        st.assume(env[var].t >= 0)      # justified per loop: see `extra` in the caller (entry value is a length)
    if extra_assume is not None:
        st.assume(extra_assume(env))
    v0 = env[var].t
    ex.cur_fn_stack.append(fnode)
    ex.sinks.append([])
    vcs = []
    try:
        for (s2, g) in ex.ev(loop.test, st):
            for (s3, b) in ex.fork_truth(s2, g):
                if not b:
                    continue
                for o in ex.exec_block(loop.body, s3):
                    if o.kind in ("fall", "continue"):
                        v1 = o.st.lookup(var)
                        if not isinstance(v1, VInt):
                            # the index now holds the result of something the executor does not model (a helper call, an
                            # unknown attribute): not a refutation -- the obligation is undecided and the replayer looks for a hang
                            vcs.append((o.st.pc, None, "index variable is assigned from a value the executor does not follow", None))
                            continue
                        t1 = ops.int_term(v1)
                        goal = t1 < v0 if direction in ("dec", "dec-to-zero") else t1 > v0
                        vcs.append((o.st.pc, goal, "", t1))
    finally:
        ex.sinks.pop()
        ex.cur_fn_stack.pop()
    secs = 0.0
    if direction == "inc-bounded":
        # some stable length L must bound the variable after every iteration
        if not vcs:
            return "proved", "no path returns to the loop head", 0.0, 0
        for key, L in sorted(ex.len_consts.items()):
            ok = True
            for pc, goal, note, t1 in vcs:
                if goal is None:
                    ok = False
                    break
                r = solve.check_vc(pc, z3.And(goal, t1 <= L + 1), timeout_ms, want_model=False, use_cvc5=False)
                secs += r.seconds
                if r.status != "proved":
                    ok = False
                    break
            if ok:
                return "proved", f"bounded above by len({key}) + 1", secs, len(vcs)
        return "unknown", f"no stable length bounds `{var}` from above on every path back to the head", secs, len(vcs)
    vcs = [v_[:3] for v_ in vcs]
    for pc, goal, note in vcs:
        if goal is None:
            return "unknown", note, secs, len(vcs)
        r = solve.check_vc(pc, goal, timeout_ms, want_model=True, use_cvc5=False)
        secs += r.seconds
        if r.status == "refuted" and ex.abstracted:
            # the executor replaced something on the way by an arbitrary value: the counterexample may be an artefact of that
            return "unknown", (note or f"a path back to the loop head may not move `{var}`") + f" [abstracted: {sorted(set(ex.abstracted))[:3]}]", secs, len(vcs)
        if r.status == "refuted":
            w = ""
            if r.model is not None:
                try:
                    w = f" (e.g. {var}={r.model.eval(v0, model_completion=True)})"
                except Exception:  # noqa
                    pass
            ab = f" [abstracted: {sorted(set(ex.abstracted))[:3]}]" if ex.abstracted else ""
            return "refuted", (note or f"a path back to the loop head does not move `{var}`") + w + ab, secs, len(vcs)
        if r.status == "unknown":
            return "unknown", "solver unknown", secs, len(vcs)
    if not vcs:
        return "proved", "no path returns to the loop head", secs, 0
    return "proved", "", secs, len(vcs)


# -------------------------------------------------------- dataflow rules --
def back_edge_facts(loop, gen, kill=lambda fact: ()):
    """Must-facts that hold on every path from the loop head through the body back to the head."""
    results = []

    def need(n):
        if isinstance(n, ast.Continue):
            return [("__done__", f"continue at line {n.lineno}")]
        return []
    mf = _BackEdge(gen=gen, kill_names=kill)
    facts_end = mf.block(loop.body, frozenset())
    outs = list(mf.continues)
    if facts_end is not None:
        outs.append(facts_end)
    return outs


class _BackEdge(MustFacts):
    def __init__(self, **k):
        super().__init__(**k)
        self.continues = []
        self.depth = 0

    def stmt(self, s, facts):
        if isinstance(s, ast.Continue) and self.depth == 0:
            self.continues.append(facts)
            return None
        if isinstance(s, (ast.For, ast.While)):
            self.depth += 1
            try:
                return super().stmt(s, facts)
            finally:
                self.depth -= 1
        return super().stmt(s, facts)


def pop_rule(loop):
    test = loop.test
    first = test.values[0] if isinstance(test, ast.BoolOp) and isinstance(test.op, ast.And) else test
    if not isinstance(first, ast.Name):
        return None
    s = first.id
    grows = [n for st_ in loop.body for n in ast.walk(st_) if isinstance(n, ast.Call) and isinstance(n.func, ast.Attribute)
             and isinstance(n.func.value, ast.Name) and n.func.value.id == s and n.func.attr in ("append", "extend", "insert")]
    if grows or s in assigned(loop.body):
        return ("unknown", f"{s} may grow or is reassigned in the body")
    outs = back_edge_facts(loop, lambda call: ["popped"] if isinstance(call.func, ast.Attribute) and isinstance(call.func.value, ast.Name)
                           and call.func.value.id == s and call.func.attr == "pop" else [])
    if outs and all("popped" in o for o in outs):
        return ("proved", f"every path back to the head pops `{s}`; variant len({s})")
    return ("refuted" if outs else "proved", f"a path back to the head does not pop `{s}`")


def shrink_rule(loop):
    t = loop.test
    if not (isinstance(t, ast.Compare) and len(t.ops) == 1 and isinstance(t.ops[0], (ast.Gt, ast.GtE)) and isinstance(t.left, ast.Call)
            and dotted(t.left.func) == "len" and t.left.args and isinstance(t.left.args[0], ast.Name)):
        return None
    s = t.left.args[0].id
    bound_names = {n.id for n in ast.walk(t.comparators[0]) if isinstance(n, ast.Name)}
    if bound_names & assigned(loop.body):
        return ("unknown", "bound assigned in body")
    grows = [n for st_ in loop.body for n in ast.walk(st_) if isinstance(n, ast.Call) and isinstance(n.func, ast.Attribute)
             and isinstance(n.func.value, ast.Name) and n.func.value.id == s and n.func.attr in ("append", "extend", "insert")]
    if grows:
        return ("unknown", f"{s} may grow")

    for st_ in loop.body:
        for n in ast.walk(st_):
            if isinstance(n, (ast.Assign, ast.AugAssign)):
                tg = n.targets if isinstance(n, ast.Assign) else [n.target]
                for t_ in tg:
                    if isinstance(t_, ast.Name) and t_.id == s:
                        return ("unknown", f"{s} is rebound in the body")
                    if isinstance(t_, ast.Subscript) and isinstance(t_.value, ast.Name) and t_.value.id == s and isinstance(t_.slice, ast.Slice):
                        return ("unknown", f"slice assignment to {s}")
    outs = _shrink_paths(loop, s)
    if outs is None:
        return ("unknown", f"could not follow the control flow of the body for `{s}`")
    if all(sh for (sh, _fl) in outs):
        return ("proved", f"every path back to the head removes an element of `{s}` (del / pop / remove, no growth); variant len({s})")
    return ("unknown", f"could not show that `{s}` shrinks on every path")


def _shrink_paths(loop, s):
    """Path-sensitive abstract execution of the loop body: the set of (shrunk, flags) states that reach the head again.
    shrunk: an element of `s` was removed on the path; flags: boolean locals assigned True/False literals (so that
    `found = False; for ...: if c: del s[i]; found = True; break` followed by `if not found: del s[0]` is followed exactly).
    Returns None when a construct is not handled."""
    class Giveup(Exception):
        pass

    def removes(n):
        if isinstance(n, ast.Delete):
            return any(isinstance(t_, ast.Subscript) and isinstance(t_.value, ast.Name) and t_.value.id == s and not isinstance(t_.slice, ast.Slice) for t_ in n.targets)
        if isinstance(n, ast.Expr) and isinstance(n.value, ast.Call):
            c = n.value
            return isinstance(c.func, ast.Attribute) and isinstance(c.func.value, ast.Name) and c.func.value.id == s and c.func.attr in ("pop", "remove")
        if isinstance(n, ast.Assign) and isinstance(n.value, ast.Call):
            c = n.value
            return isinstance(c.func, ast.Attribute) and isinstance(c.func.value, ast.Name) and c.func.value.id == s and c.func.attr == "pop"
        return False

    def flag_test(e):
        if isinstance(e, ast.Name):
            return e.id, True
        if isinstance(e, ast.UnaryOp) and isinstance(e.op, ast.Not) and isinstance(e.operand, ast.Name):
            return e.operand.id, False
        return None

    def setflag(state, name, val):
        sh, fl = state
        d = dict(fl)
        if val is None:
            d.pop(name, None)
        else:
            d[name] = val
        return (sh, tuple(sorted(d.items())))

    # block(states, stmts, depth) -> (fall, brk, cont) sets of states; exits (return/raise) vanish
    def block(states, stmts):
        brk, cont = set(), set()
        cur = set(states)
        for st_ in stmts:
            if not cur:
                break
            cur, b, c = stmt(cur, st_)
            brk |= b
            cont |= c
        return cur, brk, cont

    def stmt(states, n):
        if isinstance(n, (ast.Return, ast.Raise)):
            return set(), set(), set()
        if isinstance(n, ast.Break):
            return set(), set(states), set()
        if isinstance(n, ast.Continue):
            return set(), set(), set(states)
        if removes(n):
            out = {(True, fl) for (_sh, fl) in states}
            for t_ in ast.walk(n):
                if isinstance(t_, ast.Name) and isinstance(t_.ctx, ast.Store):
                    out = {setflag(x, t_.id, None) for x in out}
            return out, set(), set()
        if isinstance(n, ast.Assign) and len(n.targets) == 1 and isinstance(n.targets[0], ast.Name):
            v = n.value.value if isinstance(n.value, ast.Constant) and isinstance(n.value.value, bool) else None
            return {setflag(x, n.targets[0].id, v) for x in states}, set(), set()
        if isinstance(n, (ast.Assign, ast.AugAssign, ast.AnnAssign)):
            out = set(states)
            for t_ in ast.walk(n):
                if isinstance(t_, ast.Name) and isinstance(t_.ctx, ast.Store):
                    out = {setflag(x, t_.id, None) for x in out}
            return out, set(), set()
        if isinstance(n, ast.If):
            ft = flag_test(n.test)
            tin, fin = set(states), set(states)
            if ft is not None:
                nm, pos = ft
                tin = {x for x in states if dict(x[1]).get(nm, pos) == pos}
                fin = {x for x in states if dict(x[1]).get(nm, (not pos)) == (not pos)}
            f1, b1, c1 = block(tin, n.body)
            f2, b2, c2 = block(fin, n.orelse)
            return f1 | f2, b1 | b2, c1 | c2
        if isinstance(n, (ast.For, ast.While)):
            seen = set(states)
            frontier = set(states)
            after = set(states) if not (isinstance(n, ast.While) and isinstance(n.test, ast.Constant) and n.test.value is True) else set()
            exits = set()
            while frontier:
                if isinstance(n, ast.For):
                    for t_ in ast.walk(n.target):
                        if isinstance(t_, ast.Name):
                            frontier = {setflag(x, t_.id, None) for x in frontier}
                f, b, c = block(frontier, n.body)
                exits |= b
                nxt = (f | c)
                after |= nxt
                frontier = nxt - seen
                seen |= nxt
            # normal exhaustion runs the else clause; break skips it
            fo, bo, co = block(after, n.orelse)
            return fo | exits, bo, co
        if isinstance(n, ast.Try):
            # any prefix of the try body may have run when a handler starts: removal is only counted if it also
            # happens on the handler path, so handlers start from the states *before* the try and from all body states
            f, b, c = block(states, n.body)
            hin = {(sh, ()) for (sh, _fl) in states}
            hf, hb, hc = set(), set(), set()
            for h in n.handlers:
                a1, a2, a3 = block(hin, h.body)
                hf |= a1; hb |= a2; hc |= a3
            f2, b2, c2 = block(f, n.orelse)
            allf, allb, allc = f2 | hf, b | b2 | hb, c | c2 | hc
            if n.finalbody:
                ff, fb, fc = block(allf, n.finalbody)
                bb, fb2, fc2 = block(allb, n.finalbody)
                cc, fb3, fc3 = block(allc, n.finalbody)
                return ff, fb | fb2 | fb3 | bb, fc | fc2 | fc3 | cc
            return allf, allb, allc
        if isinstance(n, ast.With):
            for it in n.items:
                if it.optional_vars is not None:
                    for t_ in ast.walk(it.optional_vars):
                        if isinstance(t_, ast.Name):
                            states = {setflag(x, t_.id, None) for x in states}
            return block(states, n.body)
        if isinstance(n, (ast.Expr, ast.Pass, ast.Assert, ast.Delete, ast.Import, ast.ImportFrom, ast.Global, ast.Nonlocal)):
            return set(states), set(), set()
        if isinstance(n, (ast.FunctionDef, ast.AsyncFunctionDef, ast.ClassDef)):
            return set(states), set(), set()
        raise Giveup(type(n).__name__)

    try:
        f, _b, c = block({(False, ())}, loop.body)
    except Giveup:
        return None
    return f | c


def _unconditional(body, node):
    return any(node is s for s in body)


def consume_rule(loop, readers):
    if not (isinstance(loop.test, ast.Constant) and loop.test.value is True):
        return None

    def gen(call):
        d = dotted(call.func)
        if d.split(".")[-1] in readers:
            return ["consumed"]
        return []
    outs = back_edge_facts(loop, gen)
    if not outs:
        return ("proved", "no path returns to the loop head")
    if all("consumed" in o for o in outs):
        return ("proved", "every path back to the head has consumed at least one byte of the stream (reader advances or raises); variant = bytes remaining")
    return ("refuted", "a path back to the head of `while True` consumes nothing")


def termination_obligations(prop, repo, files, readers=(), extra=None, unproven_ok=(), advancers=None):
    """One obligation per while loop of `files`.  `extra`: {(file, qualname, k): {"assume": fn(env)->Bool, "why": str}}.
    Loops listed in `unproven_ok` (same key) are reported as not decided without making the check UNDECIDED."""
    extra = extra or {}
    reg = Registry()
    uni = Universe(repo)
    obls, undecided_listed, fns = [], [], []
    for rel in files:
        mod = loader.module(rel, repo)
        for (q, fnode, k, loop) in while_loops(mod):
            key = (rel.split("/")[-1], q, k)
            oid = f"{prop}/{rel.split('/')[-1]}::{q}/decreases#while-{k}"
            status, detail, secs, nvc, backend = "unknown", "", 0.0, 1, "dataflow"
            adv_detail = None
            if key in unproven_ok:
                undecided_listed.append({"loop": f"{rel}:{loop.lineno} {q} while-{k}", "why": "outside the variant rules (listed, not attempted)"})
                continue
            for rule in (lambda: pop_rule(loop), lambda: shrink_rule(loop), lambda: consume_rule(loop, readers)):
                r = rule()
                if r is not None and r[0] == "proved":
                    status, detail = r
                    break
                if r is not None and r[0] == "refuted":
                    status, detail = r
            if status != "proved" and key in (advancers or {}):
                r = advance_rule(loop, advancers[key], mod, q)
                if r is not None and r[0] == "proved":
                    status, detail = r
                elif r is not None:
                    adv_detail = r[1]
            if status != "proved":
                ea = extra.get(key, {}).get("assume")
                s2, d2, secs, nvc = index_rule(mod, reg, uni, q, fnode, loop, ea)
                if s2 != "proved" and adv_detail:
                    d2 = adv_detail + " / " + d2
                if s2 == "proved" or status != "refuted":
                    status, detail, backend = s2, d2 + ((" [assumed at loop entry: " + extra[key]["why"] + "]") if key in extra and s2 == "proved" else ""), "z3"
            if status != "proved" and key in unproven_ok:
                undecided_listed.append({"loop": f"{rel}:{loop.lineno} {q} while-{k}", "why": detail})
                continue
            obls.append({"id": oid, "kind": "decreases", "status": status, "vcs": max(nvc, 1), "seconds": round(secs, 4),
                         "backends": {backend: max(nvc, 1)}, "witness": None, "reason": f"{rel}:{loop.lineno} {detail}", "loc": f"{rel}:{loop.lineno}",
                         "function": f"{rel}::{q}"})
        # callee contracts the advance rule relies on: proved here, used above (assume-guarantee)
        for key, names in sorted((advancers or {}).items()):
            if key[0] != rel.split("/")[-1]:
                continue
            for nm in sorted(names):
                for q2 in mod.functions:
                    if q2.split(".")[-1] == nm and q2.split(".")[:-1] == key[1].split(".")[:-1]:
                        st_, why = next_index_contract(mod, q2)
                        obls.append({"id": f"{prop}/{rel.split('/')[-1]}::{q2}/ensures#None-or-next-index-beyond-first-argument", "kind": "ensures",
                                     "status": st_, "vcs": 1, "seconds": 0.0, "backends": {"dataflow": 1}, "witness": None,
                                     "reason": f"{rel}:{mod.functions[q2].lineno} {why}", "loc": f"{rel}:{mod.functions[q2].lineno}", "function": f"{rel}::{q2}"})
    return obls, undecided_listed


# ------------------------------------------------------------- for loops --
INFINITE_ITERATORS = {"itertools.count", "itertools.cycle", "count", "cycle"}
GROWERS = ("append", "extend", "insert", "add", "update", "setdefault", "appendleft", "extendleft")


def for_loop_obligations(prop, repo, files):
    """One obligation per file: every `for` statement / comprehension of the file iterates over something finite
    that its own body does not grow.  Checked per loop:
      (a) the iterable is not an infinite-iterator constructor (itertools.count / cycle / repeat without `times`,
          two-argument `iter(callable, sentinel)`);
      (b) for an iterable that is a name or attribute path, the body contains no growing call on the same path
          (`x.append/extend/insert/add/update/setdefault`, `x += ...`) and no subscript store into it when it is
          iterated as a mapping (`for k in d: d[new] = ...`).
    What this leaves as an assumption (recorded in the evidence): third-party iterables (ElementTree, zipfile, xlrd, ...)
    and own generators are finite -- the latter reduce to the `while` obligations of their bodies and to this rule."""
    out = []
    for rel in files:
        mod = loader.module(rel, repo)
        n, bad = 0, []
        for node in ast.walk(mod.tree):
            if not isinstance(node, (ast.For, ast.AsyncFor, ast.comprehension)):
                continue
            n += 1
            it = node.iter
            line = getattr(node, "lineno", getattr(it, "lineno", 0))
            if isinstance(it, ast.Call):
                d = dotted(it.func) or ""
                if d in INFINITE_ITERATORS:
                    bad.append(f"{rel}:{line} iterates over {d}()")
                if d in ("itertools.repeat", "repeat") and len(it.args) < 2 and not any(k.arg == "times" for k in it.keywords):
                    bad.append(f"{rel}:{line} iterates over repeat() without times")
                if d == "iter" and len(it.args) == 2:
                    bad.append(f"{rel}:{line} iterates over iter(callable, sentinel)")
            if isinstance(node, ast.comprehension):
                continue
            base = dotted(it) if isinstance(it, (ast.Name, ast.Attribute)) else None
            if isinstance(it, ast.Call) and isinstance(it.func, ast.Attribute) and it.func.attr in ("items", "keys", "values") and not it.args:
                base = dotted(it.func.value)
            if not base:
                continue
            for b in node.body:
                for c in ast.walk(b):
                    if isinstance(c, ast.Call) and isinstance(c.func, ast.Attribute) and c.func.attr in GROWERS and dotted(c.func.value) == base:
                        bad.append(f"{rel}:{c.lineno} `{base}.{c.func.attr}(...)` inside `for ... in {ast.unparse(it)}` (line {line})")
                    if isinstance(c, ast.AugAssign) and dotted(c.target) == base:
                        bad.append(f"{rel}:{c.lineno} `{base} += ...` inside `for ... in {ast.unparse(it)}` (line {line})")
        out.append({"id": f"{prop}/{rel.split('/')[-1]}::*/decreases#for-loops-finite", "kind": "decreases",
                    "status": "proved" if not bad else "unknown", "vcs": max(n, 1), "seconds": 0.0, "backends": {"dataflow": max(n, 1)},
                    "witness": None, "reason": f"{rel}: {n} for loops / comprehensions; " + ("; ".join(bad) if bad else "none iterates an infinite constructor or grows its own iterable"),
                    "loc": rel, "function": f"{rel}::*"})
    return out


# ------------------------------------------ advance rule (callee contract) --
def next_index_contract(mod, q):
    """Dataflow proof of the callee contract  `result is None or result[1] > <first parameter>`  for a function whose
    tuple results end in `max(B) + 1` with B a local list initialised `[<first parameter>, ...]` that is only ever
    appended to (so B[0] stays the parameter and max(B) >= B[0]).  -> (status, reason)."""
    fnode = mod.functions[q]
    params = [a.arg for a in fnode.args.args if a.arg not in ("self", "cls")]
    if not params:
        return "unknown", "no parameter"
    P = params[0]
    stores = {}
    for n in _own(fnode):
        if isinstance(n, ast.Name) and isinstance(n.ctx, ast.Store):
            stores[n.id] = stores.get(n.id, 0) + 1
    if stores.get(P):
        return "unknown", f"parameter {P} is reassigned"

    def is_max_plus_one(e):
        if isinstance(e, ast.BinOp) and isinstance(e.op, ast.Add) and isinstance(e.right, ast.Constant) and isinstance(e.right.value, int) and e.right.value >= 1 \
                and isinstance(e.left, ast.Call) and dotted(e.left.func) == "max" and len(e.left.args) == 1 and isinstance(e.left.args[0], ast.Name) and not e.left.keywords:
            return e.left.args[0].id
        return None
    single = {}
    for n in _own(fnode):
        if isinstance(n, ast.Assign) and len(n.targets) == 1 and isinstance(n.targets[0], ast.Name) and stores.get(n.targets[0].id) == 1:
            single[n.targets[0].id] = n.value
    lists = set()
    nret = 0
    for n in _own(fnode):
        if not isinstance(n, ast.Return):
            continue
        nret += 1
        v = n.value
        if v is None or (isinstance(v, ast.Constant) and v.value is None):
            continue
        if not (isinstance(v, ast.Tuple) and len(v.elts) == 2):
            return "unknown", f"line {n.lineno}: result is neither None nor a pair"
        e = v.elts[1]
        if isinstance(e, ast.Name) and e.id in single:
            e = single[e.id]
        B = is_max_plus_one(e)
        if B is None:
            return "refuted", f"line {n.lineno}: second component `{ast.unparse(v.elts[1])}` is not max(<list>) + k, k >= 1"
        lists.add(B)
    for B in lists:
        init = single.get(B)
        if not (isinstance(init, ast.List) and init.elts and isinstance(init.elts[0], ast.Name) and init.elts[0].id == P):
            return "refuted", f"`{B}` is not initialised as [{P}, ...] by a single assignment"
        parents = {}
        for n in _own(fnode):
            for ch in ast.iter_child_nodes(n):
                parents[ch] = n
        for n in _own(fnode):
            if isinstance(n, ast.Name) and n.id == B and isinstance(n.ctx, ast.Load):
                par = parents.get(n)
                if isinstance(par, ast.Attribute):
                    if par.attr != "append":
                        return "refuted", f"line {n.lineno}: `{B}.{par.attr}` may remove or reorder elements"
                elif isinstance(par, ast.Call) and n in par.args:
                    if dotted(par.func) not in ("len", "max", "min", "sorted", "list", "tuple", "enumerate"):
                        return "unknown", f"line {n.lineno}: `{B}` escapes into {ast.unparse(par.func)}()"
                elif isinstance(par, ast.Subscript) and isinstance(par.ctx, (ast.Store, ast.Del)):
                    return "refuted", f"line {n.lineno}: element of `{B}` overwritten or deleted"
                elif isinstance(par, (ast.AugAssign, ast.Delete, ast.Starred, ast.Return, ast.Yield)):
                    return "unknown", f"line {n.lineno}: `{B}` used in {type(par).__name__}"
            if isinstance(n, (ast.AugAssign,)) and isinstance(n.target, ast.Name) and n.target.id == B:
                return "unknown", f"line {n.lineno}: `{B}` rebound"
            if isinstance(n, ast.Delete) and any(isinstance(t_, ast.Name) and t_.id == B for t_ in n.targets):
                return "unknown", f"line {n.lineno}: `{B}` deleted"
    return "proved", f"{nret} returns: None, or (rows, max(B) + k) with B = [{P}, ...] append-only, hence > {P}"


class _Advance(_BackEdge):
    def __init__(self, var, advancers):
        super().__init__(kill_names=lambda fact: self.kills.get(fact, ()))
        self.var, self.advancers = var, advancers
        self.kills = {}
        self.unrecognised = []

    def _callee(self, call):
        f = call.func
        name = f.attr if isinstance(f, ast.Attribute) and isinstance(f.value, ast.Name) and f.value.id in ("self", "cls") else f.id if isinstance(f, ast.Name) else None
        return name if name in self.advancers else None

    def stmt(self, s, facts):
        v = self.var
        if isinstance(s, ast.AugAssign) and isinstance(s.target, ast.Name) and s.target.id == v:
            facts = self._expr(s.value, facts)
            if isinstance(s.op, ast.Add) and isinstance(s.value, ast.Constant) and isinstance(s.value.value, int) and not isinstance(s.value.value, bool) and s.value.value > 0:
                return self._kill(facts, [s.target]) | {"adv"}
            self.unrecognised.append(s.lineno)
            return self._kill(facts, [s.target])
        if isinstance(s, ast.Assign) and len(s.targets) == 1:
            t = s.targets[0]
            if isinstance(t, ast.Name) and t.id == v:
                if isinstance(s.value, ast.Name) and f"next:{s.value.id}" in facts:
                    return self._kill(facts, [t]) | {"adv"}
                self.unrecognised.append(s.lineno)
                return super().stmt(s, facts)
            if isinstance(t, ast.Name) and isinstance(s.value, ast.Call) and self._callee(s.value) and s.value.args \
                    and isinstance(s.value.args[0], ast.Name) and s.value.args[0].id == v:
                out = super().stmt(s, facts)
                fact = f"call:{t.id}"
                self.kills[fact] = (t.id, v)
                return out | {fact}
            if isinstance(t, ast.Tuple) and len(t.elts) == 2 and isinstance(t.elts[1], ast.Name) and isinstance(s.value, ast.Name) and f"call:{s.value.id}" in facts:
                out = super().stmt(s, facts)
                fact = f"next:{t.elts[1].id}"
                self.kills[fact] = (t.elts[1].id, v)
                return out | {fact}
        if any(isinstance(n, ast.Name) and n.id == v and isinstance(n.ctx, ast.Store) for n in ast.walk(s)) and not isinstance(s, (ast.If, ast.For, ast.While, ast.Try, ast.With)):
            self.unrecognised.append(s.lineno)
        if isinstance(s, (ast.For, ast.AsyncFor)) and any(isinstance(n, ast.Name) and n.id == v for n in ast.walk(s.target)):
            self.unrecognised.append(s.lineno)
        return super().stmt(s, facts)


def _self_attr_stable(mod, q, attr):
    """No method of q's class other than __init__ stores to self.<attr> or calls a mutator on it."""
    cls = ".".join(q.split(".")[:-1])
    for q2, fn in mod.functions.items():
        if ".".join(q2.split(".")[:-1]) != cls or q2.split(".")[-1] == "__init__":
            continue
        for n in ast.walk(fn):
            if isinstance(n, ast.Attribute) and n.attr == attr and isinstance(n.value, ast.Name) and n.value.id == "self":
                if isinstance(n.ctx, (ast.Store, ast.Del)):
                    return f"{q2} line {n.lineno} stores self.{attr}"
            if isinstance(n, ast.Call) and isinstance(n.func, ast.Attribute) and isinstance(n.func.value, ast.Attribute) and n.func.value.attr == attr \
                    and isinstance(n.func.value.value, ast.Name) and n.func.value.value.id == "self" \
                    and n.func.attr in GROWERS + ("pop", "remove", "clear", "sort", "reverse"):
                return f"{q2} line {n.lineno} mutates self.{attr}"
            if isinstance(n, (ast.Subscript,)) and isinstance(n.ctx, (ast.Store, ast.Del)) and isinstance(n.value, ast.Attribute) and n.value.attr == attr \
                    and isinstance(n.value.value, ast.Name) and n.value.value.id == "self":
                return f"{q2} line {n.lineno} writes into self.{attr}"
    return None


def advance_rule(loop, advancers, mod=None, q=None):
    """`while var < <stable bound>`: every store to `var` in the body is `var += k` (k > 0) or `var = n` with n the second
    component of the pair returned by an advancer called with `var` (contract: result[1] > argument), and every path back to
    the head performs at least one of them.  All values of `var` in the body are then >= its value at the head, and > after a store."""
    cands = [c for c in guard_candidates(loop.test) if c[1] == "inc" and c[3] is not None]
    for (var, _d, conj, bound) in cands:
        if {n.id for n in ast.walk(bound) if isinstance(n, ast.Name)} & assigned(loop.body):
            continue
        unstable = None
        for n in ast.walk(bound):
            if isinstance(n, ast.Attribute) and isinstance(n.value, ast.Name) and n.value.id == "self" and mod is not None:
                unstable = unstable or _self_attr_stable(mod, q, n.attr)
        if unstable:
            return ("unknown", f"bound `{ast.unparse(bound)}` is not stable: {unstable}")
        mf = _Advance(var, advancers)
        end = mf.block(loop.body, frozenset())
        outs = list(mf.continues) + ([end] if end is not None else [])
        if mf.unrecognised:
            return ("unknown", f"store to `{var}` at line(s) {mf.unrecognised} is neither `+= k` nor the next index of an advancer")
        if all("adv" in o for o in outs):
            return ("proved", f"every path back to the head advances `{var}` (`{var} += k`, or `{var} = next` with next > {var} by the contract of "
                              f"{'/'.join(sorted(advancers)) or '-'}); bound `{ast.unparse(bound)}` not assigned in the body nor by any method of the class")
        return ("unknown", f"a path back to the head does not advance `{var}`")
    return None
