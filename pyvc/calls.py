"""Calls: contracts at call sites, inlining, builtin / str / list models, EXC-ANY."""
from __future__ import annotations

import ast

import z3

from . import ops
from .contracts import FnContract
from .ops import Unsupported
from .state import Frame, HeapObj, State
from .values import (NONE, V, VBool, VBytes, VDictC, VExc, VExt, VFunc, VInt, VMod,
                     VNoneT, VReal, VRef, VSeq, VSetC, VStr, VTuple, VType, VUnk, fresh_name)

MAX_INLINE_DEPTH = 12


class CallCtx:
    """What a contract clause sees at verification time and at call sites."""

    def __init__(self, ex, args: dict, entry: State, st: State = None, result=None, exc=None):
        self.ex, self.args, self.entry, self.st = ex, args, entry, st
        self.result, self.exc = result, exc
        self.at_call_site = False      # True when the contract is being applied at a call (clauses about the callee's
                                       # internal ghost state are meaningful only while the callee itself is verified)

    def arg(self, name):
        return self.args[name]

    def __getitem__(self, name):
        return self.args[name]

    def get(self, name, default=None):
        return self.args.get(name, default)

    def items(self):
        return self.args.items()

    def __contains__(self, name):
        return name in self.args

    def old_list(self, name):
        return self.entry.obj(self.args[name].ref).data

    def list(self, name):
        return self.st.obj(self.args[name].ref).data

    def old_field(self, name, f):
        return self.entry.obj(self.args[name].ref).data[f]

    def field(self, name, f):
        return self.st.obj(self.args[name].ref).data[f]

    @property
    def yielded(self):
        return self.st.yielded

    # closure variables of a nested function under contract -------------------
    cl_frame = None      # index of the frame holding the closure variables

    def _cl(self, st, name):
        idx = self.cl_frame
        while idx is not None:
            fr = st.frames[idx]
            if name in fr.env:
                return fr.env[name]
            idx = fr.static
        raise KeyError(name)

    def closure(self, name):
        """value of a closure variable in the final state"""
        return self._cl(self.st, name)

    def old_closure(self, name):
        return self.args[name]


def _site(ctx):
    ctx.at_call_site = True
    return ctx


class CallMixin:
    def e_Call(self, n, st):
        if self.is_logger_call(n):
            return [(st, NONE)]
        out = []
        for (s, f) in self.ev(n.func, st):
            for (s2, args) in self.ev_list(n.args, s):
                kw_nodes = [k for k in n.keywords]
                if any(k.arg is None for k in kw_nodes):
                    self.unsupported(n, "**kwargs call")
                for (s3, kwvals) in self.ev_list([k.value for k in kw_nodes], s2):
                    kwargs = {k.arg: v for k, v in zip(kw_nodes, kwvals)}
                    out.extend(self.call(s3, f, args, kwargs, n))
        return out

    # ---------------------------------------------------------------- call --
    def call(self, st, f, args, kwargs, node):
        if isinstance(f, VFunc):
            if f.how == "repo":
                target = f"{f.a}::{f.b}"
                c = self.reg.get(target)
                if c is not None and not c.inline:
                    return self.apply_contract(st, c, args, kwargs, node)
                if not self.inline_calls and not (c is not None and c.inline):
                    if not self.local_helper(f):
                        return self.havoc_call(st, f"repo:{f.b}", args, node)
                return self.inline_repo(st, f.a, f.b, args, kwargs, node)
            if f.how == "closure":
                return self.inline_closure(st, f, args, kwargs, node)
            if f.how == "builtin":
                return self.call_builtin(st, f.a, args, kwargs, node)
            if f.how == "ext":
                m = self.reg.ext_models.get(f.a)
                if m is None:
                    m = self.reg.fn.get(f.a)
                if m is None and f.a in ("itertools.chain", "chain") and not kwargs:
                    # itertools.chain over iterables of known length: the concatenation (consumed eagerly, like generator expressions)
                    parts = [self.concrete_items(st, a) for a in args]
                    if all(p_ is not None for p_ in parts):
                        return [(st, VTuple([x for p_ in parts for x in p_]))]
                if isinstance(m, FnContract):
                    return self.apply_contract(st, m, args, kwargs, node)
                if m is not None:
                    return m(self, st, args, kwargs, node)
                return self.havoc_call(st, f"{f.a}", args, node)
            if f.how == "bound":
                return self.call_method(st, f.a, f.b, args, kwargs, node)
            if f.how == "classattr":
                return self.havoc_call(st, f"{f.a}.{f.b}", args, node)
        if isinstance(f, VType):
            return self.construct(st, f, args, kwargs, node)
        if isinstance(f, VUnk):
            return self.havoc_call(st, f"unknown:{f.tag}", args, node)
        self.unsupported(node, f"call of {f!r}")

    def local_helper(self, f) -> bool:
        """inline_local: a private module-level helper of the module under verification, small and not (yet) on the inline
        stack -- `extract method` refactorings keep verifying because the helper body is executed in place."""
        if not getattr(self, "inline_local", False) or f.a != self.module.rel or self.inline_depth >= 3:
            return False
        name = f.b.split(".")[-1]
        if not name.startswith("_") or name.startswith("__"):
            return False
        fnode = self.module.functions.get(f.b)
        if fnode is None or any(fnode is x for x in self.cur_fn_stack):
            return False
        return sum(1 for _ in ast.walk(fnode)) <= 700

    def havoc_call(self, st, what, args, node):
        """EXC-ANY: returns anything, raises any Exception, mutates mutable args."""
        if not self.abstract:
            # exact mode: "returns anything / raises anything" is an over-approximation of a call the engine has no model for, not a
            # fact about the code.  The path is tagged; a VC refuted on a tagged path is reported `unknown` (verify.discharge), so
            # an unmodelled call introduced by a harmless edit cannot become a VIOLATION without a natively replayed input.
            # (abstract mode is different by design: there the contract is stated for whatever the callee does.)
            st.assume(z3.Bool(f"__havoc__@{self.loc(node)} {what}"[:120]))
        self.exc_any(st.fork(), f"{self.loc(node)} call {what}")
        for a in args:
            if isinstance(a, VRef):
                o = st.obj(a.ref)
                st.heap[a.ref] = HeapObj("unk", None, o.cls, o.fresh)
        return [(st, VUnk(what))]

    def bind_params(self, fnode, args, kwargs, node, st=None, self_val=None):
        a = fnode.args
        params = [p.arg for p in a.posonlyargs + a.args]
        env = {}
        pos = list(args)
        if self_val is not None:
            pos = [self_val] + pos
        if len(pos) > len(params) and a.vararg is None:
            raise Unsupported(f"{self.loc(node)} too many positional args")
        for p, v in zip(params, pos):
            env[p] = v
        if a.vararg is not None:
            env[a.vararg.arg] = VTuple(pos[len(params):])
        defaults = a.defaults
        dmap = {}
        for p, d in zip(params[len(params) - len(defaults):], defaults):
            dmap[p] = d
        for p, d in zip(a.kwonlyargs, a.kw_defaults):
            params.append(p.arg)
            if d is not None:
                dmap[p.arg] = d
        for k, v in kwargs.items():
            if k not in params:
                raise Unsupported(f"{self.loc(node)} unexpected keyword {k}")
            env[k] = v
        for p in params:
            if p not in env:
                if p in dmap:
                    r = self.ev(dmap[p], State())
                    env[p] = r[0][1]
                else:
                    raise Unsupported(f"{self.loc(node)} missing argument {p}")
        return env

    def run_body(self, st, fnode, env, static=None):
        """Execute a function body in a new frame -> [(state, value)] (normal
        returns); raises go to the sink.  Generator functions return the list
        of yielded values as a tuple (eager semantics, PY-GEN)."""
        from .symex import Outcome
        if self.inline_depth > MAX_INLINE_DEPTH:
            raise Unsupported("inline depth exceeded (recursion without contract?)")
        fr = Frame(env, static, fnode)
        st.frames.append(fr)
        is_gen = any(isinstance(x, (ast.Yield, ast.YieldFrom)) for x in ast.walk(fnode)
                     if not isinstance(x, (ast.FunctionDef, ast.Lambda)) or x is fnode) and not isinstance(fnode, ast.Lambda)
        saved_y = st.yielded
        if is_gen:
            st.yielded = []
        self.inline_depth += 1
        self.cur_fn_stack.append(fnode)
        try:
            if isinstance(fnode, ast.Lambda):
                res = [Outcome("return", s, v) for (s, v) in self.ev(fnode.body, st)]
            else:
                res = self.exec_block(fnode.body, st)
        finally:
            self.inline_depth -= 1
            self.cur_fn_stack.pop()
        out = []
        for o in res:
            o.st.frames.pop()
            if is_gen:
                ys = o.st.yielded
                o.st.yielded = saved_y
                if o.kind in ("fall", "return"):
                    if o.st.ghost.get("yield_count_unknown"):
                        out.append((o.st, VUnk("generator")))
                    else:
                        out.append((o.st, VTuple(ys)))
                    continue
            if o.kind == "fall":
                out.append((o.st, NONE))
            elif o.kind == "return":
                out.append((o.st, o.val))
            elif o.kind == "raise":
                self.raise_in(o.st, o.val)
            else:
                raise Unsupported("break/continue escaping function")
        return out

    def inline_repo(self, st, rel, qual, args, kwargs, node):
        from . import loader
        m = loader.module(rel, self.module.repo)
        fnode = m.functions.get(qual)
        if fnode is None:
            raise Unsupported(f"{self.loc(node)} no function {rel}::{qual}")
        if m is self.module:
            env = self.bind_params(fnode, args, kwargs, node)
        if m is not self.module:
            sub = self.sub_executor(m)
            sub.abstract, sub.inline_calls, sub.merge = self.abstract, self.inline_calls, self.merge
            sub.inline_local = getattr(self, "inline_local", False)
            sub.sinks = self.sinks
            env = sub.bind_params(fnode, args, kwargs, node)
            sub.sinks = self.sinks
            sub.obls = self.obls
            sub.oid_prefix = self.oid_prefix
            sub.inline_depth = self.inline_depth
            sub.contract = None
            sub.feas = self.feas
            sub.exc_any_sites = self.exc_any_sites
            sub.assumed_used = self.assumed_used
            st.frames.append(Frame({}, None, None))   # isolate: no lexical link to caller
            res = sub.run_body(st, fnode, env, None)
            for (s, _v) in res:
                s.frames.pop()
            for (s, _e) in self.sinks[-1]:
                if len(s.frames) > 1 and s.frames[-1].fnode is None and not s.frames[-1].env:
                    pass
            return res
        return self.run_body(st, fnode, env, None)

    def closure_contract(self, fnode):
        """Contract registered for a nested function (`outer.<locals>.inner`), if any."""
        if isinstance(fnode, ast.Lambda):
            return None
        for q, n in self.module.functions.items():
            if n is fnode and ".<locals>." in q:
                c = self.reg.get(f"{self.module.rel}::{q}")
                if c is not None and not c.inline:
                    return c
        return None

    def inline_closure(self, st, f, args, kwargs, node):
        fnode = f.a
        # a nested function with its own contract is applied modularly (this is what makes
        # recursion of a nested function verifiable: PY-REC)
        c = self.closure_contract(fnode)
        if c is not None:
            return self.apply_contract(st, c, args, kwargs, node, cl_frame=f.b)
        env = self.bind_params(fnode, args, kwargs, node)
        return self.run_body(st, fnode, env, f.b)

    def call_ordinal(self, node, name):
        """Ordinal of this call among the calls of `name` in the enclosing function
        (stable under edits that only shift line numbers)."""
        fnode = self.cur_fn_stack[-1] if self.cur_fn_stack else None
        if fnode is None:
            return 0
        calls = [n for n in ast.walk(fnode) if isinstance(n, ast.Call) and
                 (getattr(n.func, "id", None) == name.split(".")[-1] or getattr(n.func, "attr", None) == name.split(".")[-1])]
        calls.sort(key=lambda n: (n.lineno, n.col_offset))
        for i, n in enumerate(calls):
            if n is node:
                return i
        return 0

    # ---------------------------------------------------- contract at a call --
    def apply_contract(self, st, c: FnContract, args, kwargs, node, cl_frame=None):
        if getattr(self.reg, "global_cells", False):
            self.drop_global_cells(st)      # a callee applied by contract may store to module globals (exprs.read_global_cell)
        names = [p[0] for p in c.params]
        amap = {}
        for nme, v in zip(names, args):
            amap[nme] = v
        for k, v in kwargs.items():
            amap[k] = v
        for (nme, maker) in c.params[len(args):]:
            if nme not in amap:
                d = getattr(maker, "default", None)
                if d is None:
                    raise Unsupported(f"{self.loc(node)} call of {c.target}: missing {nme}")
                amap[nme] = d(self, st)
        if c.assumed:
            self.assumed_used.add(c.target)
        for (nme, maker) in c.params:
            co = getattr(maker, "coerce", None)
            if co is not None and nme in amap:
                v2, pre = co(amap[nme])
                amap[nme] = v2
                if pre is not None and not z3.is_true(z3.simplify(pre)):
                    self.add_vc("call-pre", f"{c.target.split('::')[-1]}.{nme}-in-range@{self.call_ordinal(node, c.target.split('::')[-1])}",
                                st.pc, pre, loc=self.loc(node))
                    st.assume(pre)
        if cl_frame is not None:
            probe = CallCtx(self, amap, st, st)
            probe.cl_frame = cl_frame
            for (nme, _maker) in c.closure:
                try:
                    amap[nme] = probe._cl(st, nme)
                except KeyError:
                    raise Unsupported(f"{self.loc(node)} closure variable {nme} of {c.target} is unbound")
        entry = st.fork()
        ctx = _site(CallCtx(self, amap, entry, st))
        ctx.cl_frame = cl_frame
        if c.requires is not None:
            self.add_vc("call-pre", f"{c.target.split('::')[-1]}@{self.call_ordinal(node, c.target.split('::')[-1])}", st.pc,
                        self._b(c.requires(ctx)), loc=self.loc(node))
            st.assume(self._b(c.requires(ctx)))
        if c.decreases is not None and c is self.contract and getattr(self, "entry_ctx", None) is not None:
            # recursive call: the measure goes down (termination, PY-REC)
            m1, m0 = c.decreases(ctx), c.decreases(self.entry_ctx)
            self.add_vc("decreases", f"{c.target.split('::')[-1].split('.')[-1]}@{self.call_ordinal(node, c.target.split('::')[-1].split('.')[-1])}",
                        st.pc, z3.And(m1 >= 0, m1 < m0), loc=self.loc(node))
        if c.hyps is not None:
            st.assume(self._b(c.hyps(ctx)))
        out = []
        # frame: everything in `modifies` is havocked first, on normal AND exceptional outcomes
        if getattr(c, "frame", None) is not None:
            c.frame(self, st, _site(CallCtx(self, amap, entry, st)))
        for p in (c.modifies if getattr(c, "frame", None) is None else ()):
            v = amap.get(p)
            if isinstance(v, VRef):
                o = st.obj(v.ref)
                if p in c.final:
                    pass
                elif ("havoc-heap", o.kind) in self.reg.ext_models:      # pack-defined heap kinds (additive hook, C02)
                    self.reg.ext_models[("havoc-heap", o.kind)](self, st, v.ref)
                elif o.kind in ("list", "bytearray") and o.data is not None:
                    w = st.wobj(v.ref)
                    w.data = [self.havoc_like(st, x, p) for x in o.data]
                else:
                    st.heap[v.ref] = HeapObj("unk", None, o.cls, o.fresh)
            elif isinstance(v, VExt):
                h = self.reg.ext_models.get(("havoc", v.sort))
                if h is not None:
                    h(self, st, v)
        if cl_frame is not None:
            # rebindable closure variables: fresh values (the first alternative of the maker is used:
            # makers of closure variables must be single-valued)
            for (nme, maker) in c.closure:
                if nme in c.closure_modifies:
                    alts = maker.make(self, st, fresh_name(nme))
                    if len(alts) != 1:
                        raise Unsupported(f"{self.loc(node)} closure variable {nme}: maker with alternatives")
                    cond, nv = alts[0]
                    if cond is not None:
                        st.assume(cond)
                    idx = cl_frame
                    while idx is not None and nme not in st.frames[idx].env:
                        idx = st.frames[idx].static
                    st.frames[idx].env[nme] = nv
        # exceptional outcomes
        for r in c.raises:
            s2 = st.fork()
            cx = _site(CallCtx(self, amap, entry, s2))
            cx.cl_frame = cl_frame
            cond = self._b(r.when(cx)) if r.when is not None else z3.BoolVal(True)
            if self.feasible(s2.pc, cond):
                s2.assume(cond)
                if r.sub:
                    t = z3.Int(fresh_name("exc"))
                    s2.assume(z3.And(t >= 0, t < len(self.uni.names), self.uni.subclass_term(t, r.cls)))
                    xv = VExc(t, {"from_callee": c.target})
                else:
                    xv = self.mk_exc(r.cls, from_callee=c.target)
                if c.exc_ensures:      # exceptional postconditions of the callee hold for what it raises (seen from inside the callee)
                    cxe = CallCtx(self, amap, entry, s2, exc=VExc(xv.tidx, {}))
                    for (_l, e) in c.exc_ensures:
                        s2.assume(self._b(e(cxe)))
                    if not self.feasible(s2.pc):
                        continue
                self.raise_in(s2, xv)
        if c.may_raise_any:
            self.exc_any(st.fork(), f"{self.loc(node)} {c.target}")
        ctx = _site(CallCtx(self, amap, entry, st))
        ctx.cl_frame = cl_frame
        for p, fn in c.final.items():
            v = amap[p]
            st.wobj(v.ref).data = list(fn(ctx))
        if c.returns is not None:
            res = c.returns(ctx)
            if isinstance(res, list) and res and isinstance(res[0], tuple):
                results = res           # [(cond, V)] case split
            else:
                results = [(None, res)]
        else:
            rm = c.result_maker(self, st, ctx) if c.result_maker else (VUnk("generator") if c.generator else NONE)
            # a result_maker may return a case split [(cond | None, V)] like `returns`
            results = rm if (isinstance(rm, list) and rm and isinstance(rm[0], tuple)) else [(None, rm)]
        for cond, rv in results:
            s2 = st.fork() if len(results) > 1 else st
            if cond is not None:
                if not self.feasible(s2.pc, cond):
                    continue
                s2.assume(cond)
            cx = _site(CallCtx(self, amap, entry, s2, result=rv))
            cx.cl_frame = cl_frame
            ok = True
            for (_label, e) in c.ensures:
                s2.assume(self._b(e(cx)))
            if cl_frame is not None:
                # ghost trace of modular calls of nested functions: (contract, args at entry, result)
                s2.ghost["rcalls"] = s2.ghost.get("rcalls", ()) + ((c.target, amap, rv),)
            if ok and self.feasible(s2.pc):
                out.append((s2, ops.lift(rv) if not isinstance(rv, V) else rv))
        return out

    # ----------------------------------------------------------- construct --
    def construct(self, st, t: VType, args, kwargs, node):
        name = t.name
        if self.uni.known(name):
            attrs = {}
            if args:
                attrs["message"] = args[0]
            attrs.update(kwargs)
            return [(st, VExc(z3.IntVal(self.uni.index[name]), attrs))]
        if name == "int":
            return self.b_int(st, args, kwargs, node)
        if name == "bool":
            return [(st, self.truth(st, args[0]) if args else VBool(False))]
        if name == "str":
            if not args:
                return [(st, VStr(""))]
            if isinstance(args[0], VUnk):
                self.exc_any(st.fork(), f"{self.loc(node)} str(unknown)")
            return [(st, self.to_str(st, args[0]))]
        if name == "float":
            if args and isinstance(args[0], (VInt, VReal, VBool)):
                return [(st, VReal(ops.real_term(args[0])))]
            return self.havoc_call(st, "float", args, node)
        if name in ("list", "tuple", "bytes", "bytearray", "memoryview", "set", "frozenset"):
            return self.b_collection(st, name, args, node)
        if name == "dict":
            if not args and not kwargs:
                return [(st, VRef(st.alloc(HeapObj("dict", {}), self.refs)))]
            built = self._dict_from_args(st, args, kwargs)
            if built is not None:
                return [(st, VRef(st.alloc(HeapObj("dict", built), self.refs)))]
            return self.havoc_call(st, "dict", args, node)
        h = self.reg.ext_models.get(("new", name))
        if h is not None:
            return h(self, st, args, kwargs, node)
        nt = self.namedtuple_fields(name)
        if nt is not None:
            return self.construct_namedtuple(st, name, nt, args, kwargs, node)
        dc = self.dataclass_fields(name)
        if dc is not None:
            return self.construct_dataclass(st, name, dc, args, kwargs, node)
        return self.havoc_call(st, f"new {name}", args, node)

    def namedtuple_fields(self, name):
        """[(field, default expr|None)] for a `class X(NamedTuple)` defined in the current module, else None."""
        cls = self.module.classes.get(name)
        if cls is None:
            return self.functional_namedtuple_fields(name)
        if not any(ast.unparse(b) in ("NamedTuple", "typing.NamedTuple") for b in cls.bases):
            return None
        return [(b.target.id, b.value) for b in cls.body if isinstance(b, ast.AnnAssign) and isinstance(b.target, ast.Name)]

    def functional_namedtuple_fields(self, name):
        """the same for a module-level `X = collections.namedtuple("X", "a b" | ["a", "b"])` / `X = typing.NamedTuple("X", [("a", T), ..])`
        of the current module (no defaults / rename / keyword form: anything else is not recognised -> None)."""
        expr = getattr(self.module, "assigns", {}).get(name)
        if not isinstance(expr, ast.Call) or len(expr.args) != 2 or expr.keywords:
            return None
        f = expr.func
        imports = getattr(self.module, "imports", {})
        if isinstance(f, ast.Name):
            dotted = imports.get(f.id)
        elif isinstance(f, ast.Attribute) and isinstance(f.value, ast.Name) and f.value.id in imports:
            dotted = f"{imports[f.value.id]}.{f.attr}"
        else:
            return None
        spec = expr.args[1]
        names = None
        if dotted == "collections.namedtuple":
            try:
                val = ast.literal_eval(spec)
            except (ValueError, SyntaxError, TypeError):
                return None
            if isinstance(val, str):
                names = val.replace(",", " ").split()
            elif isinstance(val, (list, tuple)) and all(isinstance(x, str) for x in val):
                names = list(val)
        elif dotted == "typing.NamedTuple" and isinstance(spec, (ast.List, ast.Tuple)):
            if all(isinstance(e, ast.Tuple) and len(e.elts) == 2 and isinstance(e.elts[0], ast.Constant) and isinstance(e.elts[0].value, str)
                   for e in spec.elts):
                names = [e.elts[0].value for e in spec.elts]
        if not names or len(set(names)) != len(names) or not all(n.isidentifier() and not n.startswith("_") for n in names):
            return None
        return [(n, None) for n in names]

    def construct_namedtuple(self, st, name, fields, args, kwargs, node):
        from .values import VNamedTuple
        names = [f for f, _d in fields]
        if len(args) > len(names) or any(k not in names for k in kwargs) or any(k in names[:len(args)] for k in kwargs):
            self.raise_in(st, self.mk_exc("TypeError"))
            return []
        data = dict(zip(names, args))
        data.update(kwargs)
        for f, d in fields:
            if f not in data:
                if d is None:
                    self.raise_in(st, self.mk_exc("TypeError"))
                    return []
                data[f] = self.ev(d, State())[0][1]
        return [(st, VNamedTuple([data[f] for f in names], names, name))]

    def dataclass_fields(self, name):
        """[(field, default expr|None)] for a @dataclass defined in the current
        module (or registered), else None."""
        cls = self.module.classes.get(name)
        if cls is None:
            return None
        if not any("dataclass" in ast.unparse(d) for d in cls.decorator_list):
            return None
        fields = []
        for b in cls.body:
            if isinstance(b, ast.AnnAssign) and isinstance(b.target, ast.Name):
                fields.append((b.target.id, b.value))
        return fields

    def construct_dataclass(self, st, name, fields, args, kwargs, node):
        data = {}
        names = [f for f, _d in fields]
        for f, v in zip(names, args):
            data[f] = v
        data.update(kwargs)
        for f, d in fields:
            if f not in data:
                if d is None:
                    self.raise_in(st, self.mk_exc("TypeError"))
                    return []
                if isinstance(d, ast.Call) and ast.unparse(d.func) in ("field", "dataclasses.field"):
                    kw = {k.arg: k.value for k in d.keywords}
                    if "default_factory" in kw:
                        fac = ast.unparse(kw["default_factory"])
                        if fac == "list":
                            data[f] = self.new_list(st, [])
                        elif fac == "dict":
                            data[f] = VRef(st.alloc(HeapObj("dict", {}), self.refs))
                        else:
                            data[f] = VUnk(f"factory:{fac}")
                    elif "default" in kw:
                        data[f] = self.ev(kw["default"], State())[0][1]
                    else:
                        data[f] = VUnk("field")
                else:
                    data[f] = self.ev(d, State())[0][1]
        return [(st, self.new_obj(st, name, data))]

    # ------------------------------------------------------------ builtins --
    def b_int(self, st, args, kwargs, node):
        if not args:
            return [(st, VInt(0))]
        v = args[0]
        if isinstance(v, VInt):
            return [(st, v)]
        if isinstance(v, VBool):
            return [(st, VInt(ops.int_term(v)))]
        if isinstance(v, VReal):
            # int() truncates toward zero
            t = v.t
            fl = z3.ToInt(t)
            return [(st, VInt(z3.If(t >= 0, fl, z3.If(z3.ToReal(fl) == t, fl, fl + 1))))]
        if isinstance(v, VStr):
            c = v.const()
            if c is not None and len(args) == 1:
                try:
                    return [(st, VInt(int(c)))]
                except ValueError:
                    self.raise_in(st, self.mk_exc("ValueError"))
                    return []
            # symbolic: may raise ValueError; result opaque int
            self.raise_in(st.fork(), self.mk_exc("ValueError"))
            return [(st, VInt(z3.Int(fresh_name("int_of_str"))))]
        if isinstance(v, VNoneT):
            self.raise_in(st, self.mk_exc("TypeError"))
            return []
        return self.havoc_call(st, "int", args, node)

    def b_collection(self, st, name, args, node):
        if not args:
            if name in ("list", "bytearray"):
                return [(st, self.new_list(st, [], "list" if name == "list" else "bytearray"))]
            if name == "tuple":
                return [(st, VTuple([]))]
            if name == "bytes":
                return [(st, VBytes([]))]
            return [(st, VSetC([]))]
        v = args[0]
        if isinstance(v, VSeq) and name in ("list", "tuple", "bytes", "memoryview"):
            return [(st, v)]      # immutable symbolic sequence view (never mutated: checked at stores)
        if name == "bytearray" and isinstance(v, VInt):
            n = v.const()
            if n is not None:
                return [(st, self.new_list(st, [VInt(z3.BitVecVal(0, 8)) for _ in range(n)], "bytearray"))]
        if name == "bytes" and isinstance(v, VInt):
            n = v.const()
            if n is not None:
                return [(st, VBytes([VInt(z3.BitVecVal(0, 8)) for _ in range(n)]))]
        items = self.concrete_items(st, v)
        if items is None:
            return self.havoc_call(st, name, args, node)
        if name in ("bytes", "bytearray"):
            # every element must be in range(256) else ValueError
            bad = []
            for x in items:
                if not isinstance(x, VInt):
                    return self.havoc_call(st, name, args, node)
                if x.is_bv and x.t.size() <= 8:
                    continue
                bad.append(z3.Or(ops.int_term(x) < 0, ops.int_term(x) > 255))
            if bad:
                st = self.fork_raise(st, z3.Or(bad), "ValueError")
                if st is None:
                    return []
            items = [self.as_byte(x) for x in items]
            if name == "bytes":
                return [(st, VBytes(items))]
            return [(st, self.new_list(st, items, "bytearray"))]
        if name == "list":
            return [(st, self.new_list(st, items))]
        if name == "tuple":
            return [(st, VTuple(items))]
        if name == "memoryview":
            return [(st, v if isinstance(v, VBytes) else VBytes(items))]
        consts = [self.py_const(x) for x in items]
        if any(not isinstance(c, (int, str, bytes, tuple, type(None))) for c in consts):
            return self.havoc_call(st, name, args, node)
        st.ghost["unordered_created"] = True
        return [(st, VSetC(consts))]

    def as_byte(self, x: VInt) -> VInt:
        if x.is_bv:
            w = x.t.size()
            if w == 8:
                return x
            if w < 8:
                return VInt(z3.ZeroExt(8 - w, x.t))
            return VInt(z3.Extract(7, 0, x.t))
        c = x.const()
        if c is not None:
            return VInt(z3.BitVecVal(c, 8))
        return VInt(z3.Int2BV(x.t, 8))

    def call_builtin(self, st, name, args, kwargs, node):
        m = getattr(self, "b_" + name, None)
        if m is not None:
            return m(st, args, kwargs, node)
        return self.havoc_call(st, name, args, node)

    def b_len(self, st, args, kwargs, node):
        v = args[0]
        if isinstance(v, VStr):
            c = v.const()
            return [(st, VInt(len(c)) if c is not None else VInt(z3.Length(v.t)))]
        if isinstance(v, VSeq):
            return [(st, VInt(v.length))]
        items = self.concrete_items(st, v)
        if items is not None:
            return [(st, VInt(len(items)))]
        if isinstance(v, VRef) and st.obj(v.ref).kind == "dict":
            return [(st, VInt(len(st.obj(v.ref).data)))]
        if isinstance(v, VUnk) or isinstance(v, VRef):
            self.exc_any(st.fork(), f"{self.loc(node)} len(unknown)")
            n = z3.Int(fresh_name("len"))
            st.assume(n >= 0)
            return [(st, VInt(n))]
        if isinstance(v, VNoneT):
            self.raise_in(st, self.mk_exc("TypeError"))
            return []
        self.unsupported(node, f"len of {v!r}")

    def b_range(self, st, args, kwargs, node):
        cs = [a.const() if isinstance(a, VInt) else None for a in args]
        if all(c is not None for c in cs):
            return [(st, VTuple([VInt(i) for i in range(*cs)]))]
        if len(args) == 1:
            n = ops.int_term(args[0])
            return [(st, VSeq(z3.If(n < 0, z3.IntVal(0), n), lambda i: VInt(i), "int"))]
        if len(args) == 2:
            lo, hi = ops.int_term(args[0]), ops.int_term(args[1])
            return [(st, VSeq(z3.If(hi - lo < 0, z3.IntVal(0), hi - lo), lambda i, lo=lo: VInt(lo + i), "int"))]
        if len(args) == 3 and cs[2] is not None and cs[2] > 0:
            lo, hi, k = ops.int_term(args[0]), ops.int_term(args[1]), cs[2]
            n = z3.If(hi - lo <= 0, z3.IntVal(0), (hi - lo + (k - 1)) / k)
            return [(st, VSeq(n, lambda i, lo=lo, k=k: VInt(lo + k * i), "int"))]
        self.unsupported(node, "range with symbolic step")

    def b_getattr(self, st, args, kwargs, node):
        name = args[1].const() if isinstance(args[1], VStr) else None
        if name is None:
            return self.havoc_call(st, "getattr", args, node)
        obj = args[0]
        if isinstance(obj, VExt) and len(args) == 3:
            if (obj.sort, name) not in self.reg.attr_models and (obj.sort, name) not in self.reg.method_models:
                return self.havoc_call(st, f"getattr {obj.sort}.{name}", args, node)
        mark = len(self.sinks[-1])
        res = self.get_attr(st, obj, name, node)
        if len(args) == 3:
            # default swallows AttributeError only
            for (es, exc) in self.sinks[-1][mark:]:
                pass
        return res

    def b_callable(self, st, args, kwargs, node):
        v = args[0]
        if isinstance(v, (VFunc, VType)):
            return [(st, VBool(True))]
        if isinstance(v, VUnk):
            return [(st, VBool(z3.Bool(fresh_name("callable"))))]
        return [(st, VBool(False))]

    def b_isinstance(self, st, args, kwargs, node):
        v, t = args
        types = [x.name for x in (t.items if isinstance(t, VTuple) else [t]) if isinstance(x, VType)]
        if isinstance(v, VExc):
            return [(st, VBool(z3.Or([self.uni.subclass_term(v.tidx, c) for c in types if self.uni.known(c)] + [z3.BoolVal(False)])))]
        kindmap = {VInt: {"int"}, VBool: {"bool", "int"}, VStr: {"str"}, VBytes: {"bytes"}, VReal: {"float"},
                   VTuple: {"tuple"}, VNoneT: set()}
        for cls, names in kindmap.items():
            if isinstance(v, cls):
                return [(st, VBool(bool(names & set(types))))]
        if isinstance(v, VRef):
            o = st.obj(v.ref)
            if o.kind == "list":
                return [(st, VBool("list" in types))]
            if o.kind == "dict":
                return [(st, VBool("dict" in types))]
            if o.kind == "bytearray":
                return [(st, VBool("bytearray" in types))]
            if o.kind == "obj":
                return [(st, VBool(o.cls in types))]
        return [(st, VBool(z3.Bool(fresh_name("isinstance"))))]

    def b_bool(self, st, args, kwargs, node):
        return [(st, self.truth(st, args[0]))]

    def b_min(self, st, args, kwargs, node):
        return self._minmax(st, args, kwargs, node, True)

    def b_max(self, st, args, kwargs, node):
        return self._minmax(st, args, kwargs, node, False)

    def _minmax(self, st, args, kwargs, node, is_min):
        items = args if len(args) > 1 else self.concrete_items(st, args[0])
        if items is None:
            return self.havoc_call(st, "min/max", args, node)
        if not items:
            if "default" in kwargs:
                return [(st, kwargs["default"])]
            self.raise_in(st, self.mk_exc("ValueError"))
            return []
        acc = items[0]
        for x in items[1:]:
            c = ops.pure_compare("Lt" if is_min else "Gt", x, acc)
            acc = ops.same_shape_ite(c.t, x, acc)
        return [(st, acc)]

    def b_abs(self, st, args, kwargs, node):
        v = args[0]
        if isinstance(v, VInt):
            t = ops.int_term(v)
            return [(st, VInt(z3.If(t < 0, -t, t)))]
        return self.havoc_call(st, "abs", args, node)

    def b_sum(self, st, args, kwargs, node):
        items = self.concrete_items(st, args[0])
        if items is None:
            return self.havoc_call(st, "sum", args, node)
        acc = args[1] if len(args) > 1 else VInt(0)
        for x in items:
            acc = ops.pure_binop("Add", acc, x)
        return [(st, acc)]

    def b_next(self, st, args, kwargs, node):
        """next(<generator expression>[, default]): generator expressions are evaluated eagerly (one path per filter outcome), so the
        first kept element is the answer.  Only for a generator-expression argument (a named iterator would need position state)."""
        if node.args and isinstance(node.args[0], ast.GeneratorExp) and isinstance(args[0], VTuple):
            if args[0].items:
                return [(st, args[0].items[0])]
            if len(args) > 1:
                return [(st, args[1])]
            if self.uni.known("StopIteration"):
                self.raise_in(st, self.mk_exc("StopIteration"))
                return []
        return self.havoc_call(st, "next", args, node)

    def b_any(self, st, args, kwargs, node):
        items = self.concrete_items(st, args[0])
        if items is None:
            return self.havoc_call(st, "any", args, node)
        return [(st, VBool(z3.Or([self.truth(st, x).t for x in items] + [z3.BoolVal(False)])))]

    def b_all(self, st, args, kwargs, node):
        items = self.concrete_items(st, args[0])
        if items is None:
            return self.havoc_call(st, "all", args, node)
        return [(st, VBool(z3.And([self.truth(st, x).t for x in items] + [z3.BoolVal(True)])))]

    def b_zip(self, st, args, kwargs, node):
        lists = [self.concrete_items(st, a) for a in args]
        if any(l is None for l in lists):
            if all(isinstance(a, VSeq) or l is not None for a, l in zip(args, lists)):
                # zip of symbolic sequences: length = min
                views = []
                for a, l in zip(args, lists):
                    if l is not None:
                        views.append((z3.IntVal(len(l)), (lambda i, l=l: self._sel_concrete(l, i))))
                    else:
                        views.append((a.length, a.elem))
                n = views[0][0]
                for (m, _e) in views[1:]:
                    n = z3.If(m < n, m, n)
                return [(st, VSeq(n, lambda i: VTuple([e(i) for (_m, e) in views]), "tuple"))]
            return self.havoc_call(st, "zip", args, node)
        return [(st, VTuple([VTuple(t) for t in zip(*lists)]))]

    def _sel_concrete(self, items, i):
        acc = items[-1]
        for k in range(len(items) - 2, -1, -1):
            acc = ops.same_shape_ite(i == k, items[k], acc)
        return acc

    def b_enumerate(self, st, args, kwargs, node):
        start = kwargs.get("start", args[1] if len(args) > 1 else VInt(0))
        items = self.concrete_items(st, args[0])
        if items is not None:
            s0 = start.const()
            if s0 is not None:
                return [(st, VTuple([VTuple([VInt(s0 + i), x]) for i, x in enumerate(items)]))]
        if isinstance(args[0], VSeq):
            seq = args[0]
            s0 = ops.int_term(start)
            return [(st, VSeq(seq.length, lambda i: VTuple([VInt(s0 + i), seq.elem(i)]), "tuple"))]
        return self.havoc_call(st, "enumerate", args, node)

    def b_reversed(self, st, args, kwargs, node):
        items = self.concrete_items(st, args[0])
        if items is None:
            return self.havoc_call(st, "reversed", args, node)
        return [(st, VTuple(list(reversed(items))))]

    def b_sorted(self, st, args, kwargs, node):
        items = self.concrete_items(st, args[0])
        if items is not None and not kwargs:
            consts = [self.py_const(x) for x in items]
            try:
                if all(isinstance(c, (int, str)) for c in consts):
                    return [(st, self.new_list(st, [ops.lift(c) for c in sorted(consts)]))]
            except TypeError:
                pass
        return self.havoc_call(st, "sorted", args, node)

    def b_chr(self, st, args, kwargs, node):
        v = args[0]
        if isinstance(v, VInt):
            t = ops.int_term(v)
            st = self.fork_raise(st, z3.Or(t < 0, t > 0x10FFFF), "ValueError")
            if st is None:
                return []
            c = v.const()
            if c is not None:
                return [(st, VStr(chr(c)))]
            return [(st, VStr(z3.StrFromCode(t)))]
        return self.havoc_call(st, "chr", args, node)

    def b_ord(self, st, args, kwargs, node):
        v = args[0]
        if isinstance(v, VStr):
            st = self.fork_raise(st, z3.Length(v.t) != 1, "TypeError")
            if st is None:
                return []
            return [(st, VInt(z3.StrToCode(v.t)))]
        return self.havoc_call(st, "ord", args, node)

    def b_print(self, st, args, kwargs, node):
        st.ghost["prints"] = st.ghost.get("prints", ()) + ((tuple(args), kwargs.get("file")),)
        return [(st, NONE)]

    def b_hasattr(self, st, args, kwargs, node):
        return [(st, VBool(z3.Bool(fresh_name("hasattr"))))]

    def b_id(self, st, args, kwargs, node):
        st.ghost["nondet"] = st.ghost.get("nondet", ()) + (f"{self.loc(node)} id()",)
        return [(st, VInt(z3.Int(fresh_name("id"))))]

    # -------------------------------------------------------------- methods --
    def call_method(self, st, obj, name, args, kwargs, node):
        if isinstance(obj, VStr):
            return self.str_method(st, obj, name, args, kwargs, node)
        if isinstance(obj, VExt):
            m = self.reg.method_models.get((obj.sort, name))
            if isinstance(m, FnContract):
                return self.apply_contract(st, m, [obj] + list(args), kwargs, node)
            if m is not None:
                return m(self, st, obj, args, kwargs, node)
            return self.havoc_call(st, f"{obj.sort}.{name}", args, node)
        if isinstance(obj, (VDictC,)):
            return self.dict_method(st, obj, obj.items, name, args, kwargs, node, const=True)
        if isinstance(obj, VRef):
            o = st.obj(obj.ref)
            if o.kind in ("list", "bytearray"):
                return self.list_method(st, obj, name, args, kwargs, node)
            if o.kind == "dict":
                return self.dict_method(st, obj, o.data, name, args, kwargs, node, const=False)
            if o.kind == "obj":
                return self.obj_method(st, obj, name, args, kwargs, node)
            return self.havoc_call(st, f"unknown.{name}", [obj] + list(args), node)
        if isinstance(obj, (VTuple, VBytes)):
            if name == "index" or name == "count":
                return self.havoc_call(st, name, args, node)
            if isinstance(obj, VBytes):
                return self.bytes_method(st, obj, name, args, kwargs, node)
        if isinstance(obj, VSeq):
            h = self.reg.method_models.get(("seq", name))
            if h is not None:
                return h(self, st, obj, args, kwargs, node)
            return self.havoc_call(st, f"seq.{name}", args, node)
        if isinstance(obj, VUnk):
            return self.havoc_call(st, f"unknown.{name}", args, node)
        if isinstance(obj, VNoneT):
            self.raise_in(st, self.mk_exc("AttributeError"))
            return []
        if isinstance(obj, VSetC):
            return self.havoc_call(st, f"set.{name}", args, node)
        self.unsupported(node, f"method {name} on {obj!r}")

    def bytes_method(self, st, obj, name, args, kwargs, node):
        return self.havoc_call(st, f"bytes.{name}", args, node)

    def obj_method(self, st, obj, name, args, kwargs, node):
        o = st.obj(obj.ref)
        # method of a repo class defined in this module
        q = f"{o.cls}.{name}"
        target = f"{self.module.rel}::{q}"
        c = self.reg.get(target)
        if c is not None and not c.inline:
            return self.apply_contract(st, c, [obj] + list(args), kwargs, node)
        fnode = self.module.functions.get(q)
        if fnode is not None:
            decos = [ast.unparse(d) for d in fnode.decorator_list]
            env = self.bind_params(fnode, args, kwargs, node, self_val=None if "staticmethod" in decos else obj)
            return self.run_body(st, fnode, env, None)
        return self.havoc_call(st, f"{o.cls}.{name}", [obj] + list(args), node)

    def list_method(self, st, obj, name, args, kwargs, node):
        o = st.obj(obj.ref)
        if name == "append":
            self.note_store(st, obj.ref, node)
            st.wobj(obj.ref).data.append(args[0])
            return [(st, NONE)]
        if name == "extend":
            items = self.concrete_items(st, args[0])
            if items is None:
                self.note_store(st, obj.ref, node)
                st.heap[obj.ref] = HeapObj("unk", None, None, o.fresh)
                return [(st, NONE)]
            self.note_store(st, obj.ref, node)
            st.wobj(obj.ref).data.extend(items)
            return [(st, NONE)]
        if name == "pop":
            if not o.data:
                self.raise_in(st, self.mk_exc("IndexError"))
                return []
            self.note_store(st, obj.ref, node)
            w = st.wobj(obj.ref)
            if args:
                k = args[0].const()
                if k is None:
                    self.unsupported(node, "pop(symbolic)")
                return [(st, w.data.pop(k))]
            return [(st, w.data.pop())]
        if name == "copy":
            return [(st, self.new_list(st, o.data, o.kind))]
        if name == "insert":
            k = args[0].const()
            if k is None:
                self.unsupported(node, "insert(symbolic)")
            self.note_store(st, obj.ref, node)
            st.wobj(obj.ref).data.insert(k, args[1])
            return [(st, NONE)]
        if name == "clear":
            self.note_store(st, obj.ref, node)
            st.wobj(obj.ref).data = []
            return [(st, NONE)]
        return self.havoc_call(st, f"list.{name}", [obj] + list(args), node)

    def dict_method(self, st, obj, mapping, name, args, kwargs, node, const):
        if name == "get":
            default = args[1] if len(args) > 1 else NONE
            return self.dict_lookup(st, mapping, args[0], node, default=default, have_default=True)
        if name == "items":
            return [(st, VTuple([VTuple([ops.lift(k), v]) for k, v in mapping.items()]))]
        if name == "keys":
            return [(st, VTuple([ops.lift(k) for k in mapping]))]
        if name == "values":
            return [(st, VTuple(list(mapping.values())))]
        if not const and name == "setdefault":
            c = self.py_const(args[0])
            if c is not ops and c in mapping:
                return [(st, mapping[c])]
        return self.havoc_call(st, f"dict.{name}", ([obj] if not const else []) + list(args), node)

    def _dict_from_args(self, st, args, kwargs):
        """dict(mapping_or_pairs, **kw) with concrete keys: a constant table / a dict with concrete keys / a concrete
        sequence of (key, value) pairs (e.g. zip of two tuples), then keyword entries.  None = not in this fragment."""
        from .exprs import _NC
        d = {}
        if len(args) > 1:
            return None
        if args:
            a = args[0]
            if isinstance(a, VDictC):
                d.update(a.items)
            elif isinstance(a, VRef) and st.obj(a.ref).kind == "dict" and st.obj(a.ref).data is not None:
                d.update(st.obj(a.ref).data)
            else:
                items = self.concrete_items(st, a)
                if items is None:
                    return None
                for it in items:
                    pair = it.items if isinstance(it, VTuple) else self.concrete_items(st, it)
                    if pair is None or len(pair) != 2:
                        return None
                    k = self.py_const(pair[0])
                    if k is _NC:
                        return None
                    d[k] = pair[1]
        for k, v in (kwargs or {}).items():
            d[k] = v
        return d

    # --------------------------------------------------------- str methods --
    def opaque_str(self, st, what, node):
        """A string the engine has no model for: fresh, and (exact mode) the path is tagged so that a VC failing because of it is
        `unknown`, not refuted."""
        if not self.abstract:
            st.assume(z3.Bool(f"__havoc__@{self.loc(node)} str.{what}"[:120]))
        return VStr(z3.String(fresh_name(what)))

    def format_template(self, st, template, args, kwargs):
        """'lit{}lit{0}{name}'.format(...) with plain fields and str / int arguments -> concatenation (as for f-strings)."""
        import string
        if template is None:
            return None
        try:
            fields = list(string.Formatter().parse(template))
        except ValueError:
            return None
        acc = z3.StringVal("")
        auto = 0
        for lit, field, spec, conv in fields:
            if lit:
                acc = z3.Concat(acc, z3.StringVal(lit))
            if field is None:
                continue
            if spec or conv:
                return None
            if field == "":
                key, auto = auto, auto + 1
            elif field.isdigit():
                key = int(field)
            elif field.isidentifier():
                key = field
            else:
                return None
            v = (args[key] if isinstance(key, int) and key < len(args) else kwargs.get(key)) if not isinstance(key, str) or key in kwargs else None
            if isinstance(key, str):
                v = kwargs.get(key)
            if v is None or (isinstance(v, VInt) and v.is_bv):
                return None
            acc = z3.Concat(acc, self.to_str(st, v).t)          # same conversion as the f-string replacement field `{v}`
        return VStr(z3.simplify(acc))

    def percent_template(self, st, template, arg):
        """'lit%slit%d' % (a, b) with str / int arguments -> concatenation."""
        import re as _re
        if template is None:
            return None
        items = arg.items if isinstance(arg, VTuple) else [arg]
        parts = _re.split(r"(%[sd%])", template)
        if any("%" in p for p in parts[0::2]):
            return None
        acc = z3.StringVal("")
        k = 0
        for i, p in enumerate(parts):
            if i % 2 == 0:
                if p:
                    acc = z3.Concat(acc, z3.StringVal(p))
                continue
            if p == "%%":
                acc = z3.Concat(acc, z3.StringVal("%"))
                continue
            if k >= len(items):
                return None
            v = items[k]
            k += 1
            if p == "%d" and not isinstance(v, VInt):
                return None
            if not isinstance(v, (VStr, VInt)) or (isinstance(v, VInt) and v.is_bv):
                return None
            acc = z3.Concat(acc, self.to_str(st, v).t)
        if k != len(items):
            return None
        return VStr(z3.simplify(acc))

    def str_method(self, st, s: VStr, name, args, kwargs, node):
        c = s.const()
        if name in ("lower", "upper", "strip", "lstrip", "rstrip", "casefold", "title", "capitalize"):
            if c is not None and not args:
                return [(st, VStr(getattr(c, name)()))]
            h = self.reg.ext_models.get(f"str.{name}")
            if h is not None:
                return h(self, st, [s] + list(args), kwargs, node)
            return [(st, VStr(z3.String(fresh_name(name))))]
        if name in ("startswith", "endswith"):
            a = args[0]
            cands = a.items if isinstance(a, VTuple) else [a]
            fn = z3.PrefixOf if name == "startswith" else z3.SuffixOf
            return [(st, VBool(z3.Or([fn(x.t, s.t) for x in cands] + [z3.BoolVal(False)])))]
        if name == "join":
            items = self.concrete_items(st, args[0])
            if items is None:
                h = self.reg.ext_models.get("str.join")
                if h is not None:
                    return h(self, st, [s] + list(args), kwargs, node)
                if isinstance(args[0], VUnk):
                    self.exc_any(st.fork(), f"{self.loc(node)} join(unknown)")
                return [(st, VStr(z3.String(fresh_name("join"))))]
            if not all(isinstance(x, VStr) for x in items):
                if any(isinstance(x, VUnk) for x in items):
                    self.exc_any(st.fork(), f"{self.loc(node)} join(unknown items)")
                    return [(st, VStr(z3.String(fresh_name("join"))))]
                self.raise_in(st, self.mk_exc("TypeError"))
                return []
            if not items:
                return [(st, VStr(""))]
            acc = items[0].t
            for x in items[1:]:
                acc = z3.Concat(acc, s.t, x.t)
            return [(st, VStr(acc))]
        if name == "format":
            r = self.format_template(st, c, args, kwargs)
            if r is not None:
                return [(st, r)]
            return [(st, self.opaque_str(st, "format", node))]
        if name == "replace" and len(args) == 2 and all(isinstance(a, VStr) for a in args):
            ca, cb = args[0].const(), args[1].const()
            if c is not None and ca is not None and cb is not None:
                return [(st, VStr(c.replace(ca, cb)))]
            h = self.reg.ext_models.get("str.replace")
            if h is not None:
                return h(self, st, [s] + list(args), kwargs, node)
            return [(st, VStr(z3.String(fresh_name("replace"))))]
        if name in ("isdigit", "isalpha", "isalnum", "isspace", "isupper", "islower"):
            if c is not None:
                return [(st, VBool(getattr(c, name)()))]
            return [(st, VBool(z3.Bool(fresh_name(name))))]
        if name == "find" and len(args) == 1 and isinstance(args[0], VStr):
            return [(st, VInt(z3.IndexOf(s.t, args[0].t, 0)))]
        if name == "encode":
            return self.havoc_call(st, "str.encode", args, node)
        if name in ("split", "rsplit", "splitlines", "partition", "rpartition"):
            if c is not None and all(isinstance(a, (VStr, VInt)) and a.const() is not None for a in args):
                r = getattr(c, name)(*[a.const() for a in args])
                if isinstance(r, tuple):
                    return [(st, VTuple([VStr(x) for x in r]))]
                return [(st, self.new_list(st, [VStr(x) for x in r]))]
            h = self.reg.ext_models.get(f"str.{name}")
            if h is not None:
                return h(self, st, [s] + list(args), kwargs, node)
            return [(st, VUnk(f"str.{name}"))]
        h = self.reg.ext_models.get(f"str.{name}")
        if h is not None:
            return h(self, st, [s] + list(args), kwargs, node)
        return [(st, VUnk(f"str.{name}"))]
