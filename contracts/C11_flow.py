"""C11 -- interprocedural dataflow obligations (back end `dataflow`): typestate "validated before any member access",
constructor policy, and propagation of the zip-bomb error, over the REAL package AST (re-read on every run).

Design rules (round 3):
* nothing is decided by the *name of a local*, the *text of a guard* or the *position of a statement in one function*:
  values are followed through local bindings, `with ... as`, helper functions and methods (summaries: "returns a validated
  handle", "validates parameter p", "returns validated bytes", "requires parameter p validated" pushed to the call sites),
  private same-module helpers are analysed in place of their call (expansion), so extracting / inlining a helper neither
  changes a verdict nor an obligation id;
* a must-analysis that fails to establish a fact proves nothing about the code, and even a recognised bad shape (no validator
  call precedes the access; a handler that converts the error) need not be reachable with a bomb: the verdict is `unknown` and
  the native event monitor of replay/C11.py decides (VIOLATION only with a reproduced input).  The one definite refutation is
  the breach of the stated constructor policy itself (a read-mode zipfile constructor outside the two sanctioned modules in a
  function that calls no validate_zipfile);
* an exception inside this module on changed input is reported as an `unknown` obligation, never as an engine error.
"""
import ast

from pyvc import loader
from pyvc.flow import MustFacts, Need, dotted, ground_obligation

EXT = "sharepoint2text/parsing/extractors/"
ZB = EXT + "util/zip_bomb.py"
ARCHIVE = EXT + "archive_extractor.py"
ALLOWED_ZIPFILE_CTOR = {ZB, ARCHIVE}
ZIP_CTORS = {"zipfile.ZipFile", "zipfile.PyZipFile", "zipfile.Path"}
UNPACKERS = {"shutil.unpack_archive"}
MEMBER_ACCESS = {"read", "open", "extract", "extractall", "testzip"}     # ZipFile methods that decompress members
OPENERS = {"load_workbook", "ExcelReader"}                                 # openpyxl entry points that open the container themselves
ZBERR = "ExtractionZipBombError"
SANCTIONED = {"open_zipfile", "validate_zip_bytesio", "validate_zipfile"}  # zip_bomb functions under a verified contract


def is_private(name):
    name = name.split(".")[-1]
    return name.startswith("_") and not (name.startswith("__") and name.endswith("__"))


_OWN = {}


def own_nodes(fn):
    """Nodes of a function body in source order, nested function / lambda / class bodies excluded."""
    hit = _OWN.get(id(fn))
    if hit is not None and hit[0] is fn:
        return hit[1]
    out = _own_nodes(fn)
    _OWN[id(fn)] = (fn, out)
    return out


def _own_nodes(fn):
    out, stack = [], list(reversed(fn.body))
    while stack:
        n = stack.pop()
        out.append(n)
        kids = [ch for ch in ast.iter_child_nodes(n)
                if not isinstance(ch, (ast.FunctionDef, ast.AsyncFunctionDef, ast.Lambda, ast.ClassDef))]
        stack.extend(reversed(kids))
    return out


def params_of(fn):
    a = fn.args
    return [x.arg for x in a.posonlyargs + a.args] + [x.arg for x in a.kwonlyargs]


def arg_for_param(fn, call, pname, bound_method=False):
    """Expression a call passes for parameter `pname` (None if not passed / not determinable)."""
    for kw in call.keywords:
        if kw.arg == pname:
            return kw.value
    pos = [x.arg for x in fn.args.posonlyargs + fn.args.args]
    if bound_method and pos and pos[0] in ("self", "cls"):
        pos = pos[1:]
    if pname in pos:
        k = pos.index(pname)
        if k < len(call.args) and not any(isinstance(a, ast.Starred) for a in call.args[:k + 1]):
            return call.args[k]
    return None


class Pkg:
    """The package as a set of parsed modules with name / call resolution."""

    def __init__(self, repo):
        self.repo = repo
        self.files = [f for f in loader.all_package_files(repo) if "/tests/" not in f]
        self.mods = {}
        for f in self.files:
            try:
                self.mods[f] = loader.module(f, repo)
            except SyntaxError:
                continue
        self.by_modpath = {}
        for f in self.mods:
            mp = f[:-3].replace("/", ".")
            self.by_modpath[mp] = f
            if mp.endswith(".__init__"):
                self.by_modpath[mp[:-len(".__init__")]] = f
        self._bind_cache = {}
        self._mf_cache = {}
        self.imports = {f: self._import_table(f, m) for f, m in self.mods.items()}

    @staticmethod
    def _import_table(f, m):
        """local name -> dotted origin, relative imports resolved against the file's package (`from . import zip_bomb`,
        `from .zip_bomb import open_zipfile`, `from ..util import zip_bomb as zb`)."""
        pkg_parts = f[:-3].split("/")[:-1]
        out = {}
        for node in ast.walk(m.tree):
            if isinstance(node, ast.Import):
                for a in node.names:
                    out[a.asname or a.name.split(".")[0]] = a.name if a.asname else a.name.split(".")[0]
            elif isinstance(node, ast.ImportFrom):
                if node.level:
                    base = pkg_parts[:len(pkg_parts) - (node.level - 1)] if node.level - 1 <= len(pkg_parts) else []
                    mod = ".".join(base + ([node.module] if node.module else []))
                else:
                    mod = node.module or ""
                for a in node.names:
                    out[a.asname or a.name] = f"{mod}.{a.name}" if mod else a.name
        return out

    # ---------------------------------------------------------------- names --
    def mod_file(self, modpath):
        """File of a dotted module path; a relative import (`from .zip_bomb import x` is recorded as `zip_bomb.x`) resolves
        when exactly one package module ends with that path."""
        if modpath in self.by_modpath:
            return self.by_modpath[modpath]
        if modpath not in self._mf_cache:
            cands = {f for mp, f in self.by_modpath.items() if mp.endswith("." + modpath)} if modpath else set()
            self._mf_cache[modpath] = next(iter(cands)) if len(cands) == 1 else None
        return self._mf_cache[modpath]

    def lookup(self, f, name, depth=0):
        m = self.mods.get(f)
        if m is None or depth > 4:
            return None
        if name in m.functions:
            return ("fn", (f, name))
        if name in m.classes:
            return ("class", (f, name))
        origin = self.imports[f].get(name)
        if origin and "." in origin:
            modpath, _, nm = origin.rpartition(".")
            f2 = self.mod_file(modpath)
            if f2 is not None and f2 != f:
                return self.lookup(f2, nm, depth + 1)
        return None

    def canonical(self, f, expr):
        """Dotted origin of a name / attribute chain through the module's import table ('' if not a plain chain)."""
        d = dotted(expr)
        if not d:
            return ""
        head, _, rest = d.partition(".")
        origin = self.imports[f].get(head)
        if origin:
            return origin + ("." + rest if rest else "")
        return d

    def enclosing_class(self, f, q):
        parts = q.split(".")
        for k in range(len(parts) - 1, 0, -1):
            c = ".".join(parts[:k])
            if c in self.mods[f].classes:
                return c
        return None

    def bases(self, cref):
        f, cname = cref
        c = self.mods[f].classes.get(cname)
        out = []
        for b in (c.bases if c is not None else []):
            r = self.resolve_expr(f, b)
            if r and r[0] == "class":
                out.append(r[1])
        return out

    def resolve_expr(self, f, e):
        if isinstance(e, ast.Name):
            return self.lookup(f, e.id)
        d = dotted(e)
        if d:
            head, _, rest = d.partition(".")
            origin = self.imports[f].get(head)
            if origin:
                full = origin + "." + rest
                modpath, _, nm = full.rpartition(".")
                f2 = self.mod_file(modpath)
                if f2 is not None:
                    return self.lookup(f2, nm)
            r = self.lookup(f, head)
            if r and r[0] == "class" and rest and "." not in rest:
                mm = self.mro_lookup(r[1], rest)
                if mm:
                    return ("fn", mm)
        return None

    def mro_lookup(self, cref, meth, seen=()):
        f, cname = cref
        if cref in seen:
            return None
        if f"{cname}.{meth}" in self.mods[f].functions:
            return (f, f"{cname}.{meth}")
        for b in self.bases(cref):
            r = self.mro_lookup(b, meth, seen + (cref,))
            if r:
                return r
        return None

    def family(self, roots):
        """Transitive subclasses (within the package) of the given classes."""
        fam = set(roots)
        changed = True
        while changed:
            changed = False
            for f, m in self.mods.items():
                for cname in m.classes:
                    if (f, cname) not in fam and any(b in fam for b in self.bases((f, cname))):
                        fam.add((f, cname))
                        changed = True
        return fam

    # ---------------------------------------------------------------- calls --
    def resolve_call(self, f, q, call):
        """("fn", (file, qual), bound) / ("class", (file, cname), False) of the definition a call refers to, or None."""
        m = self.mods[f]
        func = call.func
        cls = self.enclosing_class(f, q)
        if isinstance(func, ast.Name):
            parts = q.split(".")
            for k in range(len(parts), 0, -1):
                nested = ".".join(parts[:k]) + ".<locals>." + func.id
                if nested in m.functions:
                    return ("fn", (f, nested), False)
            r = self.lookup(f, func.id)
            return (r[0], r[1], False) if r else None
        if isinstance(func, ast.Attribute):
            v = func.value
            if isinstance(v, ast.Call) and dotted(v.func) == "super" and cls:
                for b in self.bases((f, cls)):
                    r = self.mro_lookup(b, func.attr)
                    if r:
                        return ("fn", r, True)
                return None
            if isinstance(v, ast.Name) and v.id in ("self", "cls") and cls:
                r = self.mro_lookup((f, cls), func.attr)
                return ("fn", r, True) if r else None
            r = self.resolve_expr(f, func)
            if r:
                return (r[0], r[1], False)
        return None

    def init_of(self, cref):
        return self.mro_lookup(cref, "__init__")

    def fn(self, fref):
        return self.mods[fref[0]].functions.get(fref[1])

    def all_functions(self):
        for f, m in self.mods.items():
            for q, node in m.functions.items():
                yield f, q, node

    def _index(self):
        if getattr(self, "_calls_by_name", None) is None:
            self._calls_by_name, self._value_names = {}, {}
            for f, q, node in self.all_functions():
                for n in own_nodes(node):
                    if isinstance(n, ast.Call):
                        nm = (dotted(n.func) or "").split(".")[-1]
                        if nm:
                            self._calls_by_name.setdefault(nm, []).append((f, q, n))
            for f, m in self.mods.items():
                callees = {id(n.func) for n in ast.walk(m.tree) if isinstance(n, ast.Call)}
                for n in ast.walk(m.tree):
                    if isinstance(n, ast.Name) and isinstance(n.ctx, ast.Load) and id(n) not in callees:
                        self._value_names.setdefault(n.id, set()).add(f)

    def call_sites(self, fref):
        """[(file, qual, call, bound)] of the calls in the package that resolve to function `fref`."""
        self._index()
        out = []
        for (f, q, n) in self._calls_by_name.get(fref[1].split(".")[-1], []):
            r = self.resolve_call(f, q, n)
            if r and r[0] == "fn" and r[1] == fref:
                out.append((f, q, n, r[2]))
        return out

    def referenced_as_value(self, fref):
        """Is the function mentioned other than as the callee of a call (callback, alias, table entry)?"""
        self._index()
        nm = fref[1].split(".")[-1]
        for f in self._value_names.get(nm, ()):
            r = self.lookup(f, nm)
            if r and r[1] == fref:
                return True
        return False

    # ------------------------------------------------------------- bindings --
    def bindings(self, fnode):
        """name -> [value expr] for every binding of a plain local (assignment, walrus, `with ... as`); a binding whose
        value is not an expression of its own (loop target, unpacking, import, except-as) is recorded as None."""
        key = id(fnode)
        if key in self._bind_cache:
            return self._bind_cache[key]
        b = {}

        def bind(t, v):
            if isinstance(t, ast.Name):
                b.setdefault(t.id, []).append(v)
            elif isinstance(t, (ast.Tuple, ast.List)):
                for k, e in enumerate(t.elts):
                    if isinstance(v, (ast.Tuple, ast.List)) and len(v.elts) == len(t.elts):
                        bind(e, v.elts[k])
                    else:
                        bind(e, None)
            elif isinstance(t, ast.Starred):
                bind(t.value, None)
        for n in own_nodes(fnode):
            if isinstance(n, ast.Assign):
                for t in n.targets:
                    bind(t, n.value)
            elif isinstance(n, ast.AnnAssign) and n.value is not None:
                bind(n.target, n.value)
            elif isinstance(n, ast.AugAssign):
                bind(n.target, None)
            elif isinstance(n, ast.NamedExpr):
                bind(n.target, n.value)
            elif isinstance(n, (ast.With, ast.AsyncWith)):
                for it in n.items:
                    if it.optional_vars is not None:
                        bind(it.optional_vars, it.context_expr)
            elif isinstance(n, (ast.For, ast.AsyncFor)):
                bind(n.target, None)
            elif isinstance(n, ast.ExceptHandler) and n.name:
                b.setdefault(n.name, []).append(None)
            elif isinstance(n, ast.comprehension):
                bind(n.target, None)
        self._bind_cache[key] = b
        return b


# =========================================================================================== handles ==
class Handles:
    """Classification of expressions that evaluate to a ZIP container handle:
    "validated" (produced by open_zipfile, or by a function / method all of whose returns are validated handles),
    "raw" (a zipfile constructor, or a function returning one), None (not known to be a handle)."""

    def __init__(self, pkg):
        self.pkg = pkg
        self._ret = {}

    def returns(self, fref, stack=()):
        if fref in self._ret:
            return self._ret[fref]
        if fref in stack or len(stack) > 8:
            return None
        node = self.pkg.fn(fref)
        res = None
        if node is not None:
            rets = [n for n in own_nodes(node) if isinstance(n, ast.Return) and n.value is not None
                    and not (isinstance(n.value, ast.Constant) and n.value.value is None)]
            kinds = [self.classify(fref[0], fref[1], r.value, stack + (fref,)) for r in rets]
            if kinds and all(k == "validated" for k in kinds):
                res = "validated"
            elif any(k == "raw" for k in kinds):
                res = "raw"
            elif any(k == "validated" for k in kinds):
                res = "mixed"
        if not stack:
            self._ret[fref] = res
        return res

    def classify(self, f, q, e, stack=(), seen=frozenset()):
        pkg = self.pkg
        if isinstance(e, ast.NamedExpr):
            return self.classify(f, q, e.value, stack, seen)
        if isinstance(e, ast.IfExp):
            a, b = self.classify(f, q, e.body, stack, seen), self.classify(f, q, e.orelse, stack, seen)
            return a if a == b else ("raw" if "raw" in (a, b) else None)
        if isinstance(e, ast.Call):
            c = pkg.canonical(f, e.func)
            if c in ZIP_CTORS:
                return "raw"
            r = pkg.resolve_call(f, q, e)
            if r and r[0] == "fn":
                if r[1] == (ZB, "open_zipfile"):
                    return "validated"
                k = self.returns(r[1], stack)
                return k if k in ("validated", "raw") else None
            if r and r[0] == "class":
                if any(pkg.canonical(cf, b) in ZIP_CTORS for (cf, cn) in _ancestors(pkg, r[1]) for b in pkg.mods[cf].classes[cn].bases):
                    return "raw"          # a package class derived from a zipfile container class
            return None
        if isinstance(e, ast.Name):
            node = pkg.fn((f, q))
            if node is None or (q, e.id) in seen:
                return None
            bs = pkg.bindings(node).get(e.id)
            if not bs or any(b is None for b in bs):
                return None
            kinds = {self.classify(f, q, b, stack, seen | {(q, e.id)}) for b in bs}
            if kinds == {"validated"}:
                return "validated"
            if "raw" in kinds:
                return "raw"
            return None
        if isinstance(e, ast.Attribute) and isinstance(e.value, ast.Name) and e.value.id == "self":
            cls = pkg.enclosing_class(f, q)
            if cls:
                return self.attr_kind((f, cls), e.attr)
        return None

    def attr_stores(self, cref):
        """{attr: [(file, qual, value expr)]} of `self.attr = value` over the class, its ancestors and its subclasses."""
        pkg = self.pkg
        out = {}
        group = set(_ancestors(pkg, cref)) | pkg.family({cref})
        for (cf, cn) in group:
            m = pkg.mods[cf]
            for q, node in m.functions.items():
                if pkg.enclosing_class(cf, q) != cn:
                    continue
                for n in own_nodes(node):
                    tv = []
                    if isinstance(n, ast.Assign):
                        tv = [(t, n.value) for t in n.targets]
                    elif isinstance(n, ast.AnnAssign) and n.value is not None:
                        tv = [(n.target, n.value)]
                    for t, v in tv:
                        if isinstance(t, ast.Attribute) and isinstance(t.value, ast.Name) and t.value.id == "self":
                            out.setdefault(t.attr, []).append((cf, q, v, n))
        return out

    def attr_kind(self, cref, attr, _seen=set()):
        key = (cref, attr)
        if key in _seen:
            return None
        _seen.add(key)
        try:
            stores = [x for x in self.attr_stores(cref).get(attr, []) if not (isinstance(x[2], ast.Constant) and x[2].value is None)]
            kinds = {self.classify(cf, q, v) for (cf, q, v, _n) in stores}
        finally:
            _seen.discard(key)
        if kinds == {"validated"}:
            return "validated"
        if "raw" in kinds:
            return "raw"
        return None


def _ancestors(pkg, cref, seen=()):
    out = [cref]
    for b in pkg.bases(cref):
        if b not in seen:
            out.extend(_ancestors(pkg, b, seen + (cref,)))
    return out


# ============================================================================== must analysis (pack-local) ==
class Must(MustFacts):
    """MustFacts plus: facts generated by a binding (after the kill of the bound name), facts at the normal exits, and
    in-place analysis of expandable callees (private same-module helpers / same-class private methods)."""

    def __init__(self, gen=None, need=None, kill_names=None, gen_bind=None, expand=None, export=None):
        super().__init__(gen=gen, need=need, kill_names=kill_names)
        self.gen_bind = gen_bind or (lambda target, value, facts: ())
        self.expand = expand or (lambda call: None)
        self.export = export or (lambda fact, callee: True)     # which facts of an expanded callee's exits hold for the caller
        self.exits = []
        self._depth = 0

    def _expr(self, e, facts):
        if e is None or facts is None:
            return facts
        nodes = [n for n in ast.walk(e) if isinstance(n, (ast.Call, ast.Yield, ast.YieldFrom, ast.Await))
                 and not self._inside_lambda(e, n)]
        nodes.sort(key=lambda n: (n.end_lineno, n.end_col_offset))
        for n in nodes:
            for (fact, desc) in self.need(n):
                nd = Need(n, fact, desc)
                nd.ok = fact in facts
                nd.facts = facts
                self.results.append(nd)
            if isinstance(n, ast.Call):
                callee = self.expand(n) if self._depth < 6 else None
                if callee is not None:
                    saved = self.exits
                    self.exits = []
                    self._depth += 1
                    out = self.block(callee.body, facts)
                    self._depth -= 1
                    outs = [x for (_s, x) in self.exits] + ([out] if out is not None else [])
                    self.exits = saved
                    if outs:
                        j = outs[0]
                        for o in outs[1:]:
                            j = j & o
                        facts = facts | frozenset(x for x in j if self.export(x, callee))
                facts = facts | frozenset(self.gen(n))
        return facts

    def stmt(self, s, facts):
        if isinstance(s, ast.Assign):
            facts = self._expr(s.value, facts)
            facts = self._kill(facts, s.targets)
            for t in s.targets:
                facts = facts | frozenset(self.gen_bind(t, s.value, facts))
            return facts
        if isinstance(s, ast.AnnAssign) and s.value is not None:
            facts = self._expr(s.value, facts)
            facts = self._kill(facts, [s.target])
            return facts | frozenset(self.gen_bind(s.target, s.value, facts))
        if isinstance(s, ast.Return):
            out = self._expr(s.value, facts)
            self.exits.append((s, out))
            return None
        if isinstance(s, (ast.With, ast.AsyncWith)):
            for it in s.items:
                facts = self._expr(it.context_expr, facts)
                if it.optional_vars is not None:
                    facts = self._kill(facts, [it.optional_vars])
                    facts = facts | frozenset(self.gen_bind(it.optional_vars, it.context_expr, facts))
            return self.block(s.body, facts)
        return super().stmt(s, facts)

    def run(self, fnode, entry_facts=()):
        self.results, self.exits = [], []
        out = self.block(fnode.body, frozenset(entry_facts))
        if out is not None:
            self.exits.append((None, out))
        return self.results


def expander(pkg, f, q):
    """expand(call) -> callee node for calls of private helpers of the same module (functions, same-family methods)."""
    def expand(call):
        r = pkg.resolve_call(f, q, call)
        if r and r[0] == "fn" and r[1][0] == f and is_private(r[1][1]) and r[1] != (f, q):
            return pkg.fn(r[1])
        return None
    return expand


# =============================================================================================== policy ==
def _unknown(oid, why, loc, kind="policy", hint="order"):
    o = ground_obligation(oid, False, why, loc, kind=kind, definite=False)
    o["replay_hint"] = {"family": hint}
    return o


def _obl(oid, ok, definite, detail, loc, kind="policy", hint="order"):
    o = ground_obligation(oid, ok, detail, loc, kind=kind, definite=definite)
    o["replay_hint"] = {"family": hint}
    return o


def _guard(oid, loc, fn, kind="policy"):
    try:
        return fn()
    except Exception as e:  # noqa -- a shape this analysis does not handle: the native monitor decides
        import traceback
        tb = traceback.extract_tb(e.__traceback__)[-1]
        return _unknown(oid, f"analysis does not handle this shape ({type(e).__name__}: {e} at {tb.name}:{tb.lineno})", loc, kind=kind)


def _validator_calls(pkg, H, f, q, node, fam_ctor):
    """Calls in `node` that validate some container -- validate_zipfile / open_zipfile / validate_zip_bytesio, a function
    returning a validated handle, a constructor of the ZipContext family -- or that reach one through private helpers of the
    module (the call of the helper is reported, so positions are positions in `node`)."""
    memo = {}

    def validates(f_, q_, fnode, depth):
        if id(fnode) in memo:
            return memo[id(fnode)]
        memo[id(fnode)] = False
        memo[id(fnode)] = any(is_val(f_, q_, n, depth) for n in own_nodes(fnode) if isinstance(n, ast.Call))
        return memo[id(fnode)]

    def is_val(f_, q_, n, depth):
        r = pkg.resolve_call(f_, q_, n)
        if not r:
            return False
        if r[0] == "fn":
            if (r[1][0] == ZB and r[1][1] in SANCTIONED) or H.returns(r[1]) == "validated":
                return True
            if r[1][0] == f_ and is_private(r[1][1]) and depth < 5:
                sub = pkg.fn(r[1])
                return sub is not None and validates(f_, r[1][1], sub, depth + 1)
            return False
        return r[0] == "class" and r[1] in fam_ctor
    return [n for n in own_nodes(node) if isinstance(n, ast.Call) and is_val(f, q, n, 0)]


def _in_loop(fnode, target):
    for n in own_nodes(fnode):
        if isinstance(n, (ast.For, ast.While, ast.AsyncFor)) and any(x is target for x in ast.walk(n)):
            return True
    return False


def holder_classes(pkg, H):
    """Classes that keep a container handle in an attribute: {(file, cname): {attr: kind}} for classes with a method that
    stores a handle-valued expression into `self.<attr>`."""
    out = {}
    for f, m in pkg.mods.items():
        for cname in m.classes:
            for q, node in m.functions.items():
                if pkg.enclosing_class(f, q) != cname:
                    continue
                for n in own_nodes(node):
                    tv = []
                    if isinstance(n, ast.Assign):
                        tv = [(t, n.value) for t in n.targets]
                    elif isinstance(n, ast.AnnAssign) and n.value is not None:
                        tv = [(n.target, n.value)]
                    for t, v in tv:
                        if isinstance(t, ast.Attribute) and isinstance(t.value, ast.Name) and t.value.id == "self":
                            k = H.classify(f, q, v)
                            if k in ("validated", "raw"):
                                out.setdefault((f, cname), {})[t.attr] = k
    return out


def policy(repo, tier):
    pkg = Pkg(repo)
    H = Handles(pkg)
    obls, fns = [], []
    holders = holder_classes(pkg, H)
    roots = {c for c in holders if not any(a in holders for a in _ancestors(pkg, c)[1:])}
    fam = pkg.family(roots) if roots else set()

    # ---- P1: containers are constructed only in the guard module and the archive extractor --------------------------
    def p1():
        bad, soft, n_sites, targets = [], [], 0, []
        zb_fns = set(pkg.mods[ZB].functions) if ZB in pkg.mods else set()
        leaky = {nm for nm in zb_fns if nm not in SANCTIONED and H.returns((ZB, nm)) in ("raw", "mixed")}
        for f, m in pkg.mods.items():
            nodes = list(ast.walk(m.tree))
            if f not in ALLOWED_ZIPFILE_CTOR and not any(w in m.source for w in ("zipfile", "unpack_archive", "zip_bomb")):
                continue          # the module text mentions neither zipfile / unpack_archive nor the guard module
            ann = set()
            for n in nodes:
                anns = []
                if isinstance(n, (ast.arg, ast.AnnAssign)) and n.annotation is not None:
                    anns.append(n.annotation)
                if isinstance(n, (ast.FunctionDef, ast.AsyncFunctionDef)) and n.returns is not None:
                    anns.append(n.returns)
                for a_ in anns:
                    ann |= {id(x) for x in ast.walk(a_)}
            callee_ids = {id(n.func) for n in nodes if isinstance(n, ast.Call)}
            inner = {id(n.value) for n in nodes if isinstance(n, ast.Attribute)}     # not the head of a longer chain
            zb_names = {nm for nm, origin in pkg.imports[f].items() if pkg.mod_file(origin) == ZB}
            for n in nodes:
                if isinstance(n, ast.Call):
                    c = pkg.canonical(f, n.func)
                    if c in ZIP_CTORS or c in UNPACKERS:
                        mode = n.args[1] if len(n.args) > 1 else next((k.value for k in n.keywords if k.arg == "mode"), None)
                        if c in ZIP_CTORS and isinstance(mode, ast.Constant) and mode.value in ("w", "x", "a"):
                            continue          # a container being written, not a document being read
                        n_sites += 1
                        if f not in ALLOWED_ZIPFILE_CTOR:
                            v = _local_validation(pkg, H, f, n) if c in ZIP_CTORS else "bad"
                            if v != "ok":
                                (bad if v == "bad" else soft).append(f"{f}:{n.lineno} {c}")
                                targets.extend([f, q] for q, fnode in m.functions.items() if any(x is n for x in own_nodes(fnode)))
                elif isinstance(n, (ast.Name, ast.Attribute)) and f not in ALLOWED_ZIPFILE_CTOR and id(n) not in callee_ids \
                        and id(n) not in ann and id(n) not in inner and isinstance(getattr(n, "ctx", None), ast.Load):
                    if pkg.canonical(f, n) in ZIP_CTORS and _parent_call_name(m.tree, n) not in ("isinstance", "issubclass"):
                        soft.append(f"{f}:{n.lineno} {pkg.canonical(f, n)} used as a value")
                if isinstance(n, ast.ClassDef) and f not in ALLOWED_ZIPFILE_CTOR and any(pkg.canonical(f, b) in ZIP_CTORS for b in n.bases):
                    soft.append(f"{f}:{n.lineno} class {n.name} derives from a zipfile container class")
                # P1b: a function of the guard module that hands out an unvalidated container stays private to that module
                if f != ZB and leaky:
                    if isinstance(n, ast.ImportFrom) and any(a_.name in leaky for a_ in n.names) \
                            and pkg.mod_file(n.module or "") == ZB:
                        soft.append(f"{f}:{n.lineno} imports {[a_.name for a_ in n.names if a_.name in leaky]}: returns an unvalidated container")
                    if isinstance(n, ast.Attribute) and n.attr in leaky and isinstance(n.value, ast.Name) and n.value.id in zb_names:
                        soft.append(f"{f}:{n.lineno} uses {n.attr}, which returns an unvalidated container")
        detail = "; ".join(bad + soft) or f"{n_sites} sites"
        if bad:
            # the stated policy itself is breached (a read-mode constructor outside the two modules, no validate_zipfile call in
            # the constructing function): definite; the replayer additionally drives the constructing function under the monitor
            o = _obl(oid1, False, True, detail, "package")
        elif soft or n_sites < 1:
            o = _unknown(oid1, detail, "package")
        else:
            o = _obl(oid1, True, True, detail, "package")
        o["replay_hint"]["targets"] = targets[:6]
        return o
    oid1 = "C11/package/policy#zipfile-constructed-only-in-guard-and-archive-modules"
    obls.append(_guard(oid1, "package", p1))

    # ---- P2: the handle a context object keeps comes from open_zipfile, before any access ---------------------------
    oid2 = "C11/zip_context.py::ZipContext/typestate#handle-from-open_zipfile-before-any-access"

    def p2():
        if not roots:
            return _unknown(oid2, "no class that stores a container handle in an attribute was recognised", "zip_context.py", "typestate")
        bad, soft, n_ok = [], [], 0
        for cref in sorted(roots):
            attrs = set(holders[cref])
            stores = H.attr_stores(cref)
            for attr in sorted(attrs):
                for (cf, q, v, stmt) in stores.get(attr, []):
                    if isinstance(v, ast.Constant) and v.value is None:
                        continue          # dropping the handle (close / reset) stores no container
                    k = H.classify(cf, q, v)
                    if k == "validated":
                        n_ok += 1
                    elif k == "raw":
                        node = pkg.fn((cf, q))
                        vals = _validator_calls(pkg, H, cf, q, node, fam)
                        (soft if vals else bad).append(f"{cf}:{stmt.lineno} {q}: self.{attr} = {ast.unparse(v)[:60]} (unvalidated container)")
                    else:
                        soft.append(f"{cf}:{stmt.lineno} {q}: self.{attr} = {ast.unparse(v)[:60]} (origin not recognised)")
            # within __init__ (private methods expanded): no use of the handle before it is stored
            init = pkg.mro_lookup(cref, "__init__")
            if init is not None and init[0] == cref[0]:
                f, q = init
                users = _handle_users(pkg, cref, attrs)

                exp = expander(pkg, f, q)

                def need(n, attrs=attrs, users=users, exp=exp):
                    if not isinstance(n, ast.Call):
                        return []
                    out = []
                    for a_ in sorted(attrs):
                        direct = any(isinstance(x, ast.Attribute) and x.attr == a_ and isinstance(x.value, ast.Name) and x.value.id == "self"
                                     and isinstance(x.ctx, ast.Load) for x in ast.walk(n))
                        via = isinstance(n.func, ast.Attribute) and isinstance(n.func.value, ast.Name) and n.func.value.id == "self" \
                            and (n.func.attr, a_) in users and exp(n) is None
                        if direct or via:
                            out.append((("stored", a_), f"line {n.lineno}"))
                    return out

                def gen_bind(t, v, facts):
                    if isinstance(t, ast.Attribute) and isinstance(t.value, ast.Name) and t.value.id == "self" and t.attr in attrs:
                        return [("stored", t.attr)]
                    return []
                mf = Must(need=need, gen_bind=gen_bind, expand=exp)
                for r in mf.run(pkg.fn(init)):
                    if not r.ok:
                        soft.append(f"{f}: the handle self.{r.fact[1]} is used at {r.desc} of {q} before it is stored")
                fns.append(dict(pkg.mods[f].fn_info(q), obligations=1))
        detail = "; ".join(bad + soft) or f"{n_ok} store(s) of a validated handle in {sorted(c[1] for c in roots)}"
        if bad:
            return _unknown(oid2, "recognised bad shape: " + detail, "zip_context.py", "typestate")
        if soft or n_ok < 1:
            return _unknown(oid2, detail, "zip_context.py", "typestate")
        return _obl(oid2, True, True, detail, "zip_context.py", "typestate")
    obls.append(_guard(oid2, "zip_context.py", p2, "typestate"))

    # ---- P3: subclasses initialise through the validated base before they touch the container -----------------------
    oid3 = "C11/package/typestate#ZipContext-subclasses-initialise-through-validated-base"

    def p3():
        subs = sorted(c for c in fam if c not in roots)
        bad, soft = [], []
        for cref in subs:
            f, cname = cref
            base_attrs = set()
            for a in _ancestors(pkg, cref):
                base_attrs |= set(holders.get(a, {}))
            users = _handle_users(pkg, cref, base_attrs)
            q = f"{cname}.__init__"
            init = pkg.mods[f].functions.get(q)
            if init is None:
                continue

            def is_base_init(call, f=f, q=q, cref=cref):
                r = pkg.resolve_call(f, q, call)
                return bool(r and r[0] == "fn" and r[1][1].endswith(".__init__") and
                            any(r[1] == pkg.mro_lookup(a, "__init__") for a in _ancestors(pkg, cref)[1:]))

            exp = expander(pkg, f, q)

            def need(n, base_attrs=base_attrs, users=users, exp=exp, cname=cname):
                if not isinstance(n, ast.Call):
                    return []
                direct = any(isinstance(x, ast.Attribute) and x.attr in base_attrs and isinstance(x.value, ast.Name) and x.value.id == "self"
                             and isinstance(x.ctx, ast.Load) for x in ast.walk(n))
                via = isinstance(n.func, ast.Attribute) and isinstance(n.func.value, ast.Name) and n.func.value.id == "self" \
                    and any((n.func.attr, a_) in users for a_ in base_attrs) and exp(n) is None
                return [("base-init", f"{cname} line {n.lineno}")] if direct or via else []
            mf = Must(gen=lambda call, g=is_base_init: ["base-init"] if g(call) else [], need=need, expand=exp)
            res = mf.run(init)
            has_base = any(is_base_init(n) for n in _expanded_calls(pkg, f, q, init))
            if not has_base:
                soft.append(f"{f}:{cname}.__init__: no call of the base initialiser recognised")
            for r in res:
                if not r.ok:
                    soft.append(f"{f}:{r.desc} uses the container before the base initialiser ran")
        detail = "; ".join(bad + soft) or f"{len(subs)} subclasses: {sorted(c[1] for c in subs)}"
        if bad:
            return _unknown(oid3, "recognised bad shape: " + detail, "package", "typestate")
        if soft or len(subs) < 1:
            return _unknown(oid3, detail, "package", "typestate")
        return _obl(oid3, True, True, detail, "package", "typestate")
    obls.append(_guard(oid3, "package", p3, "typestate"))

    # ---- P4: openpyxl opens only bytes that passed the guard ---------------------------------------------------------
    oid4 = "C11/xlsx_extractor.py::load_workbook/typestate#validated-before-openpyxl-reads"
    obls.append(_guard(oid4, "xlsx_extractor.py", lambda: payload_obligation(pkg, H, fam, oid4), "typestate"))

    # ---- P5: the ODF encryption probe reads the manifest through a validated handle -----------------------------------
    oid5 = "C11/encryption.py::is_odf_encrypted/typestate#manifest-read-through-open_zipfile"

    def p5():
        found = [(f, q) for f, q, _n in pkg.all_functions() if q == "is_odf_encrypted"]
        if not found:
            return _unknown(oid5, "is_odf_encrypted not found", "encryption.py", "typestate")
        f, q = found[0]
        fns.append(dict(pkg.mods[f].fn_info(q), obligations=1))
        n_ok, bad, soft = 0, [], []
        todo, seen = [(f, q)], set()
        while todo:
            cf, cq = todo.pop()
            if (cf, cq) in seen:
                continue
            seen.add((cf, cq))
            node = pkg.fn((cf, cq))
            for n in own_nodes(node):
                if not isinstance(n, ast.Call):
                    continue
                r = pkg.resolve_call(cf, cq, n)
                if r and r[0] == "fn" and r[1][0] == cf and r[1] not in seen:
                    todo.append(r[1])
                recv = n.func.value if isinstance(n.func, ast.Attribute) and n.func.attr in MEMBER_ACCESS else None
                handles = ([recv] if recv is not None else []) + [a for a in list(n.args) + [k.value for k in n.keywords]
                                                                    if not (r and r[0] == "fn" and r[1] == (ZB, "validate_zipfile"))]
                for h in handles:
                    k = H.classify(cf, cq, h)
                    if k is None and isinstance(h, ast.Name) and h.id in params_of(node):
                        k = _param_kind(pkg, H, (cf, cq), h.id)
                    if k == "validated":
                        n_ok += 1         # member access on, or a reader handed, a validated handle
                    elif k == "raw":
                        if _dominated_by_validate(pkg, cf, cq, node, h, n):
                            n_ok += 1
                            continue
                        vals = _validator_calls(pkg, H, cf, cq, node, fam)
                        (soft if vals else bad).append(f"{cf}:{n.lineno} {cq}: `{ast.unparse(n)[:70]}` uses an unvalidated container")
        detail = "; ".join(bad + soft) or f"{n_ok} use(s) of a validated handle (member access / handed to a reader)"
        if bad:
            return _unknown(oid5, "recognised bad shape: " + detail, "encryption.py", "typestate")
        if soft or n_ok < 1:
            return _unknown(oid5, detail if (bad or soft) else "no member read through a recognised container handle", "encryption.py", "typestate")
        return _obl(oid5, True, True, detail, "encryption.py", "typestate")
    obls.append(_guard(oid5, "encryption.py", p5, "typestate"))
    return {"obligations": obls, "functions": [x for x in fns if x]}


def _parent_call_name(tree, node):
    for n in ast.walk(tree):
        if isinstance(n, ast.Call) and any(x is node for a in n.args for x in ast.walk(a)):
            return dotted(n.func)
    return ""


def _expanded_calls(pkg, f, q, node, depth=0, seen=None):
    seen = seen if seen is not None else set()
    if id(node) in seen or depth > 5:
        return
    seen.add(id(node))
    for n in own_nodes(node):
        if isinstance(n, ast.Call):
            yield n
            r = pkg.resolve_call(f, q, n)
            if r and r[0] == "fn" and r[1][0] == f and is_private(r[1][1]):
                sub = pkg.fn(r[1])
                if sub is not None:
                    yield from _expanded_calls(pkg, f, r[1][1], sub, depth + 1, seen)


def _handle_users(pkg, cref, attrs):
    """{(method name, attr)}: methods of the class (ancestors and subclasses included) that read `self.<attr>`, directly or
    through other methods of `self`."""
    group = set(_ancestors(pkg, cref)) | pkg.family({cref})
    direct, calls = set(), {}
    for (cf, cn) in group:
        for q, node in pkg.mods[cf].functions.items():
            if pkg.enclosing_class(cf, q) != cn:
                continue
            mname = q.split(".")[-1]
            for n in own_nodes(node):
                if isinstance(n, ast.Attribute) and isinstance(n.value, ast.Name) and n.value.id == "self":
                    if n.attr in attrs and isinstance(n.ctx, ast.Load):
                        direct.add((mname, n.attr))
                    calls.setdefault(mname, set()).add(n.attr)
    users = set(direct)
    changed = True
    while changed:
        changed = False
        for mname, used in calls.items():
            for (m2, a_) in list(users):
                if m2 in used and (mname, a_) not in users and mname != "__init__":
                    users.add((mname, a_))
                    changed = True
    return users


def _local_validation(pkg, H, f, ctor_call):
    """A container constructed outside the guard module: "ok" when validate_zipfile(handle) dominates every use of the handle
    in the constructing function and the handle does not leave it, "bad" when the function calls no validate_zipfile at
    all, else "unknown"."""
    for q, node in pkg.mods[f].functions.items():
        if any(n is ctor_call for n in own_nodes(node)):
            break
    else:
        return "bad"
    is_val = lambda n: (lambda r: bool(r and r[0] == "fn" and r[1] == (ZB, "validate_zipfile")))(pkg.resolve_call(f, q, n))
    vcalls = [n for n in own_nodes(node) if isinstance(n, ast.Call) and is_val(n)]
    if not vcalls:
        return "bad"
    names = [nm for nm, bs in pkg.bindings(node).items() if any(b is ctor_call for b in bs)]
    if len(names) != 1 or len(pkg.bindings(node)[names[0]]) != 1:
        return "unknown"
    name = names[0]
    mentions = lambda n: any(isinstance(x, ast.Name) and x.id == name and isinstance(x.ctx, ast.Load) for x in ast.walk(n))
    if any(isinstance(n, (ast.Return, ast.Yield, ast.YieldFrom)) and n.value is not None and mentions(n.value) for n in own_nodes(node)):
        return "unknown"
    uses = [n for n in own_nodes(node) if isinstance(n, ast.Call) and n not in vcalls and n is not ctor_call and mentions(n)]
    ok = all(_dominated_by_validate(pkg, f, q, node, ast.Name(id=name, ctx=ast.Load()), u) for u in uses)
    return "ok" if ok else "unknown"


def _validate_gen(pkg, f, q):
    def gen(call):
        r = pkg.resolve_call(f, q, call)
        if r and r[0] == "fn" and r[1] == (ZB, "validate_zipfile") and call.args and isinstance(call.args[0], ast.Name):
            return [("validated", call.args[0].id)]
        if r and r[0] == "fn" and r[1] == (ZB, "validate_zipfile"):
            for kw in call.keywords:
                if kw.arg == "zf" and isinstance(kw.value, ast.Name):
                    return [("validated", kw.value.id)]
        return []
    return gen


def _dominated_by_validate(pkg, f, q, node, handle_expr, use_call):
    if not isinstance(handle_expr, ast.Name):
        return False
    name = handle_expr.id
    mf = Must(gen=_validate_gen(pkg, f, q), need=lambda n: [(("validated", name), "")] if n is use_call else [],
              kill_names=lambda fact: [fact[1]])
    res = mf.run(node)
    return bool(res) and all(r.ok for r in res)


def _param_kind(pkg, H, fref, pname, depth=0):
    """Kind of the handle a private helper receives in parameter `pname`: the join over its call sites."""
    if depth > 3:
        return None
    node = pkg.fn(fref)
    sites = pkg.call_sites(fref)
    if not sites or pkg.referenced_as_value(fref):
        return None
    kinds = set()
    for (f, q, call, bound) in sites:
        a = arg_for_param(node, call, pname, bound)
        if a is None:
            return None
        k = H.classify(f, q, a)
        if k is None and isinstance(a, ast.Name) and a.id in params_of(pkg.fn((f, q))):
            k = _param_kind(pkg, H, (f, q), a.id, depth + 1)
        kinds.add(k)
    if kinds == {"validated"}:
        return "validated"
    if "raw" in kinds:
        return "raw"
    return None


# ------------------------------------------------------------------------------------- payload typestate (P4) --
def _payload_key(pkg, f, node, e, depth=0):
    """The local whose *content* an expression presents as a stream: `io.BytesIO(x)` -> key of x; a name bound exactly once to
    such an expression or to another name -> that key; else the name itself; None for anything else."""
    if depth > 6:
        return None
    if isinstance(e, ast.Call) and pkg.canonical(f, e.func) in ("io.BytesIO", "BytesIO") and len(e.args) == 1 and not e.keywords:
        return _payload_key(pkg, f, node, e.args[0], depth + 1)
    if isinstance(e, ast.NamedExpr):
        return _payload_key(pkg, f, node, e.value, depth + 1)
    if isinstance(e, ast.Call) and isinstance(e.func, ast.Attribute) and e.func.attr == "getvalue" and not e.args:
        return _payload_key(pkg, f, node, e.func.value, depth + 1)          # the whole content of the stream
    if isinstance(e, ast.Name):
        bs = pkg.bindings(node).get(e.id, [])
        if len(bs) == 1 and bs[0] is not None:
            b = bs[0]
            if isinstance(b, ast.Name) or (isinstance(b, ast.Call) and (pkg.canonical(f, b.func) in ("io.BytesIO", "BytesIO") or
                                                                        (isinstance(b.func, ast.Attribute) and b.func.attr == "getvalue"))):
                k = _payload_key(pkg, f, node, b, depth + 1)
                if k is not None:
                    return k
        return e.id
    return None


class Payloads:
    """Summaries for "these bytes passed the guard": which parameter a function validates on every normal return, whether it
    returns validated bytes."""

    def __init__(self, pkg, H, fam):
        self.pkg, self.H, self.fam = pkg, H, fam
        self._val, self._ret = {}, {}

    def validated_arg(self, f, q, node, call, stack=()):
        """Keys (locals of the caller) whose content `call` validates when it returns normally."""
        pkg = self.pkg
        r = pkg.resolve_call(f, q, call)
        if not r:
            return []
        out = []
        if r[0] == "fn":
            callee = pkg.fn(r[1])
            if callee is None:
                return []
            if r[1][0] == ZB and r[1][1] in ("validate_zip_bytesio", "open_zipfile"):
                ps = ["file_like"] if "file_like" in params_of(callee) else params_of(callee)[:1]
            else:
                ps = self.validates(r[1], stack)
            for p in ps:
                a = arg_for_param(callee, call, p, r[2])
                k = _payload_key(pkg, f, node, a) if a is not None else None
                if k is not None:
                    out.append(k)
        elif r[0] == "class" and r[1] in self.fam:
            init = pkg.init_of(r[1])
            callee = pkg.fn(init) if init else None
            if callee is not None:
                for p in self.validates(init, stack):
                    a = arg_for_param(callee, call, p, True)
                    k = _payload_key(pkg, f, node, a) if a is not None else None
                    if k is not None:
                        out.append(k)
        return out

    def _must(self, f, q, node, need, stack):
        def gen(call):
            return [("validated", k) for k in self.validated_arg(f, q, node, call, stack)]

        def gen_bind(t, v, facts):
            if not isinstance(t, ast.Name):
                return []
            if isinstance(v, ast.Call):
                r = self.pkg.resolve_call(f, q, v)
                if r and r[0] == "fn" and self.returns_validated(r[1], stack):
                    return [("validated", t.id)]
            k = _payload_key(self.pkg, f, node, v)
            if k is not None and ("validated", k) in facts:
                return [("validated", t.id)]
            return []
        def export(fact, callee):      # facts named after a local of the expanded callee say nothing about the caller's locals
            return fact[1] not in self.pkg.bindings(callee) and fact[1] not in params_of(callee)
        return Must(gen=gen, need=need, gen_bind=gen_bind, kill_names=lambda fact: [fact[1]], expand=expander(self.pkg, f, q), export=export)

    def validates(self, fref, stack=()):
        """Parameters whose content is validated on every normal return of the function (self.file_like = p is followed)."""
        if fref in self._val:
            return self._val[fref]
        if fref in stack or len(stack) > 6:
            return []
        f, q = fref
        node = self.pkg.fn(fref)
        ps = [p for p in params_of(node) if p not in ("self", "cls")]
        mf = self._must(f, q, node, lambda n: [], stack + (fref,))
        # attribute aliases of a parameter: self.x = p  (validating self.x validates p)
        alias = {}
        for n in own_nodes(node):
            if isinstance(n, ast.Assign) and isinstance(n.value, ast.Name) and n.value.id in ps:
                for t in n.targets:
                    if isinstance(t, ast.Attribute):
                        alias[ast.unparse(t)] = n.value.id
        base_gen = mf.gen

        def gen(call, base_gen=base_gen):
            out = list(base_gen(call))
            r = self.pkg.resolve_call(f, q, call)
            if r and r[0] == "fn":
                callee = self.pkg.fn(r[1])
                names = ["file_like"] if (r[1][0] == ZB and r[1][1] in ("validate_zip_bytesio", "open_zipfile")) else self.validates(r[1], stack + (fref,))
                for p in names:
                    a = arg_for_param(callee, call, p, r[2]) if callee is not None else None
                    if a is not None and ast.unparse(a) in alias:
                        out.append(("validated", alias[ast.unparse(a)]))
            return out
        mf.gen = gen
        mf.run(node)
        exits = [fx for (_s, fx) in mf.exits]
        res = [p for p in ps if exits and all(("validated", p) in fx for fx in exits)]
        if not stack:
            self._val[fref] = res
        return res

    def returns_validated(self, fref, stack=()):
        if fref in self._ret:
            return self._ret[fref]
        if fref in stack or len(stack) > 6:
            return False
        f, q = fref
        node = self.pkg.fn(fref)
        if node is None:
            return False
        mf = self._must(f, q, node, lambda n: [], stack + (fref,))
        mf.run(node)
        rets = [(s, fx) for (s, fx) in mf.exits if s is not None and s.value is not None]
        ok = bool(rets)
        for s, fx in rets:
            k = _payload_key(self.pkg, f, node, s.value)
            if k is None or ("validated", k) not in fx:
                ok = False
        if not stack:
            self._ret[fref] = ok
        return ok


def payload_obligation(pkg, H, fam, oid):
    P = Payloads(pkg, H, fam)
    n_live, n_dead, bad, soft = 0, 0, [], []

    def opener_sites():
        for f, q, node in pkg.all_functions():
            for n in own_nodes(node):
                if isinstance(n, ast.Call):
                    c = pkg.canonical(f, n.func)
                    if c.split(".")[0] == "openpyxl" and c.split(".")[-1] in OPENERS:
                        yield f, q, node, n

    def require(f, q, node, call, arg, depth, trail):
        """The content `arg` presents at `call` in (f, q) must have passed the guard: +1 live / dead, or a problem."""
        nonlocal n_live, n_dead
        key = _payload_key(pkg, f, node, arg) if arg is not None else None
        where = f"{f}:{call.lineno}"
        if key is None:
            soft.append(f"{where} {q}: the stream handed to {trail} is not a recognised local (`{ast.unparse(arg)[:50] if arg is not None else '?'}`)")
            return
        mf = P._must(f, q, node, lambda n: [(("validated", key), where)] if n is call else [], ())
        res = mf.run(node)
        if res and all(r.ok for r in res):
            n_live += 1
            return
        if key in params_of(node) and key not in pkg.bindings(node):        # a parameter that is never rebound: the callers' duty
            sites = pkg.call_sites((f, q))
            if pkg.referenced_as_value((f, q)):
                soft.append(f"{where} {q}: reached through a reference to {q} whose callers are not known")
                return
            if not sites:
                n_dead += 1
                return
            if depth > 4:
                soft.append(f"{where} {q}: caller chain too deep")
                return
            for (f2, q2, c2, bound) in sites:
                a2 = arg_for_param(node, c2, key, bound)
                require(f2, q2, pkg.fn((f2, q2)), c2, a2, depth + 1, f"{q} -> {trail}")
            return
        if is_private(q) and not pkg.call_sites((f, q)) and not pkg.referenced_as_value((f, q)):
            n_dead += 1           # a private helper nobody calls or mentions: unreachable
            return
        vals = [v for v in _validator_calls(pkg, H, f, q, node, fam) if (v.lineno, v.col_offset) < (call.lineno, call.col_offset)]
        msg = f"{where} {q}: {trail} opens `{key}` which is not dominated by the zip-bomb guard"
        if not vals and not _in_loop(node, call):
            bad.append(msg + " (no guard call precedes it)")
        else:
            soft.append(msg)
    n_sites = 0
    for f, q, node, call in opener_sites():
        n_sites += 1
        arg = call.args[0] if call.args else next((k.value for k in call.keywords if k.arg in ("filename", "fn")), None)
        require(f, q, node, call, arg, 0, pkg.canonical(f, call.func).split(".")[-1])
    detail = "; ".join(bad + soft) or f"{n_live} dominated site(s), {n_dead} site(s) in functions without call sites"
    if bad:
        return _unknown(oid, "recognised bad shape: " + detail, "xlsx_extractor.py", "typestate")
    if soft or n_live < 1:
        return _unknown(oid, detail, "xlsx_extractor.py", "typestate")
    return _obl(oid, True, True, detail, "xlsx_extractor.py", "typestate")


# ========================================================================= state kept between calls (policy) ==
MUTATORS = {"add", "append", "extend", "update", "setdefault", "pop", "popitem", "clear", "remove", "discard", "insert",
            "appendleft", "__setitem__", "move_to_end"}
CACHE_DECORATORS = {"lru_cache", "cache", "cached_property", "memoize", "cached"}


def runtime_state(pkg, f):
    """Module-level names (and `Class.attr` paths) of module `f` that some function of the module WRITES at run time: rebinding
    through `global`, a mutating method call, a subscript / attribute store or `del` on them.  Tables that are only ever read
    are constants, whatever their type."""
    m = pkg.mods[f]
    top = set()
    for node in m.tree.body:
        tg = node.targets if isinstance(node, ast.Assign) else ([node.target] if isinstance(node, (ast.AnnAssign, ast.AugAssign)) else [])
        for t in tg:
            top |= {n.id for n in ast.walk(t) if isinstance(n, ast.Name)}
    classes = set(m.classes)
    written = {}

    def base(e):
        d = dotted(e)
        if not d:
            return None
        parts = d.split(".")
        if parts[0] in classes and len(parts) >= 2:
            return parts[0] + "." + parts[1]
        return parts[0]
    for q, node in m.functions.items():
        glob = {n for g in own_nodes(node) if isinstance(g, ast.Global) for n in g.names}
        shadow = (set(pkg.bindings(node)) | set(params_of(node))) - glob

        def is_state(b):
            return b is not None and ((b in top and b not in shadow) or ("." in b and b.split(".")[0] in classes) or b in glob)
        for n in own_nodes(node):
            b = None
            if isinstance(n, ast.Call) and isinstance(n.func, ast.Attribute) and n.func.attr in MUTATORS:
                b = base(n.func.value)
            elif isinstance(n, (ast.Subscript, ast.Attribute)) and isinstance(n.ctx, (ast.Store, ast.Del)):
                b = base(n.value)
            elif isinstance(n, ast.Name) and isinstance(n.ctx, (ast.Store, ast.Del)) and n.id in glob:
                b = n.id
            if is_state(b):
                written.setdefault(b, []).append(f"{q}:{n.lineno}")
    return written


def state_dependence(pkg, fref, written):
    """Where function `fref` lets a decision depend on run-time-written module state: the state (or a local computed from it)
    occurs in a branch / loop / conditional-expression test, or the function is wrapped in a result cache."""
    f, q = fref
    node = pkg.fn(fref)
    out = []
    if node is None:
        return out
    for d in node.decorator_list:
        nm = (dotted(d.func if isinstance(d, ast.Call) else d) or "").split(".")[-1]
        if nm in CACHE_DECORATORS:
            out.append(f"{f}:{d.lineno} {q} is wrapped in `{nm}` (results remembered per argument object)")
    if not written:
        return out
    glob = {n for g in own_nodes(node) if isinstance(g, ast.Global) for n in g.names}
    shadow = (set(pkg.bindings(node)) | set(params_of(node))) - glob

    def mentions_state(e, tainted):
        for x in ast.walk(e):
            if isinstance(x, ast.Name) and ((x.id in written and x.id not in shadow) or x.id in tainted):
                return x.id
            if isinstance(x, ast.Attribute):
                d = dotted(x)
                if d and ".".join(d.split(".")[:2]) in written:
                    return ".".join(d.split(".")[:2])
        return None
    tainted = set()
    changed = True
    while changed:
        changed = False
        for name, bs in pkg.bindings(node).items():
            if name not in tainted and any(b is not None and mentions_state(b, tainted) for b in bs):
                tainted.add(name)
                changed = True
    for n in own_nodes(node):
        tests = []
        if isinstance(n, (ast.If, ast.While, ast.IfExp, ast.Assert)):
            tests.append(n.test)
        elif isinstance(n, ast.BoolOp):
            tests.extend(n.values[:-1])
        elif isinstance(n, ast.comprehension):
            tests.extend(n.ifs)
        elif isinstance(n, ast.match_case) and n.guard is not None:
            tests.append(n.guard)
        for t in tests:
            w = mentions_state(t, tainted)
            if w:
                out.append(f"{f}:{t.lineno} {q}: the test `{ast.unparse(t)[:60]}` depends on `{w}`, which is written at run time")
                break
    return out


# ==================================================================================== zip-bomb error propagation ==
REGISTRY_FILE = "sharepoint2text/parsing/router.py"
CONTAINER_TYPES = ("xlsx", "docx", "pptx", "xlsm", "docm", "pptm", "odt", "odp", "ods", "odg", "odf", "epub")


class Handlers:
    """What an `except` clause does to an ExtractionZipBombError that reaches it."""

    def __init__(self, pkg, uni):
        self.pkg, self.uni = pkg, uni

    def _covers(self, f, t, depth=0):
        """Does the class expression `t` name ZBERR or a base class of it?  "yes" / "no" / "maybe"."""
        if isinstance(t, ast.Tuple):
            ks = [self._covers(f, e, depth) for e in t.elts]
            return "yes" if "yes" in ks else ("maybe" if "maybe" in ks else "no")
        n = ast.unparse(t).split(".")[-1]
        if n in ("BaseException", "Exception"):
            return "yes"
        if self.uni.known(n):
            return "yes" if self.uni.is_subclass(ZBERR, n) else "no"
        if isinstance(t, ast.Name) and depth < 3:
            v = self.pkg.mods[f].assigns.get(t.id)
            if isinstance(v, (ast.Tuple, ast.Name, ast.Attribute)):
                return self._covers(f, v, depth + 1)
        return "maybe"

    def catches(self, f, h):
        return "yes" if h.type is None else self._covers(f, h.type)

    def _is_reraise(self, h, r):
        return r.exc is None or (h.name and isinstance(r.exc, ast.Name) and r.exc.id == h.name and r.cause is None)

    def outcome(self, f, h):
        """"reraise": the error leaves the handler as it is; "convert": it certainly does not (no re-raise in the handler at
        all); "unknown": anything else."""
        ctl = (ast.Raise, ast.Return, ast.Break, ast.Continue, ast.Yield, ast.YieldFrom)
        body = list(h.body)
        while body:
            s = body[0]
            if isinstance(s, ast.If) and h.name:
                t = s.test
                neg = isinstance(t, ast.UnaryOp) and isinstance(t.op, ast.Not)
                t = t.operand if neg else t
                if isinstance(t, ast.Call) and dotted(t.func) == "isinstance" and len(t.args) == 2 \
                        and isinstance(t.args[0], ast.Name) and t.args[0].id == h.name:
                    k = self._covers(f, t.args[1])
                    if k == "yes":            # the branch the zip-bomb error takes is known
                        body = (list(s.orelse) if neg else list(s.body)) + ([] if self._ends(s.orelse if neg else s.body) else body[1:])
                        continue
                    if k == "no":
                        body = (list(s.body) if neg else list(s.orelse)) + ([] if self._ends(s.body if neg else s.orelse) else body[1:])
                        continue
                break
            if any(isinstance(x, ctl) for x in ast.walk(s)):
                break
            body = body[1:]           # a statement without control transfer (logging, close, assignment)
        if body and isinstance(body[0], ast.Raise) and self._is_reraise(h, body[0]):
            return "reraise"
        raises = [n for b in h.body for n in ast.walk(b) if isinstance(n, ast.Raise)]
        if not any(self._is_reraise(h, r) for r in raises):
            return "convert"
        return "unknown"

    @staticmethod
    def _ends(stmts):
        return bool(stmts) and isinstance(stmts[-1], (ast.Raise, ast.Return, ast.Break, ast.Continue))


def _path_to(fn, target):
    path = []

    def find(node, stack):
        for ch in ast.iter_child_nodes(node):
            if ch is target:
                path.extend(stack + [node])
                return True
            if isinstance(ch, (ast.FunctionDef, ast.AsyncFunctionDef, ast.Lambda, ast.ClassDef)):
                continue
            if find(ch, stack + [node]):
                return True
        return False
    find(fn, [])
    return path


def propagation(repo, tier):
    """"...it is rejected with the zip-bomb error": at every call site of a function the ExtractionZipBombError can leave
    (validate_zipfile and, transitively, open_zipfile, validate_zip_bytesio, the ZipContext family constructors,
    is_odf_encrypted, the read_* extractors) the exception leaves the calling function unchanged: every enclosing `try` whose
    handler list catches it re-raises it as it is, no `finally` returns, no `suppress` swallows it.  Private helpers of the
    same module (functions, methods reached through `self`, constructors of private classes) are analysed in place of
    their call; there is one obligation per function the error can leave (all its call sites), so the ids survive helper
    extraction / inlining and re-routing through another guarded function."""
    from pyvc.exctypes import Universe
    pkg = Pkg(repo)
    uni = Universe(repo)
    hd = Handlers(pkg, uni)

    def target_of(f, q, call):
        """(identity, display name, expandable node or None, context (file, qual) for the expansion)."""
        r = pkg.resolve_call(f, q, call)
        if not r:
            return None
        if r[0] == "fn":
            fref = r[1]
            name = fref[1].split(".<locals>.")[-1]
            if name.endswith(".__init__"):
                name = name[:-len(".__init__")]
                cls = pkg.enclosing_class(f, q)
                if cls and isinstance(call.func, ast.Attribute) and isinstance(call.func.value, ast.Call):      # super().__init__
                    for b in pkg.bases((f, cls)):
                        if pkg.mro_lookup(b, "__init__") == fref and not is_private(b[1]):
                            name = b[1]
                            break
            else:
                name = name.split(".")[-1]
            exp = pkg.fn(fref) if (fref[0] == f and is_private(fref[1].split(".<locals>.")[-1]) and fref != (f, q)) else None
            return fref, name, exp, fref
        cref = r[1]
        init = pkg.init_of(cref)
        if init is None:
            return None
        name = cref[1]
        exp = None
        if is_private(cref[1]) and cref[0] == f:
            owner = init[1][:-len(".__init__")]
            if init[0] == f and is_private(owner):
                exp = pkg.fn(init)
            else:
                name = owner          # a private class without an initialiser of its own: the base that provides it
        return init, name, exp, init

    expanded_somewhere = set()

    def sites(f, q, node, frames=(), stack=()):
        """[(frames, call, identity, name)]: calls of `node` in source order, expandable callees replaced by their own sites;
        frames = ((function node, call in it), ...) from the root function inwards."""
        out = []
        for n in own_nodes(node):
            if not isinstance(n, ast.Call):
                continue
            try:
                t = target_of(f, q, n)
            except Exception:  # noqa -- an unresolvable shape is not a call of a known function
                t = None
            if t is None:
                continue
            ident, name, exp, ctx = t
            fr = frames + ((f, node, n),)
            if exp is not None and ident not in stack and len(stack) < 6:
                expanded_somewhere.add(ident)
                out.extend(sites(ctx[0], ctx[1], exp, fr, stack + (ident,)))
            else:
                out.append((fr, n, ident, name))
        return out

    qual_of = {}

    def verdict(frames):
        """("ok" | "bad" | "unknown", reason) for an error raised by the innermost call of `frames`."""
        line0 = frames[-1][2].lineno
        if not qual_of:
            for f_, q_, node_ in pkg.all_functions():
                qual_of[id(node_)] = q_
        for (f, fnode, call) in reversed(frames):
            v = frame_verdict(f, fnode, call, line0, 0)
            if v is not None:
                return v
        return "ok", ""

    def manager_swallows(f, fnode, n, it, line0, depth):
        """Round 6: what the context manager of an enclosing `with` does to the error.  A manager defined in the package is
        read: a generator under `contextmanager` is judged at its `yield` (the handlers / finally around it, like any frame);
        a class through the values its `__exit__` returns (only constant false / None everywhere = does not swallow).
        None = nothing to report (not a package manager: as before), else ("bad" | "unknown", reason)."""
        ce = it.context_expr
        q = qual_of.get(id(fnode))
        if not isinstance(ce, ast.Call) or q is None or depth > 3:
            return None
        try:
            r = pkg.resolve_call(f, q, ce)
        except Exception:  # noqa -- not resolvable: not a package manager
            r = None
        if not r:
            return None
        what = f"{f}:{n.lineno}: context manager `{ast.unparse(ce.func)[:40]}`"
        cref = r[1] if r[0] == "class" else None
        if r[0] == "fn":
            g = pkg.fn(r[1])
            if g is None:
                return None
            decos = [(pkg.canonical(r[1][0], d.func if isinstance(d, ast.Call) else d) or "").split(".")[-1] for d in g.decorator_list]
            if any(d in ("contextmanager", "asynccontextmanager") for d in decos):
                for y in own_nodes(g):
                    if isinstance(y, (ast.Yield, ast.YieldFrom)):
                        v = frame_verdict(r[1][0], g, y, line0, depth + 1)
                        if v is not None:
                            return v[0], f"{what}: {v[1]}"
                return None
            if g.decorator_list:
                return "unknown", f"{what} is a decorated function: what it does to the zip-bomb error raised at line {line0} is not read"
            rets = [x.value for x in own_nodes(g) if isinstance(x, ast.Return) and x.value is not None]
            if len(rets) == 1 and isinstance(rets[0], ast.Call):
                try:
                    r2 = pkg.resolve_call(r[1][0], r[1][1], rets[0])
                except Exception:  # noqa
                    r2 = None
                if r2 and r2[0] == "class":
                    cref = r2[1]
            if cref is None:
                return None
        ex = pkg.mro_lookup(cref, "__exit__") if cref is not None else None
        xf = pkg.fn(ex) if ex else None
        if xf is None:
            return None
        kinds = []
        for x in own_nodes(xf):
            if isinstance(x, ast.Return):
                v = x.value
                kinds.append("no" if v is None or (isinstance(v, ast.Constant) and not v.value) else
                             "yes" if isinstance(v, ast.Constant) else "maybe")
        if all(k == "no" for k in kinds):
            return None
        if kinds == ["yes"] and isinstance(xf.body[-1], ast.Return):
            return "bad", f"{what}: `__exit__` ({ex[0]}:{xf.lineno}) returns a true value, which swallows the zip-bomb error raised at line {line0}"
        return "unknown", f"{what}: `__exit__` ({ex[0]}:{xf.lineno}) may return a true value and swallow the zip-bomb error raised at line {line0}"

    def frame_verdict(f, fnode, call, line0, depth):
        """None (the error leaves this frame as it is) or ("bad" | "unknown", reason)."""
        if True:
            path = _path_to(fnode, call)
            chain = path + [call]
            for i in range(len(path) - 1, -1, -1):
                n, nxt = path[i], chain[i + 1]
                if isinstance(n, (ast.With, ast.AsyncWith)) and any(nxt is b for b in n.body):
                    for it in n.items:
                        ce = it.context_expr
                        if isinstance(ce, ast.Call) and pkg.canonical(f, ce.func).split(".")[-1] == "suppress":
                            ks = [hd._covers(f, a) for a in ce.args]
                            if "yes" in ks:
                                return "bad", f"{f}:{n.lineno}: `with {ast.unparse(ce)[:50]}` swallows the zip-bomb error raised at line {line0}"
                            if "maybe" in ks:
                                return "unknown", f"{f}:{n.lineno}: `with {ast.unparse(ce)[:50]}` may swallow the zip-bomb error raised at line {line0}"
                            continue
                        try:
                            k = manager_swallows(f, fnode, n, it, line0, depth)
                        except Exception as e:  # noqa -- a shape the reading does not handle is not a verdict
                            k = ("unknown", f"{f}:{n.lineno}: context manager not read ({type(e).__name__})")
                        if k is not None:
                            return k
                if not isinstance(n, ast.Try):
                    continue
                in_body = any(nxt is b for b in n.body)
                if in_body:
                    for h in n.handlers:
                        k = hd.catches(f, h)
                        if k == "no":
                            continue
                        o = hd.outcome(f, h)
                        what = f"{f}:{h.lineno}: `except {ast.unparse(h.type) if h.type else ''}`"
                        if k == "yes":
                            if o == "reraise":
                                break
                            if o == "convert":
                                return "bad", f"{what} converts or swallows the zip-bomb error raised at line {line0}"
                            return "unknown", f"{what}: handler shape not recognised (zip-bomb error raised at line {line0})"
                        if o != "reraise":
                            return "unknown", f"{what} may catch the zip-bomb error raised at line {line0} (exception class not resolved)"
                if any(isinstance(x, (ast.Return, ast.Break, ast.Continue)) for b in n.finalbody for x in ast.walk(b)
                       if not isinstance(x, (ast.FunctionDef, ast.Lambda))) and (in_body or not any(nxt is b for b in n.finalbody)):
                    return "bad", f"{f}:{n.lineno}: `finally` leaves by return/break/continue, which discards the zip-bomb error raised at line {line0}"
        return None

    fn_sites = {}
    for f, q, node in pkg.all_functions():
        fn_sites[(f, q)] = sites(f, q, node)
    bomb = {(ZB, "validate_zipfile")}
    results = {}
    changed = True
    while changed:
        changed = False
        for fref, lst in fn_sites.items():
            for k, (frames, call, ident, name) in enumerate(lst):
                if ident not in bomb or (fref, k) in results:
                    continue
                try:
                    v = verdict(frames)
                except Exception as e:  # noqa
                    v = ("unknown", f"handler analysis does not handle this shape ({type(e).__name__}: {e})")
                results[(fref, k)] = (name, v, frames)
                if v[0] != "bad" and fref not in bomb:
                    bomb.add(fref)
                    changed = True
    obls = []
    per_fn = {}
    for (fref, k) in sorted(results, key=lambda x: (x[0], x[1])):
        if fref in expanded_somewhere:
            continue            # analysed in place at every caller of this private helper
        per_fn.setdefault(fref, []).append(results[(fref, k)])
    n_sites = 0
    for fref, lst in sorted(per_fn.items()):
        # one exceptional postcondition per function: the error of EVERY call site in it (private helpers analysed in place)
        # leaves the function unchanged.  The id does not mention callees or ordinals, so re-routing a call through another
        # guarded function, extracting or inlining helpers keeps it.
        f, q = fref
        n_sites += len(lst)
        oid = f"C11/{f.split('/')[-1]}::{q}/exc-ensures#zip-bomb-error-propagates-unchanged"
        stati = [v[0] for (_n, v, _fr) in lst]
        status = "bad" if "bad" in stati else ("unknown" if "unknown" in stati else "ok")
        descr = []
        for (name, (st_, why), frames) in lst:
            via = " via " + " -> ".join(dotted(c.func) or "?" for (_f, _n, c) in frames[:-1]) if len(frames) > 1 else ""
            descr.append((why + " " if why else "") + f"[{name} at line {frames[0][2].lineno}{via}: {st_}]")
        bad_first = sorted(descr, key=lambda d: d.endswith(": ok]"))
        line = lst[0][2][0][2].lineno
        o = ground_obligation(oid, status == "ok", "; ".join(bad_first)[:900], f"{f}:{line}", kind="exc-ensures", definite=False)
        o["vcs"] = len(lst)
        o["replay_hint"] = {"family": "propagate", "file": f.split("/")[-1], "function": q.split(".")[0]}
        obls.append(o)
    # the decision for a container does not depend on state kept between calls: no function on the validation path (the
    # functions the error can leave, private helpers analysed in place included) branches on module- / class-level state that
    # the module writes at run time, none is wrapped in a result cache
    def stateless():
        path = set(bomb)
        for (fref, k), (_name, _v, frames) in results.items():
            for (ff, fnode, _call) in frames:
                for q2, n2 in pkg.mods[ff].functions.items():
                    if n2 is fnode:
                        path.add((ff, q2))
        wcache, found = {}, []
        for fref in sorted(path):
            if fref[0] not in wcache:
                wcache[fref[0]] = runtime_state(pkg, fref[0])
            found.extend(state_dependence(pkg, fref, wcache[fref[0]]))
        oid = "C11/package/policy#validation-does-not-depend-on-state-kept-between-calls"
        o = ground_obligation(oid, not found and len(path) >= 10, "; ".join(found)[:900] or f"{len(path)} functions on the validation path, none "
                              f"branches on run-time-written module state", "package", kind="policy", definite=False)
        o["replay_hint"] = {"family": "sequence"}
        return o
    try:
        obls.append(stateless())
    except Exception as e:  # noqa
        o = ground_obligation("C11/package/policy#validation-does-not-depend-on-state-kept-between-calls", False,
                              f"analysis does not handle this shape ({type(e).__name__}: {e})", "package", kind="policy", definite=False)
        o["replay_hint"] = {"family": "sequence"}
        obls.append(o)
    # every registered ZIP-container extractor is reached by the error
    expected, why = [], ""
    try:
        reg = ast.literal_eval(pkg.mods[REGISTRY_FILE].assigns["_EXTRACTOR_REGISTRY"])
        for t in CONTAINER_TYPES:
            if t in reg:
                mf = pkg.mod_file(reg[t][0])
                if mf is not None and (mf, reg[t][1]) not in expected:
                    expected.append((mf, reg[t][1]))
    except Exception as e:  # noqa
        why = f"extractor registry not readable ({type(e).__name__})"
    readers = sorted({q for (f, q) in bomb if q.startswith("read_")})
    missing = [f"{f.split('/')[-1]}::{q}" for (f, q) in expected if (f, q) not in bomb]
    ok = not missing and (len(expected) >= 9 if not why else len(readers) >= 8) and n_sites >= 20
    o = ground_obligation("C11/package/exc-ensures#every-zip-container-extractor-is-reached-by-the-zip-bomb-error", ok,
                          (why + " " if why else "") + (f"not reached: {missing}; " if missing else "") + f"{n_sites} call sites in {len(obls)} functions; extractors: {readers}",
                          "package", kind="exc-ensures", definite=False)
    o["replay_hint"] = {"family": "propagate"}
    obls.append(o)
    return {"obligations": obls, "functions": []}


# ========================================================================= the configured limits (state anchor) ==
GIB = 1024 ** 3
SPEC_DEFAULTS = {"max_entries": 50000, "max_total_uncompressed_bytes": 4 * GIB, "max_single_uncompressed_bytes": 1 * GIB,
                 "max_total_compression_ratio": 200, "max_entry_compression_ratio": 500}      # the property's `state` anchor
GUARD_FUNCTIONS = ("validate_zipfile", "open_zipfile", "validate_zip_bytesio")


def const_value(m, e, depth=0):
    """Value of a constant expression of the real module (literals, arithmetic, module-level names, int()/float()); raises
    LookupError for anything else."""
    import operator
    if depth > 12:
        raise LookupError("too deep")
    if isinstance(e, ast.Constant) and isinstance(e.value, (int, float)) and not isinstance(e.value, bool):
        return e.value
    if isinstance(e, ast.Name) and e.id in m.assigns:
        return const_value(m, m.assigns[e.id], depth + 1)
    ops = {ast.Add: operator.add, ast.Sub: operator.sub, ast.Mult: operator.mul, ast.Pow: operator.pow, ast.FloorDiv: operator.floordiv,
           ast.Div: operator.truediv, ast.LShift: operator.lshift, ast.BitOr: operator.or_, ast.Mod: operator.mod}
    if isinstance(e, ast.BinOp) and type(e.op) in ops:
        a, b = const_value(m, e.left, depth + 1), const_value(m, e.right, depth + 1)
        if isinstance(e.op, (ast.Pow, ast.LShift)) and abs(b) > 200:
            raise LookupError("exponent too large")
        return ops[type(e.op)](a, b)
    if isinstance(e, ast.UnaryOp) and isinstance(e.op, (ast.USub, ast.UAdd)):
        v = const_value(m, e.operand, depth + 1)
        return -v if isinstance(e.op, ast.USub) else v
    if isinstance(e, ast.Call) and isinstance(e.func, ast.Name) and e.func.id in ("int", "float") and len(e.args) == 1 and not e.keywords:
        return {"int": int, "float": float}[e.func.id](const_value(m, e.args[0], depth + 1))
    if isinstance(e, ast.Call) and (dotted(e.func) or "").split(".")[-1] == "field" and not e.args and len(e.keywords) >= 1 \
            and m.imports.get((dotted(e.func) or "").split(".")[0], "").split(".")[0] == "dataclasses":
        kw = {k.arg: k.value for k in e.keywords}
        if "default" in kw and not ({"default_factory", "init"} & set(kw)):
            return const_value(m, kw["default"], depth + 1)      # dataclasses.field(default=X, ...): the field default is X
    raise LookupError(f"not a constant expression: {ast.unparse(e)[:60]}")


def configuration(repo, tier):
    """"...checked against the configured limits": (1) the default configuration is the documented one -- every field default of
    ZipBombLimits, evaluated from the real class body, equals the property's value; DEFAULT_ZIP_BOMB_LIMITS is that default
    configuration; every `limits` parameter of the guard functions defaults to it.  (2) every call of a guard function inside
    the package uses the configured limits: a function that has a `limits` parameter of its own forwards it, any other caller
    passes none (the default) or the default object."""
    pkg = Pkg(repo)
    obls = []
    hint = {"family": "limits"}

    def emit(oid, status, detail, witness=None):
        o = ground_obligation(oid, status == "proved", detail, "zip_bomb.py", kind="config", definite=(status == "refuted"))
        o["replay_hint"] = dict(hint)
        if witness:
            o["witness"] = witness
        obls.append(o)
    m = pkg.mods.get(ZB)
    cls = m.classes.get("ZipBombLimits") if m is not None else None

    def limits_expr_kind(e):
        """"default" when the expression certainly denotes the default configuration, else a description."""
        if isinstance(e, ast.Name) and e.id == "DEFAULT_ZIP_BOMB_LIMITS":
            return "default"
        if isinstance(e, ast.Attribute) and e.attr == "DEFAULT_ZIP_BOMB_LIMITS":
            return "default"
        if isinstance(e, ast.Call) and (dotted(e.func) or "").split(".")[-1] == "ZipBombLimits" and not e.args and not e.keywords:
            return "default"
        return ast.unparse(e)[:60]
    def none_means_default(fnode, pname="limits"):
        """True when `pname=None` stands for the default configuration in this function: the parameter is rebound only by
        entry normalisations -- `if p is None: p = D`, `p = p or D`, `p = D if p is None else p`, `p = p if p is not None else D`
        with D the default configuration -- which are top-level statements of the body, and no statement before the first
        of them reads p.  (The configuration class has no __bool__/__len__: `p or D` tests for None.)"""
        def is_p(e):
            return isinstance(e, ast.Name) and e.id == pname

        def is_none_test(t, negated=False):
            return isinstance(t, ast.Compare) and len(t.ops) == 1 and isinstance(t.ops[0], ast.IsNot if negated else ast.Is) and is_p(t.left) \
                and isinstance(t.comparators[0], ast.Constant) and t.comparators[0].value is None

        def is_norm(st):
            if isinstance(st, ast.If) and is_none_test(st.test) and not st.orelse and len(st.body) == 1:
                a = st.body[0]
                return isinstance(a, ast.Assign) and len(a.targets) == 1 and is_p(a.targets[0]) and limits_expr_kind(a.value) == "default"
            if isinstance(st, ast.Assign) and len(st.targets) == 1 and is_p(st.targets[0]):
                v = st.value
                if isinstance(v, ast.BoolOp) and isinstance(v.op, ast.Or) and len(v.values) == 2 and is_p(v.values[0]):
                    return limits_expr_kind(v.values[1]) == "default" and not (cls is not None and any(
                        isinstance(n, ast.FunctionDef) and n.name in ("__bool__", "__len__") for n in cls.body))
                if isinstance(v, ast.IfExp):
                    if is_none_test(v.test) and is_p(v.orelse):
                        return limits_expr_kind(v.body) == "default"
                    if is_none_test(v.test, negated=True) and is_p(v.body):
                        return limits_expr_kind(v.orelse) == "default"
            return False
        norms = [st for st in fnode.body if is_norm(st)]
        if not norms:
            return False
        inside = {id(x) for st in norms for x in ast.walk(st)}
        for n in own_nodes(fnode):
            if isinstance(n, ast.Name) and n.id == pname and isinstance(n.ctx, (ast.Store, ast.Del)) and id(n) not in inside:
                return False
        for st in fnode.body[:fnode.body.index(norms[0])]:
            if any(isinstance(x, ast.Name) and x.id == pname for x in ast.walk(st)):
                return False
        return True
    try:
        fields = {}
        for n in (cls.body if cls is not None else []):
            if isinstance(n, ast.AnnAssign) and isinstance(n.target, ast.Name) and n.value is not None:
                fields[n.target.id] = n.value
            elif isinstance(n, ast.Assign) and len(n.targets) == 1 and isinstance(n.targets[0], ast.Name):
                fields[n.targets[0].id] = n.value
        own_init = cls is not None and any(isinstance(n, ast.FunctionDef) and n.name in ("__init__", "__post_init__", "__new__") for n in cls.body)
        for fld, want in SPEC_DEFAULTS.items():
            oid = f"C11/zip_bomb.py::ZipBombLimits/defaults#{fld}"
            if fld not in fields or own_init:
                emit(oid, "unknown", "field default not found as a class-level constant" if not own_init else "the class customises its construction")
                continue
            try:
                got = const_value(m, fields[fld])
            except LookupError as e:
                emit(oid, "unknown", str(e))
                continue
            if got == want:
                emit(oid, "proved", f"{ast.unparse(fields[fld])[:40]} == {want}")
            else:
                emit(oid, "refuted", f"default `{ast.unparse(fields[fld])[:40]}` evaluates to {got}, the documented configuration says {want}",
                     {"field": fld, "value": got, "documented": want})
        oid = "C11/zip_bomb.py::DEFAULT_ZIP_BOMB_LIMITS/defaults#is-the-default-configuration"
        dv = m.assigns.get("DEFAULT_ZIP_BOMB_LIMITS") if m is not None else None
        rebinds = [n for n in ast.walk(m.tree) if isinstance(n, ast.Name) and n.id == "DEFAULT_ZIP_BOMB_LIMITS" and isinstance(n.ctx, ast.Store)] if m else []
        if dv is None:
            emit(oid, "unknown", "DEFAULT_ZIP_BOMB_LIMITS not found")
        elif len(rebinds) == 1 and isinstance(dv, ast.Call) and (dotted(dv.func) or "").split(".")[-1] == "ZipBombLimits" and not dv.args and not dv.keywords:
            emit(oid, "proved", "ZipBombLimits()")
        elif len(rebinds) == 1 and isinstance(dv, ast.Call) and (dotted(dv.func) or "").split(".")[-1] == "ZipBombLimits" and not dv.args:
            bad = []
            try:
                for k in dv.keywords:
                    if k.arg not in SPEC_DEFAULTS or const_value(m, k.value) != SPEC_DEFAULTS[k.arg]:
                        bad.append(f"{k.arg}={ast.unparse(k.value)[:30]}")
                emit(oid, "refuted" if bad else "proved", "; ".join(bad) or ast.unparse(dv)[:80])
            except LookupError as e:
                emit(oid, "unknown", str(e))
        else:
            emit(oid, "unknown", f"bound {len(rebinds)} time(s) to `{ast.unparse(dv)[:60]}`")
        for fn in GUARD_FUNCTIONS:
            oid = f"C11/zip_bomb.py::{fn}/defaults#limits-parameter-defaults-to-the-default-configuration"
            node = m.functions.get(fn) if m is not None else None
            if node is None:
                emit(oid, "unknown", f"{fn} not found")
                continue
            a = node.args
            dflt = None
            for arg, d in list(zip(a.kwonlyargs, a.kw_defaults)) + list(zip((a.posonlyargs + a.args)[::-1], a.defaults[::-1])):
                if arg.arg == "limits":
                    dflt = d
            if dflt is None:
                emit(oid, "unknown", "no `limits` parameter with a default")
            elif limits_expr_kind(dflt) == "default":
                emit(oid, "proved", ast.unparse(dflt))
            elif isinstance(dflt, ast.Constant) and dflt.value is None and none_means_default(node):
                emit(oid, "proved", "None, replaced by the default configuration on entry")
            else:
                emit(oid, "unknown", f"default is `{limits_expr_kind(dflt)}`")
    except Exception as e:  # noqa
        emit("C11/zip_bomb.py::ZipBombLimits/defaults#analysis", "unknown", f"analysis does not handle this shape ({type(e).__name__}: {e})")
    # (2) call sites
    oid = "C11/package/policy#guard-call-sites-use-the-configured-limits"
    try:
        soft, n = [], 0
        for fn in GUARD_FUNCTIONS:
            if m is None or fn not in m.functions:
                continue
            for (f, q, call, bound) in pkg.call_sites((ZB, fn)):
                n += 1
                caller = pkg.fn((f, q))
                arg = arg_for_param(m.functions[fn], call, "limits", bound)
                star = any(isinstance(x, ast.Starred) for x in call.args) or any(k.arg is None for k in call.keywords)
                own = "limits" in params_of(caller)
                where = f"{f}:{call.lineno} {q} -> {fn}"
                if star:
                    soft.append(f"{where}: arguments passed through * / **")
                elif own:
                    ok = isinstance(arg, ast.Name) and arg.id == "limits" and ("limits" not in pkg.bindings(caller) or none_means_default(caller))
                    if not ok:
                        soft.append(f"{where}: the caller's own `limits` is not forwarded (passes {ast.unparse(arg)[:40] if arg is not None else 'nothing: the default'})")
                elif arg is not None and limits_expr_kind(arg) != "default":
                    soft.append(f"{where}: passes limits={limits_expr_kind(arg)}")
        o = ground_obligation(oid, not soft and n >= 4, "; ".join(soft)[:900] or f"{n} call sites", "package", kind="policy", definite=False)
    except Exception as e:  # noqa
        o = ground_obligation(oid, False, f"analysis does not handle this shape ({type(e).__name__}: {e})", "package", kind="policy", definite=False)
    o["replay_hint"] = dict(hint)
    obls.append(o)
    return {"obligations": obls, "functions": []}
