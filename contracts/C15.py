"""C15 -- isolation: results independent of history and (for the module state the library owns) of concurrent work.

**Histories** are frame conditions on module state, decided on the real AST / by symbolic execution of the real bodies:
  H1  `_patched_build_char_map`: on every exit of the with-body (normal, exception thrown at the yield, close) every patched
      attribute holds its entry value again (symbolic execution of the real generator);
  H2  `patch_pypdf_fallback_aes` installs only module-level functions / closures without captured per-call state;
  H3  memo soundness of every module-level cache, per store site: (a) the stored value is computed from nothing but what the key
      is computed from (parameters AND module state, through helpers), (b) the key DETERMINES each of those inputs (built by
      tuples / order-preserving conversions / helper functions whose returns do -- anything else is `unknown` and goes to the
      native collision search), (c) lookups and stores use one key expression;
  H4  `_config` is written only by `configure_archive_extraction`;
  H5  inventory of module-level mutable state: every module- / class-level object that some function mutates (subscript / attribute
      store, mutator method, setattr, through aliases and handed-out references), state kept on function / class objects, names
      rebound through `global`, `globals()`, mutated mutable default arguments;
  H6  every OLE / ZIP / workbook / temp-dir handle opened by own code is closed on all paths;
  H7  every content-changing write of a cache happens behind a miss of its own lookup;
  H8  a reader that takes "non-empty" for "completely populated" (`if REGISTRY: return REGISTRY`): every write sits behind that
      guard and stores nothing that depends on the call;
  H10 ownership: an object stored in / handed out by module state (cache values, per-thread pools, lru_cache results, module-level
      tables) is never mutated afterwards (contracts/c15_own.py: interprocedural label propagation; `_get_round_keys` additionally
      by symbolic execution with a ghost set of published heap objects);
  H11 no interpreter-wide or third-party setting is changed (setters of os / sys / locale / warnings / logging / csv / mimetypes ...,
      attribute stores and setattr on objects of other libraries, also through aliases) outside the two reviewed patch sites.

**Schedules.**  Arbitrary interleavings are NOT decided.  What contracts over the real code do express, and what is decided here,
are three sufficient conditions under which threads cannot disturb each other through the module state the library owns:
  H10 (above) published objects are immutable after publication -- with it, a thread can only be affected through the cache
      *operations*, never through a value it already holds;
  H9a where entries can be evicted, every operation that needs its key present tolerates a concurrent eviction (try / lock);
  H9b populate-once state is published atomically (one write statement or under a lock);
  H12 a temporary patch of a shared object (save / set / restore) runs under a lock;
  H13 no function sets a module-level name AROUND a computation that reads it (save / set / compute / restore, or a context manager
      setting it for its with-body) without a lock: such a name is a dynamically scoped parameter shared by all threads
      (round 5: only readers that run AFTER a rebinding statement count -- the right-hand side of the rebinding is evaluated before it);
  H14 (round 5) a mutated module-level object that is neither a guarded keyed cache / registry nor configuration is working memory
      shared by all threads (scratch buffers such as `[0] * 16`, "current document" slots): `unknown`, the schedule replayer decides.
Round 5 also: the with-body of the char-map patcher must not suspend (`yield` / `await` inside `with <patcher>()` keeps the patch
installed for as long as the consumer likes -- replayed by histories in which the caller keeps the raised exception); memo obligations
are one per STATE (all store sites together), so splitting / merging store sites does not change the obligation set.
A failed condition is `unknown` until the native replayer exhibits a schedule: two threads under a controlled scheduler
(sys.settrace), one preemption at every line of the functions that touch the state (H9, H10), or two context switches at every
pair of lines of the patching context manager (H12).  H9a and H9b were repaired in /repo (fix: commits); H12 still fails on
/repo HEAD and is reproduced: recorded in known_findings.json with proposed_fixes/C15_3.diff.

**Round 7 (deepening).**  Verified on the real bodies by symbolic execution (were assumed / dataflow-only): the key expansion behind
the round-key cache (`expansion_contract`), the target-list provider of the char-map patcher (`provider_contract`), the permanent AES
patch (`permanent_patch_contract`), the archive configuration setter (`config_contract`).  See ENGINE.md "C15 round 7".

**Robustness (round 3).**  Obligations follow the data flow, not the text: stores, guards and foreign mutations are followed into
private helpers (a helper's store is "after a miss" if every call site is; a helper's setattr acts for the function that names the
patched object), bulk publications are read through comprehensions / staging dicts / helper returns, keys and dependencies of a
helper are lifted to its call sites, obligation ids name roles and indices instead of private names, and whatever is decided by an
over-approximation or by recognising a shape is `unknown` when it fails -- the native replayer (histories, damaged archives,
package-state snapshots, schedules) decides.  See ENGINE.md "C15 round 3".
"""
import ast

import z3

from pyvc import loader, ops
from pyvc.contracts import FnContract, Raises
from pyvc.flow import dotted, ground_obligation
from pyvc.symex import Executor
from pyvc.values import NONE, VBool, VExc, VExt, VFunc, VInt, VRef, VStr, VTuple, VUnk, fresh_name
from pyvc.verify import Maker

from contracts import c15_own as O

PDF = "sharepoint2text/parsing/extractors/pdf/pdf_extractor.py"
AESF = "sharepoint2text/parsing/extractors/pdf/_pypdf_aes_fallback.py"
ARCH = "sharepoint2text/parsing/extractors/archive_extractor.py"


class C15Executor(Executor):
    """Module attributes as ghost state; `yield` inside the context manager may be resumed normally,
    or by an exception thrown in / GeneratorExit (PY-GEN)."""

    def attrs(self, st):
        return dict(st.ghost.get("modattrs", {}))

    _suppress_cache = None

    def s_With(self, s, st):
        # `with contextlib.suppress(E): body` is executed as `try: body  except E: pass` (round 8)
        if self._suppress_cache is None:
            self._suppress_cache = {}
        if id(s) not in self._suppress_cache:
            self._suppress_cache[id(s)] = (s, O.suppress_as_try(self.module.imports, s))
        t = self._suppress_cache[id(s)][1]
        return self.s_Try(t, st) if t is not None else super().s_With(s, st)

    def b_getattr(self, st, args, kwargs, node):
        if len(args) >= 2 and isinstance(args[0], VExt) and args[0].sort == "PyModule" and isinstance(args[1], VStr) and args[1].const() is not None:
            key = (args[0].t.get_id(), args[1].const())
            a = self.attrs(st)
            if key not in a:
                a[key] = VExt("Callable")
                st.ghost["modattrs"] = a
                ent = dict(st.ghost.get("modattrs_entry", {}))
                ent[key] = a[key]
                st.ghost["modattrs_entry"] = ent
            return [(st, a[key])]
        if len(args) == 3 and isinstance(args[0], VFunc) and args[0].how == "ext":
            # getattr(<object of another library>, name, default): whether the attribute exists is not known -- either the default
            # or some value (the engine would resolve it to a dotted external name, which is always truthy)
            s2 = st.fork()
            return [(st, args[2]), (s2, VUnk(f"getattr:{args[1].const() if isinstance(args[1], VStr) else '?'}"))]
        return super().b_getattr(st, args, kwargs, node)

    def b_setattr(self, st, args, kwargs, node):
        if len(args) == 3 and isinstance(args[0], VExt) and args[0].sort == "PyModule" and isinstance(args[1], VStr) and args[1].const() is not None:
            key = (args[0].t.get_id(), args[1].const())
            a = self.attrs(st)
            if key not in a:
                ent = dict(st.ghost.get("modattrs_entry", {}))
                ent[key] = VExt("Callable")
                st.ghost["modattrs_entry"] = ent
            a[key] = args[2]
            st.ghost["modattrs"] = a
            return [(st, NONE)]
        from pyvc.values import VMod
        if len(args) == 3 and isinstance(args[0], VMod):
            nm = args[1].const() if isinstance(args[1], VStr) else None
            if nm is not None:       # the same act as `module.nm = value`
                return [(s2, NONE) for s2 in self.store_attr(st, args[0], nm, args[2], node)]
            st.ghost["foreign_stores"] = tuple(st.ghost.get("foreign_stores", ())) + (f"{self.loc(node)} setattr({args[0].name}, <computed name>, ...)",)
            return [(st, NONE)]
        return self.havoc_call(st, "setattr", args, node)

    # ---- module-level caches as abstract objects (sort "C15Cache"); what they hold is PUBLISHED (ghost set of heap refs)
    def published(self, st):
        return frozenset(st.ghost.get("published", ()))

    def publish(self, st, ref):
        st.ghost["published"] = self.published(st) | {ref}

    def cached_object(self, st, what):
        """Some object the cache held at entry: a list of unknown content, not fresh, published."""
        from pyvc.state import HeapObj
        ref = st.alloc(HeapObj("list", [VUnk(f"{what}[{i}]") for i in range(2)], None, False), self.refs)
        self.publish(st, ref)
        return VRef(ref)

    def note_store(self, st, ref, node):
        if ref in self.published(st) and self.loc(node) not in st.ghost.get("published_mutated", ()):
            # frame condition: an object that is stored in / was read out of a module-level cache is never mutated
            st.ghost["published_mutated"] = tuple(st.ghost.get("published_mutated", ())) + (self.loc(node),)
        return super().note_store(st, ref, node)

    def call_method(self, st, obj, name, args, kwargs, node):
        if type(obj).__name__ in ("VSetC", "VDictC") and name in O.DEF_MUTATORS:
            # a module-level literal table (the engine reads it as a constant) is mutated in place: shared by every call
            self.shared_mutated(st, node, f".{name}() on a module-level object")
            return [(st, NONE)]
        if isinstance(obj, VExt) and obj.sort == "C15Shared":
            if name in O.DEF_MUTATORS:
                self.shared_mutated(st, node, f".{name}() on a module-level object")
            return [(st, VUnk(f"shared.{name}()"))]
        if isinstance(obj, VRef) and obj.ref in self.published(st) and name in O.DEF_MUTATORS:
            st.ghost["published_mutated"] = tuple(st.ghost.get("published_mutated", ())) + (self.loc(node),)
        return super().call_method(st, obj, name, args, kwargs, node)

    def store_index(self, st, base, idx, v, node):
        if isinstance(base, VExt) and base.sort == "C15Shared":
            self.shared_mutated(st, node, "store into a module-level object")
            return [st]
        if isinstance(base, VExt) and base.sort == "C15Cache":
            if isinstance(v, VRef):
                self.publish(st, v.ref)
            st.ghost["cache_stores"] = tuple(st.ghost.get("cache_stores", ())) + ((idx, v),)
            return [st]
        return super().store_index(st, base, idx, v, node)

    # ---- round 7: other module-level mutable containers of the module are SHARED objects (sort "C15Shared"): every store into one /
    # mutator call on one is recorded like a mutation of a published object; handing one out is not "a fresh object"
    def shared_mutated(self, st, node, what="module-level object"):
        st.ghost["published_mutated"] = tuple(st.ghost.get("published_mutated", ())) + (f"{self.loc(node)} ({what})",)

    # ---- round 7: the archive configuration cell (only while `config_contract` is verified: it switches reg.global_cells on)
    def store_global(self, st, name, v):
        st.ghost["global_stores"] = tuple(st.ghost.get("global_stores", ())) + (name,)
        return super().store_global(st, name, v)

    def unknown_global(self, st, name):
        mk = getattr(self.reg, "c15_cell_invariant", {}).get((self.module.rel, name))
        if mk is None:
            return super().unknown_global(st, name)
        v = mk(self, st)                 # module invariant of the cell (see config_contract): an object of the configuration class
        st.ghost[("global", self.module.rel, name)] = v
        st.ghost["C15_old_cell"] = v
        return v

    def truth(self, st, v):
        if isinstance(v, VExt) and v.sort == "C15Shared":
            return VBool(z3.Bool(fresh_name("shared_nonempty")))     # whether a shared container is empty is not known
        return super().truth(st, v)

    def store_slice(self, st, base, sl, v, node):
        if isinstance(base, VExt) and base.sort == "C15Shared":
            self.shared_mutated(st, node, "slice store into a module-level object")
            return [st]
        return super().store_slice(st, base, sl, v, node)

    def store_attr(self, st, base, attr, v, node):
        from pyvc.values import VMod
        from pyvc.values import VType
        if isinstance(base, VMod) or (isinstance(base, VExt) and base.sort == "PyModule") or (isinstance(base, VFunc) and base.how == "ext") \
                or (isinstance(base, VType) and "." in str(base.name) and not str(base.name).startswith("sharepoint2text.")):
            # `module.name = value` / `module.Class.name = value`: the same act as setattr(module, "name", value) -- recorded
            # (place, target, value) for the frame clauses
            tgt = f"{(base.a if isinstance(base, VFunc) else getattr(base, 'name', None)) or 'module'}.{attr}"
            st.ghost["foreign_stores"] = tuple(st.ghost.get("foreign_stores", ())) + (f"{self.loc(node)} {tgt} = ...",)
            st.ghost["foreign_store_values"] = tuple(st.ghost.get("foreign_store_values", ())) + ((tgt, v),)
            return [st]
        return super().store_attr(st, base, attr, v, node)

    def get_attr(self, st, base, attr, node):
        if isinstance(base, VExt) and base.sort == "C15Shared":
            return [(st, VFunc("bound", base, attr))]
        return super().get_attr(st, base, attr, node)

    def get_index(self, st, base, idx, node):
        if isinstance(base, VExt) and base.sort == "C15Shared":
            return [(st, VUnk("shared_item"))]
        if isinstance(base, VFunc) and base.how == "ext" and isinstance(base.a, str) and not base.a.startswith("C15."):
            if isinstance(idx, VInt) and idx.const() is not None and base.a.endswith("crypt_provider"):
                # ASSUMED (listed): pypdf's `crypt_provider` is a tuple of strings (provider name, version): some string
                return [(st, VStr(z3.String(fresh_name("provider_tag"))))]
            return [(st, VUnk(f"{base.a}[..]"))]        # an item of an object of another library: unknown
        if isinstance(base, VTuple) and len(base.items) == 256 and isinstance(idx, VInt) and idx.const() is None and getattr(idx, "is_bv", False) \
                and idx.t.size() == 8 and _byte_table(base):
            # read of a constant 256-entry byte table at a symbolic byte: SOME byte (over-approximation; the frame / freshness
            # obligations of this pack do not depend on table contents, and the 256-way If chains cost seconds per call)
            return [(st, VInt(z3.BitVec(fresh_name("tbl"), 8)))]
        return super().get_index(st, base, idx, node)

    def b_len(self, st, args, kwargs, node):
        if args and isinstance(args[0], VExt) and args[0].sort == "C15Shared":
            n = z3.Int(fresh_name("shared_len"))
            st.assume(n >= 0)
            return [(st, VInt(n))]
        if args and isinstance(args[0], VExt) and args[0].sort == "C15Cache":
            n = z3.Int(fresh_name("cache_len"))
            st.assume(n >= 0)
            return [(st, VInt(n))]
        return super().b_len(st, args, kwargs, node)

    def e_Yield(self, n, st):
        res = super().e_Yield(n, st)
        out = []
        for (s, v) in res:
            # the consumer may throw any exception into the generator, or close it (GeneratorExit), at this yield
            bad = s.fork()
            t = z3.Int(fresh_name("thrown"))
            bad.assume(z3.And(t >= 0, t < len(self.uni.names), self.uni.subclass_term(t, "BaseException")))
            self.raise_in(bad, VExc(t, {"site": "thrown into generator at yield"}))
            out.append((s, v))
        return out


_BYTE_TABLES = {}


def _byte_table(v):
    k = id(v)
    if k not in _BYTE_TABLES:
        ok = True
        for x in v.items:
            c = x.const() if isinstance(x, VInt) else None
            if c is None or not (0 <= c <= 255):
                ok = False
                break
        _BYTE_TABLES[k] = (v, ok)       # keeps `v` alive: ids are not recycled
    return _BYTE_TABLES[k][1]


EXECUTOR = C15Executor


def patch_target_shapes(repo=None):
    """The (module alias, attribute) lists that _get_pypdf_char_map_patcher can return, read from its AST."""
    m = loader.module(PDF, repo)
    prov = discover(repo).get("char-map-targets")
    f = m.functions.get(prov[1]) if prov else None
    shapes = []
    if f is None:
        return None
    for n in ast.walk(f):
        if isinstance(n, ast.Return) and n.value is not None:
            v = n.value
            if isinstance(v, ast.Tuple) and len(v.elts) == 2 and isinstance(v.elts[0], ast.Name):
                # targets = [(mod, "name"), ...]; return targets, make_wrapper   (bound once, never mutated)
                nm = v.elts[0].id
                binds = [a for a in ast.walk(f) if isinstance(a, (ast.Assign, ast.AnnAssign)) and any(isinstance(t, ast.Name) and t.id == nm
                         for t in (a.targets if isinstance(a, ast.Assign) else [a.target]))]
                touched = [c for c in ast.walk(f) if isinstance(c, ast.Call) and isinstance(c.func, ast.Attribute) and isinstance(c.func.value, ast.Name)
                           and c.func.value.id == nm]
                cands = [a.value for a in binds if a.lineno < n.lineno and isinstance(a.value, ast.List)]
                if cands and not touched:
                    near = max(cands, key=lambda e: e.lineno)
                    v = ast.Tuple(elts=[near, v.elts[1]], ctx=ast.Load())
            if isinstance(v, ast.Tuple) and len(v.elts) == 2 and isinstance(v.elts[0], ast.List):
                items = []
                for e in v.elts[0].elts:
                    if isinstance(e, ast.Tuple) and len(e.elts) == 2 and isinstance(e.elts[0], ast.Name) and isinstance(e.elts[1], ast.Constant):
                        items.append((e.elts[0].id, e.elts[1].value))
                    else:
                        return None
                shapes.append(items)
            elif not (isinstance(v, ast.Name)):   # nested `return patched` of the wrappers is fine
                inner = [g for g in ast.walk(f) if isinstance(g, ast.FunctionDef) and g is not f and any(x is n for x in ast.walk(g))]
                if not inner:
                    return None
    return shapes


ROLE_OF = {}          # real target -> role name used in obligation ids (stable under renames of private functions)


def contracts(reg):
    out = []
    shapes = patch_target_shapes() or []
    roles = discover()
    prov = roles.get("char-map-targets") or (PDF, "_get_pypdf_char_map_patcher")
    cmk = roles.get("char-map-patcher") or (PDF, "_patched_build_char_map")
    ROLE_OF[f"{cmk[0]}::{cmk[1]}"] = "<char-map-patcher>"

    def patcher_result(ex, st, ctx):
        return VUnk("unused")

    # the patcher: returns one of the literal target lists (objects of distinct modules) and a total wrapper factory
    def m_patcher(ex, st, args, kwargs, node):
        outs = []
        bad = st.fork()
        ex.raise_in(bad, ex.mk_exc("AttributeError"))
        for items in shapes:
            s2 = st.fork()
            mods = {}
            tup = []
            for (alias, name) in items:
                if alias not in mods:
                    mods[alias] = VExt("PyModule")
                tup.append(VTuple([mods[alias], VStr(name)]))
            outs.append((s2, VTuple([VTuple(tup), VFunc("ext", "C15.make_wrapper")])))
        return outs

    reg.ext_models["C15.make_wrapper"] = lambda ex, st, args, kwargs, node: [(st, VExt("Callable"))]
    # (until round 6 this model was an ASSUMED shape; since round 7 `provider_contract` below verifies the provider's real body and
    #  one of its clauses is that every returned target list is one of `shapes`, so the model is the call-site view of a verified contract)
    # route calls of the real function to the model above
    def call_patcher(ex, st, args, kwargs, node):
        return m_patcher(ex, st, args, kwargs, node)
    reg.module_consts[(PDF, prov[1])] = VFunc("ext", "C15.patcher")
    reg.ext_models["C15.patcher"] = call_patcher

    pc_ = provider_contract(reg, prov, shapes)
    if pc_ is not None:
        out.append(pc_)
    else:
        reg.fn[f"{PDF}::{prov[1]}"] = FnContract(
            target=f"{PDF}::{prov[1]}", assumed=True, inline=False,
            note="ASSUMED shape, cross-checked against its AST by obligation H1.shape: returns (literal list of (module, name) pairs, "
                 "wrapper factory that only defines a closure) or raises AttributeError")
    pp_ = permanent_patch_contract(reg, roles.get("permanent-aes-patch"))
    if pp_ is not None:
        out.append(pp_)
    cc_ = config_contract(reg)
    if cc_ is not None:
        out.append(cc_)

    def restored(c):
        a = c.st.ghost.get("modattrs", {})
        e = c.st.ghost.get("modattrs_entry", {})
        ok = all(k in a and a[k] is e[k] for k in e)
        c.note = f"{len(e)} patched attribute(s); restored={ok}"
        return z3.BoolVal(ok)

    out.append(FnContract(
        target=f"{cmk[0]}::{cmk[1]}", params=[], generator=True,
        ensures=[("every-patched-attribute-restored-on-normal-exit", restored)],
        raises=[Raises("BaseException", sub=True, when=lambda c: restored(c) if c.st is not None else z3.BoolVal(True),
                       label="exception thrown into the with-body / GeneratorExit: attributes restored before it propagates")],
        note="the generator behind @contextlib.contextmanager; with-protocol = body up to the yield, then the finally block",
    ))
    out.extend(cache_contracts(reg))
    return out


def cache_contracts(reg):
    """`_get_round_keys` under a symbolic contract: the module-level OrderedDict is an abstract object whose values are
    PUBLISHED heap objects (shared with later calls and other threads).  Obligations, on the real body:
      * frame: no published object is mutated -- neither what a hit returns, nor what an eviction drops, nor the new entry after
        it was stored (ExecutorC15.note_store);
      * a miss stores under the key it looked up."""
    from pyvc.verify import p_unk
    out = []
    roles = discover()
    acc = roles.get("round-key-accessor") or (AESF, "_get_round_keys")
    ROLE_OF[f"{acc[0]}::{acc[1]}"] = "<round-key-accessor>"
    reg.module_consts[(AESF, roles.get("round-key-cache") or "_ROUND_KEY_CACHE")] = VExt("C15Cache")

    def m_get(ex, st, obj, args, kwargs, node):
        miss = st.fork()
        st.ghost["lookups"] = tuple(st.ghost.get("lookups", ())) + (args[0],)
        miss.ghost["lookups"] = tuple(miss.ghost.get("lookups", ())) + (args[0],)
        return [(miss, args[1] if len(args) > 1 else NONE), (st, ex.cached_object(st, "cached"))]

    def m_popitem(ex, st, obj, args, kwargs, node):
        return [(st, VTuple([VUnk("evicted_key"), ex.cached_object(st, "evicted")]))]

    def m_pop(ex, st, obj, args, kwargs, node):
        return [(st, ex.cached_object(st, "popped"))]

    reg.method_models[("C15Cache", "get")] = m_get
    reg.method_models[("C15Cache", "popitem")] = m_popitem
    reg.method_models[("C15Cache", "pop")] = m_pop
    reg.method_models[("C15Cache", "move_to_end")] = lambda ex, st, o, a, k, n: [(st, NONE)]
    reg.method_models[("C15Cache", "clear")] = lambda ex, st, o, a, k, n: [(st, NONE)]

    def m_expand(ex, st, args, kwargs, node):
        bad = st.fork()
        ex.raise_in(bad, ex.mk_exc("ValueError"))
        v = ex.new_list(st, [VUnk(f"rk[{i}]") for i in range(2)])       # a fresh list of round keys
        st.ghost["expansions"] = tuple(st.ghost.get("expansions", ())) + ((args[0] if args else None, v.ref),)
        return [(st, v)]

    reg.ext_models["C15.expand_key"] = m_expand
    expn = roles.get("key-expansion") or "_expand_key"
    exp_c = expansion_contract(reg, acc[0], expn)
    if exp_c is not None:
        # round 7: the expansion is VERIFIED on its real body (below); the accessor's call site applies that contract, whose
        # call-site view (result_maker: a list allocated by the call; ValueError) is exactly the former assumed model `m_expand`
        out.append(exp_c)
    else:
        reg.module_consts[(AESF, expn)] = VFunc("ext", "C15.expand_key")

    def stored_under_looked_up_key(c):
        stores = c.st.ghost.get("cache_stores", ())
        looks = c.st.ghost.get("lookups", ())
        ok = all(any(k is l for l in looks) or any(k is c.args[a] for a in c.args) for (k, _v) in stores)
        return z3.BoolVal(bool(ok))

    def stores_the_expansion_of_its_key(c):
        """memo soundness of the round-key cache, symbolically (H3a was a dataflow reading): whatever a call stores under a key is
        the object the (verified) key expansion returned FOR THAT VERY KEY in this call -- nothing older, nothing computed from
        another argument or from module state."""
        stores = c.st.ghost.get("cache_stores", ())
        exps = c.st.ghost.get("expansions", ())
        bad = [k for (k, v) in stores if not (isinstance(v, VRef) and any(a is k and r == v.ref for (a, r) in exps))]
        if bad:
            c.note = f"{len(bad)} store(s) of a value that is not the expansion of the key stored under"
        return z3.BoolVal(not bad)

    def not_mutated(c, raising=False):
        m = c.st.ghost.get("published_mutated", ()) if c.st is not None else ()
        if m and all("module-level object" in x for x in m):
            # (round 7) the accessor path writes OTHER module-level containers (lazily filled tables, scratch buffers): whether that
            # is a correct populate-once or shared working memory is H8 / H9b / H14's question -- undecided here, the schedule /
            # history replayer decides (never a refutation by this over-approximation)
            if raising:
                return z3.BoolVal(True)
            from pyvc.ops import Unsupported
            raise Unsupported("the accessor path writes module-level containers other than the cache at " + ", ".join(m)[:300])
        if m:
            c.note = "mutates an object the cache holds / has handed out at " + ", ".join(m)
        return z3.BoolVal(not m)

    accn = loader.module(acc[0]).functions.get(acc[1])
    acc_params = [a.arg for a in (accn.args.posonlyargs + accn.args.args)] if accn is not None else ["key"]
    out.append(FnContract(
        target=f"{acc[0]}::{acc[1]}", params=[(p_, p_unk()) for p_ in acc_params],
        ensures=[("objects-held-by-the-cache-are-not-mutated", not_mutated),
                 ("a-miss-stores-under-the-key-it-looked-up", stored_under_looked_up_key),
                 ("what-a-miss-stores-is-the-expansion-of-that-key", stores_the_expansion_of_its_key)],
        raises=[Raises("ValueError", when=lambda c: not_mutated(c, True), label="only the key-length check of _expand_key, and nothing published was mutated before")],
        note="cache object abstract; the key expansion is applied by its verified contract (round 7: a list allocated by the call, or ValueError)",
    ))
    return out


def _bound_names(fn):
    """Names bound inside `fn` (parameters, assignment / loop / with / except / import targets, nested defs), nested scopes included."""
    out = set()
    for n in ast.walk(fn):
        if isinstance(n, (ast.FunctionDef, ast.AsyncFunctionDef, ast.Lambda)):
            a = n.args
            out |= {x.arg for x in a.posonlyargs + a.args + a.kwonlyargs} | ({a.vararg.arg} if a.vararg else set()) | ({a.kwarg.arg} if a.kwarg else set())
            if not isinstance(n, ast.Lambda) and n is not fn:
                out.add(n.name)
        elif isinstance(n, ast.Name) and isinstance(n.ctx, (ast.Store, ast.Del)):
            out.add(n.id)
        elif isinstance(n, ast.ExceptHandler) and n.name:
            out.add(n.name)
        elif isinstance(n, (ast.Import, ast.ImportFrom)):
            out |= {(x.asname or x.name.split(".")[0]) for x in n.names}
    return out


def provider_contract(reg, prov, shapes):
    """Round 7.  The target-list provider of the char-map patcher under a contract VERIFIED by symbolic execution of its real body
    (it was an ASSUMED shape, cross-checked only syntactically by `policy#returns-literal-target-lists`).  On every path:
      * it returns (a list ALLOCATED BY THIS CALL of (module, constant attribute name) pairs, a wrapper factory DEFINED IN THIS CALL
        whose free variables are module-level names / imports only -- no per-call state is captured), or raises AttributeError;
      * the returned target list is one of the lists the patcher's call-site model forks over (same attribute names, same
        "same module / different module" pattern): the call-site view kept for the patcher is IMPLIED by this contract;
      * the provider itself patches nothing: no setattr / attribute store on another module (the only writer is the patcher,
        whose restore obligation H1 covers exactly the returned targets)."""
    try:
        mod = loader.module(prov[0])
        fn = mod.functions.get(prov[1])
        if fn is None or fn.args.args or fn.args.posonlyargs or fn.args.vararg or fn.args.kwarg or fn.args.kwonlyargs:
            return None
        import builtins
        mod_names = set(mod.functions) | set(mod.classes) | set(mod.assigns) | set(mod.imports) | set(dir(builtins))
        import_aliases = {(x.asname or x.name.split(".")[0]) for n in ast.walk(fn) if isinstance(n, (ast.Import, ast.ImportFrom)) for x in n.names}
        nested = {n.name: n for n in ast.walk(fn) if isinstance(n, ast.FunctionDef) and n is not fn}
    except Exception:  # noqa
        return None
    from pyvc.values import VMod

    def body(c):
        return not c.at_call_site and c.ex.contract is me

    def captured_state(fd):
        bound = _bound_names(fd)
        bad = []
        for x in ast.walk(fd):
            if isinstance(x, ast.Name) and isinstance(x.ctx, ast.Load) and x.id not in bound:
                if x.id in import_aliases or x.id in nested:
                    continue
                if x.id not in mod_names or x.id in _bound_names(fn) - set(nested) - import_aliases:
                    bad.append(x.id)
        return sorted(set(bad))

    def parts(c):
        r = c.result
        if not (isinstance(r, VTuple) and len(r.items) == 2):
            return None, None, f"returns {r!r}: not a (targets, factory) pair"
        tl, fac = r.items
        if not isinstance(tl, VRef) or tl.ref in c.entry.heap or not c.st.obj(tl.ref).fresh or c.st.obj(tl.ref).kind != "list" or c.st.obj(tl.ref).data is None:
            return None, None, "the target list is not a list allocated by this call"
        items = []
        for it in c.st.obj(tl.ref).data:
            if not (isinstance(it, VTuple) and len(it.items) == 2 and isinstance(it.items[0], (VMod, VExt)) and isinstance(it.items[1], VStr)
                    and it.items[1].const() is not None):
                return None, None, f"target {it!r} is not a (module, constant name) pair"
            m0 = it.items[0]
            items.append((m0.name if isinstance(m0, VMod) else str(m0.t), it.items[1].const()))
        return items, fac, ""

    def shape_ok(c):
        if not body(c):
            return z3.BoolVal(True)
        items, fac, why = parts(c)
        if items is None:
            c.note = why
            return z3.BoolVal(False)
        if isinstance(fac, VFunc) and fac.how == "repo":
            c.note = f"targets {items}; factory = module-level function {fac.b}"     # hoisted factory: stateless by construction
            return z3.BoolVal(True)
        if not (isinstance(fac, VFunc) and fac.how == "closure" and isinstance(fac.a, ast.FunctionDef) and any((fac.a.name, fac.a.lineno) == (n.name, n.lineno) for n in ast.walk(fn) if isinstance(n, ast.FunctionDef) and n is not fn)):
            c.note = f"the wrapper factory {fac!r} is not a function defined by this call"
            return z3.BoolVal(False)
        cap = captured_state(fac.a)
        if cap:
            c.note = f"the wrapper factory captures per-call state: {cap}"
            return z3.BoolVal(False)
        c.note = f"targets {items}; factory {fac.a.name} (line {fac.a.lineno})"
        return z3.BoolVal(True)

    def pattern(pairs):
        first = {}
        return [(first.setdefault(a, len(first)), n) for (a, n) in pairs]

    def in_call_site_model(c):
        if not body(c):
            return z3.BoolVal(True)
        items, _fac, why = parts(c)
        if items is None:
            c.note = why
            return z3.BoolVal(False)
        ok = any(pattern(items) == pattern(sh) for sh in shapes)
        c.note = f"{items} " + ("is" if ok else "is NOT") + f" one of the {len(shapes)} target lists of the patcher's call-site model"
        return z3.BoolVal(ok)

    def patches_nothing(c):
        if not body(c):
            return z3.BoolVal(True)
        w = tuple(c.st.ghost.get("foreign_stores", ())) + tuple(f"setattr(.., {k[1]!r}, ..)" for k in c.st.ghost.get("modattrs", {}))
        w += tuple(c.st.ghost.get("published_mutated", ()))
        if w:
            c.note = "writes outside the call: " + ", ".join(w)
        return z3.BoolVal(not w)

    me = FnContract(
        target=f"{prov[0]}::{prov[1]}", params=[],
        ensures=[("returns-a-new-target-list-of-(module,-constant-name)-pairs-and-a-stateless-wrapper-factory", shape_ok),
                 ("returned-targets-are-those-of-the-patcher's-call-site-model", in_call_site_model),
                 ("patches-nothing-itself", patches_nothing)],
        raises=[Raises("AttributeError", when=patches_nothing, label="no supported pypdf entry point: nothing was patched before")],
        note="verified on the real body (round 7); the patcher's call site keeps the model `C15.patcher`, which this contract implies",
    )
    ROLE_OF[me.target] = "<char-map-patch-targets>"
    return me


def config_contract(reg, repo=None):
    """Round 7.  The configuration function of the archive extractor (H4 was a dataflow reading: "`_config` is rebound only by
    configuration functions").  Found by what it does: the one function of the module that declares a module-level name `global`,
    whose initialiser constructs a frozen dataclass of the module, and takes every field of that class as an Optional parameter.
    Verified on the real body, with the module invariant "the cell holds an instance of that class with int / bool fields" for the
    value read at entry (inductive: the initialiser constructs one, and clause 1 shows the only writer stores one):
      1 the name is rebound to an object ALLOCATED BY THIS CALL of the configuration class -- configuration objects that earlier
        calls / running extractions hold are never changed under them; nothing else is written (no other global, no module-level
        container, no attribute of another module, no object older than the call);
      2 every field of the new object is the argument or, where the argument is absent, the previous value (solver-discharged per
        field) -- the configuration after a sequence of calls is a function of the arguments of those calls alone;
      3 no exception."""
    try:
        mod = loader.module(ARCH, repo)
        cands = []
        for q, fn in mod.functions.items():
            gl = [nm for x in ast.walk(fn) if isinstance(x, ast.Global) for nm in x.names]
            if "." in q or len(gl) != 1 or gl[0] not in mod.assigns:
                continue
            init = mod.assigns[gl[0]]
            if not (isinstance(init, ast.Call) and isinstance(init.func, ast.Name) and init.func.id in mod.classes and not init.args and not init.keywords):
                continue
            cls = mod.classes[init.func.id]
            cls = cls if isinstance(cls, ast.ClassDef) else getattr(cls, "node", None)
            if cls is None:
                continue
            fields = [(b.target.id, dotted(b.annotation) or "") for b in cls.body if isinstance(b, ast.AnnAssign) and isinstance(b.target, ast.Name)]
            ps = [a.arg for a in fn.args.posonlyargs + fn.args.args + fn.args.kwonlyargs]
            if fields and all(t in ("int", "bool") for (_f, t) in fields) and sorted(ps) == sorted(f for (f, _t) in fields) \
                    and not fn.args.vararg and not fn.args.kwarg:
                cands.append((q, fn, gl[0], init.func.id, fields, ps))
        if len(cands) != 1:
            return None
        q, fn, cell, cname, fields, ps = cands[0]
    except Exception:  # noqa
        return None
    from pyvc.state import HeapObj
    from pyvc.verify import p_opt, p_int, p_bool
    ftype = dict(fields)

    def old_object(ex, st):
        data = {f: (VInt(z3.Int(f"old_{f}")) if t == "int" else VBool(z3.Bool(f"old_{f}"))) for (f, t) in fields}
        return VRef(st.alloc(HeapObj("obj", data, cname, False), ex.refs))

    def mk_first(inner):
        def mk(ex, st, name):
            ex.reg.global_cells = True                                   # this contract only: its worker has its own registry
            ex.reg.c15_cell_invariant = {(ARCH, cell): old_object}
            return inner.make(ex, st, name)
        return Maker(mk, desc=inner.desc)

    params = []
    for i, p_ in enumerate(ps):
        m_ = p_opt(p_int() if ftype[p_] == "int" else p_bool())
        params.append((p_, mk_first(m_) if i == 0 else m_))

    def body(c):
        return not c.at_call_site and c.ex.contract is me

    def new_obj(c):
        v = c.st.ghost.get(("global", ARCH, cell))
        return v if isinstance(v, VRef) else None

    def replaced_not_mutated(c):
        if not body(c):
            return z3.BoolVal(True)
        g = c.st.ghost
        bad = [f"global {n} rebound" for n in g.get("global_stores", ()) if n != cell]
        bad += list(g.get("published_mutated", ())) + list(g.get("foreign_stores", ())) + [l for (_r, l) in g.get("nonfresh_stores", ())]
        v = new_obj(c)
        if cell not in g.get("global_stores", ()):
            bad.append(f"{cell} is not rebound")
        elif v is None or v.ref in c.entry.heap or not c.st.obj(v.ref).fresh or c.st.obj(v.ref).kind != "obj" or c.st.obj(v.ref).cls != cname:
            bad.append(f"{cell} is not rebound to a {cname} allocated by this call")
        old = g.get("C15_old_cell")
        if isinstance(old, VRef) and c.st.heap.get(old.ref) is not None and c.st.obj(old.ref).data != {f: c.st.obj(old.ref).data.get(f) for f in ftype}:
            bad.append("fields added to the previous configuration object")
        if bad:
            c.note = "; ".join(bad[:4])
        return z3.BoolVal(not bad)

    def field_clause(f):
        def cl(c):
            if not body(c):
                return z3.BoolVal(True)
            v = new_obj(c)
            if v is None or c.st.obj(v.ref).kind != "obj" or f not in (c.st.obj(v.ref).data or {}):
                c.note = f"no new configuration object with field {f}"
                return z3.BoolVal(False)
            new = c.st.obj(v.ref).data[f]
            a = c.args[f]
            if ftype[f] == "int":
                old = z3.Int(f"old_{f}")
                want = old if a is NONE or not isinstance(a, VInt) else z3.If(a.t != 0, a.t, old)       # `arg or previous`
                return ops.int_term(new) == want if isinstance(new, VInt) else z3.BoolVal(False)
            old = z3.Bool(f"old_{f}")
            want = old if a is NONE or not isinstance(a, VBool) else a.t                                 # `arg if arg is not None else previous`
            return c.ex._b(new) == want if isinstance(new, VBool) else z3.BoolVal(False)
        return cl

    me = FnContract(
        target=f"{ARCH}::{q}", params=params,
        ensures=[("rebinds-the-configuration-to-a-new-object-and-writes-nothing-else", replaced_not_mutated)] +
                [(f"field#{i}-is-the-argument-or-the-previous-value", field_clause(f)) for i, (f, _t) in enumerate(fields)],
        raises=[], total=True,
        note="verified on the real body (round 7) under the module invariant that the cell holds a configuration object",
    )
    ROLE_OF[me.target] = "<configuration-setter>"
    return me


def permanent_patch_contract(reg, key):
    """Round 7.  The one permanent patch (pypdf's fallback AES provider) by symbolic execution of its real body; H2 was a dataflow
    reading only.  The attribute stores on pypdf modules / classes are recorded in order as ghost state:
      * a call that returns False, and a call that raises, has installed NOTHING (no partial installation);
      * every installed value is closed: a module-level function of the package, a function defined in this call that captures no
        per-call state, or an object of the patched library itself (re-export) -- so what a call installs does not depend on when it
        runs or on what ran before;
      * all installing paths install the same targets in the same order: with closed values, a second call rebinds the same names
        to equivalent values (idempotent), which is what makes the permanent change a constant of the process."""
    try:
        if key is None:
            return None
        mod = loader.module(key[0])
        fn = mod.functions.get(key[1])
        if fn is None or fn.args.args or fn.args.posonlyargs or fn.args.vararg or fn.args.kwarg or fn.args.kwonlyargs:
            return None
        import builtins
        mod_names = set(mod.functions) | set(mod.classes) | set(mod.assigns) | set(mod.imports) | set(dir(builtins))
        import_aliases = {(x.asname or x.name.split(".")[0]) for n in ast.walk(fn) if isinstance(n, (ast.Import, ast.ImportFrom)) for x in n.names}
        nested = {n.name for n in ast.walk(fn) if isinstance(n, ast.FunctionDef) and n is not fn}
        locals_ = _bound_names(fn) - nested - import_aliases
    except Exception:  # noqa
        return None
    seen = {}

    def body(c):
        return not c.at_call_site and c.ex.contract is me

    def captured(fd):
        bound = _bound_names(fd)
        return sorted({x.id for x in ast.walk(fd) if isinstance(x, ast.Name) and isinstance(x.ctx, ast.Load) and x.id not in bound
                       and x.id not in import_aliases and x.id not in nested and (x.id not in mod_names or x.id in locals_)})

    def stores(c):
        return tuple(c.st.ghost.get("foreign_store_values", ()))

    def other_writes(c):
        return tuple(f"setattr(.., {k[1]!r}, ..)" for k in c.st.ghost.get("modattrs", {})) + tuple(c.st.ghost.get("published_mutated", ())) + \
            tuple(x for x in c.st.ghost.get("foreign_stores", ()) if "setattr(" in x)

    def nothing_unless_true(c):
        if not body(c):
            return z3.BoolVal(True)
        r = c.result
        rc = r.const() if isinstance(r, VBool) else None
        if rc is None:
            c.note = f"returns {r!r}: not a definite True / False"
            return z3.BoolVal(False)
        if rc is False and (stores(c) or other_writes(c)):
            c.note = "returns False after installing " + ", ".join(t for (t, _v) in stores(c)) + " ".join(other_writes(c))
            return z3.BoolVal(False)
        if rc is True and not stores(c):
            c.note = "returns True without installing anything"
            return z3.BoolVal(False)
        return z3.BoolVal(True)

    def closed_values(c):
        if not body(c):
            return z3.BoolVal(True)
        bad = list(other_writes(c))
        for (t, v) in stores(c):
            if isinstance(v, VFunc) and v.how == "repo":
                continue
            if isinstance(v, VFunc) and v.how == "ext" and isinstance(v.a, str) and v.a.split(".")[0] == t.split(".")[0]:
                continue        # an object of the patched library itself
            if type(v).__name__ == "VType" and str(v.name).split(".")[0] == t.split(".")[0] and "." in str(v.name):
                continue        # a class of the patched library itself (re-export)
            if isinstance(v, VFunc) and v.how == "closure" and isinstance(v.a, ast.FunctionDef) and v.a.name in nested:
                cap = captured(v.a)
                if not cap:
                    continue
                bad.append(f"{t} <- {v.a.name} capturing per-call state {cap}")
                continue
            bad.append(f"{t} <- {v!r}")
        if bad:
            c.note = "; ".join(bad[:4])
        else:
            c.note = f"{len(stores(c))} installation(s), all closed values"
        return z3.BoolVal(not bad)

    def same_targets(c):
        if not body(c):
            return z3.BoolVal(True)
        ts = tuple(t for (t, _v) in stores(c))
        if not ts:
            return z3.BoolVal(True)
        first = seen.setdefault("targets", ts)
        if first != ts:
            c.note = f"one path installs {list(first)[:6]}, another {list(ts)[:6]}"
        return z3.BoolVal(first == ts)

    def nothing_installed(c):
        if not body(c):
            return z3.BoolVal(True)
        w = tuple(t for (t, _v) in stores(c)) + other_writes(c)
        if w:
            c.note = "raises after installing " + ", ".join(w[:6])
        return z3.BoolVal(not w)

    me = FnContract(
        target=f"{key[0]}::{key[1]}", params=[],
        ensures=[("installs-nothing-unless-it-returns-True", nothing_unless_true),
                 ("every-installed-value-is-closed-(no-per-call-state)", closed_values),
                 ("all-installing-paths-install-the-same-targets-(idempotent)", same_targets)],
        raises=[Raises("Exception", sub=True, when=nothing_installed,
                       label="whatever reading pypdf's provider tag / layout raises (ImportError, AttributeError, ...): nothing was installed before")],
        note="verified on the real body (round 7): attribute stores on pypdf modules / classes as a ghost installation list",
    )
    ROLE_OF[me.target] = "<permanent-aes-patch>"
    return me


_MUTABLE_CTORS = {"list", "dict", "set", "bytearray", "OrderedDict", "defaultdict", "deque", "Counter", "array"}


def shared_containers(rel, repo=None, skip=()):
    """Module-level names bound to a mutable container that is not a literal table of constants (empty / non-constant display,
    comprehension, constructor call, `[x] * n`): scratch buffers, registries, caches."""
    out = []
    try:
        m = loader.module(rel, repo)
        for name, v in m.assigns.items():
            if name in skip:
                continue
            if isinstance(v, ast.BinOp) and isinstance(v.op, ast.Mult):
                v = v.left if isinstance(v.left, (ast.List, ast.Call)) else v.right
            if isinstance(v, (ast.List, ast.Set)) and v.elts and all(isinstance(e, ast.Constant) for e in v.elts):
                continue        # a literal table of constants: read as its content (engine: immutable); a writer is H5's / H10's finding
            if isinstance(v, (ast.List, ast.ListComp, ast.Dict, ast.DictComp, ast.Set, ast.SetComp)):
                out.append(name)
            elif isinstance(v, ast.Call):
                d = dotted(v.func) or ""
                if d.split(".")[-1] in _MUTABLE_CTORS:
                    out.append(name)
    except Exception:  # noqa
        return []
    return out


def expansion_contract(reg, rel, name):
    """Round 7.  The key expansion behind the round-key cache under a contract VERIFIED on its real body -- it was the assumed
    half of the accessor's contract ("returns a fresh list or raises ValueError").  What isolation needs from it:
      * the result is a list ALLOCATED BY THIS CALL whose elements are immutable byte strings: nothing another call, the cache or
        another thread holds can alias it (so publishing it in the cache publishes nothing else);
      * no object that existed before the call (module-level tables / buffers, anything the cache holds) is written;
      * the only exception is the ValueError of the key-length check, raised exactly for lengths other than 16 / 24 / 32.
    Scope: symbolic key BYTES of length 16, 24, 32 (all lengths with a normal return; loops run to their real, length-determined
    bounds) and a key of any other symbolic length.  256-entry constant byte tables are read as "some byte"."""
    try:
        fn = loader.module(rel).functions.get(name)
        if fn is None:
            return None
        ps = [a.arg for a in (fn.args.posonlyargs + fn.args.args)]
        if len(ps) != 1 or fn.args.vararg or fn.args.kwarg or fn.args.kwonlyargs:
            return None
        cache_name = discover().get("round-key-cache") or "_ROUND_KEY_CACHE"
        for nm in shared_containers(rel, skip=(cache_name,)):
            reg.module_consts.setdefault((rel, nm), VExt("C15Shared"))
    except Exception:  # noqa
        return None
    from pyvc.values import VBytes, VSeq
    from pyvc.verify import p_bytes
    key = ps[0]
    LENS = (16, 24, 32)
    other_len = z3.Int("C15_other_key_len")

    def mk(ex, st, nm):
        alts = [(None, p_bytes(n).make(ex, st, nm)[0][1]) for n in LENS]
        alts.append((z3.And(other_len >= 0, *[other_len != n for n in LENS]),
                     VSeq(other_len, lambda i: VInt(z3.BitVec(fresh_name("kb"), 8)), "int")))
        return alts

    def body(c):
        return not c.at_call_site and c.ex.contract is me

    def fresh_result(c):
        if not body(c):
            return z3.BoolVal(True)
        r = c.result
        if not isinstance(r, VRef):
            c.note = f"returns {r!r}: not an object allocated by this call"
            return z3.BoolVal(False)
        o = c.st.obj(r.ref)
        if r.ref in c.entry.heap or not o.fresh or r.ref in c.ex.published(c.st):
            c.note = "the returned list existed before the call / is held by the cache"
            return z3.BoolVal(False)
        if o.kind != "list" or o.data is None or not all(isinstance(x, (VBytes, VStr, VInt, VBool)) for x in o.data):
            c.note = f"returned {o.kind} with elements that are not known to be immutable values"
            return z3.BoolVal(False)
        c.note = f"list of {len(o.data)} byte strings allocated by the call"
        return z3.BoolVal(True)

    def nothing_older_written(c):
        if not body(c):
            return z3.BoolVal(True)
        m = tuple(c.st.ghost.get("published_mutated", ())) + tuple(l for (_r, l) in c.st.ghost.get("nonfresh_stores", ()))
        if m:
            c.note = "writes to an object that existed before the call at " + ", ".join(m)
        return z3.BoolVal(not m)

    def bad_length(c):
        if not body(c):
            return z3.BoolVal(True)
        k = c.args[key]
        ok = isinstance(k, VSeq)         # the three alternatives of concrete, valid length must not raise at all
        return z3.And(z3.BoolVal(ok), nothing_older_written(c))

    def expansion_result(ex, st, ctx):
        v = ex.new_list(st, [VUnk(f"rk[{i}]") for i in range(2)])
        # ghost trace of expansions (argument, result) for the accessor's memo clause
        st.ghost["expansions"] = tuple(st.ghost.get("expansions", ())) + ((ctx.args.get(key), v.ref),)
        return v

    me = FnContract(
        target=f"{rel}::{name}", params=[(key, Maker(mk, desc="bytes of length 16 | 24 | 32 | any other length"))],
        ensures=[("result-is-a-list-allocated-by-this-call", fresh_result),
                 ("no-object-older-than-the-call-is-written", nothing_older_written)],
        raises=[Raises("ValueError", when=bad_length, label="exactly the key-length check; nothing written before")],
        result_maker=expansion_result,
        note="verified on the real body (round 7); call-site view = a list allocated by the call or ValueError (the former assumed model)",
    )
    ROLE_OF[me.target] = "<key-expansion>"
    return me


# ---------------------------------------------------------------- dataflow --
def _own(fnode):
    stack = list(ast.iter_child_nodes(fnode))
    while stack:
        n = stack.pop()
        yield n
        if isinstance(n, (ast.FunctionDef, ast.AsyncFunctionDef, ast.Lambda, ast.ClassDef)):
            continue
        stack.extend(ast.iter_child_nodes(n))


def _released_by_next_finally(fnode, parents, assign, tgt, releasers):
    """`tgt = opener(...)` is released on all paths when the statement right after it (same block) is a `try` whose `finally` calls
    `tgt.<releaser>()` as a statement of its own (not under a condition) and `tgt` is a plain local bound nowhere else in the function:
    what `with opener(...) as ...:` expands to.  Anything else is not recognised here (the caller answers `unknown`)."""
    if not tgt.isidentifier():
        return False
    if sum(1 for x in ast.walk(fnode) if isinstance(x, ast.Name) and x.id == tgt and isinstance(x.ctx, (ast.Store, ast.Del))) != 1:
        return False
    if any(isinstance(x, (ast.Global, ast.Nonlocal)) and tgt in x.names for x in ast.walk(fnode)):
        return False
    owner = parents.get(id(assign))
    for fld in ("body", "orelse", "finalbody"):
        stmts = getattr(owner, fld, None)
        if isinstance(stmts, list) and any(st is assign for st in stmts):
            i = next(k for k, st in enumerate(stmts) if st is assign)
            nxt = stmts[i + 1] if i + 1 < len(stmts) else None
            return isinstance(nxt, ast.Try) and any(
                isinstance(st, ast.Expr) and isinstance(st.value, ast.Call) and isinstance(st.value.func, ast.Attribute)
                and st.value.func.attr in releasers and isinstance(st.value.func.value, ast.Name) and st.value.func.value.id == tgt
                for st in nxt.finalbody)
    return False


def deps(fnode, expr, params):
    """Parameters that `expr` may depend on (through local assignments), flow-insensitive."""
    dep = {p: {p} for p in params}
    for _ in range(6):
        for n in _own(fnode):
            tgts, val = [], None
            if isinstance(n, ast.Assign):
                tgts, val = n.targets, n.value
            elif isinstance(n, (ast.AugAssign, ast.AnnAssign)) and getattr(n, "value", None) is not None:
                tgts, val = [n.target], n.value
            elif isinstance(n, ast.For):
                tgts, val = [n.target], n.iter
            if val is None:
                continue
            d = set()
            for x in ast.walk(val):
                if isinstance(x, ast.Name):
                    d |= dep.get(x.id, set())
            for t in tgts:
                elts = t.elts if isinstance(t, (ast.Tuple, ast.List)) else [t]
                for e in elts:
                    b = e
                    extra = set()
                    while isinstance(b, (ast.Subscript, ast.Attribute)):
                        if isinstance(b, ast.Subscript):      # names in the index are read, and flow into the container
                            for x in ast.walk(b.slice):
                                if isinstance(x, ast.Name):
                                    extra |= dep.get(x.id, set())
                        b = b.value
                    if isinstance(b, ast.Name):
                        dep[b.id] = dep.get(b.id, set()) | d | extra
    out = set()
    for x in ast.walk(expr):
        if isinstance(x, ast.Name):
            out |= dep.get(x.id, set())
    return out


SETTERS = {
    "os.putenv", "os.unsetenv", "os.chdir", "os.umask", "os.environ.setdefault", "os.environ.update", "os.environ.pop", "locale.setlocale",
    "warnings.filterwarnings", "warnings.simplefilter", "warnings.resetwarnings", "logging.disable", "logging.basicConfig", "logging.captureWarnings",
    "sys.setrecursionlimit", "sys.setswitchinterval", "sys.settrace", "sys.setprofile", "threading.settrace", "threading.setprofile",
    "socket.setdefaulttimeout", "mimetypes.add_type", "mimetypes.init", "random.seed", "csv.field_size_limit", "csv.register_dialect",
    "xml.etree.ElementTree.register_namespace", "atexit.register", "signal.signal", "signal.alarm", "gc.disable", "gc.enable", "gc.set_threshold",
    "codecs.register", "codecs.register_error", "decimal.setcontext", "email.charset.add_charset", "email.charset.add_alias", "faulthandler.enable",
    "resource.setrlimit", "time.tzset", "importlib.reload", "zipfile.ZipFile.register", "copyreg.pickle", "sys.setdefaultencoding",
    "struct._clearcache", "re.purge", "linecache.clearcache", "tracemalloc.start", "multiprocessing.set_start_method",
}
GETTER_WITHOUT_ARGS = {"csv.field_size_limit", "locale.setlocale"}


_ANALYSES = {}


def analysis(repo=None):
    key = repo or loader.REPO
    if key not in _ANALYSES:
        files = [f for f in loader.all_package_files(repo) if "/sharepoint_io/" not in f]
        _ANALYSES[key] = O.Analysis(repo, files)
    return _ANALYSES[key]


def _is_import_binding(fnode, name):
    for n in ast.walk(fnode):
        if isinstance(n, (ast.Import, ast.ImportFrom)):
            for a in n.names:
                if (a.asname or a.name.split(".")[0]) == name:
                    return True
    return False


def registry_names(an):
    """Names of the functions that tables of strings refer to (the router's extractor registry): extraction entry points."""
    fn_names = {f.node.name for f in an.fns.values()}
    out = set()
    for rel, m in an.mods.items():
        for n in ast.walk(m.tree):
            if isinstance(n, ast.Constant) and isinstance(n.value, str) and n.value in fn_names and n.value.startswith("read_"):
                out.add(n.value)
    return out


def lazy_name(an, afn, nm):
    """`global nm` in afn: exactly one rebinding statement in the whole module, guarded by a test of nm itself (is None / not nm),
    the value computed from nothing call-specific (no parameter, no written module state)."""
    m = an.mods[afn.rel]
    sites = []
    for q, f in m.functions.items():
        g = an.fns.get((afn.rel, q))
        if g is None or nm not in g.globals_decl:
            continue
        for n in g.own:
            if isinstance(n, (ast.Assign, ast.AnnAssign, ast.AugAssign)):
                tg = n.targets if isinstance(n, ast.Assign) else [n.target]
                if any(isinstance(t, ast.Name) and t.id == nm for t in tg):
                    sites.append((g, n))
            elif isinstance(n, (ast.For, ast.With, ast.NamedExpr, ast.Delete)) and O._binds(n, nm) and not isinstance(n, (ast.For, ast.With)):
                sites.append((g, None))
    if len(sites) != 1 or sites[0][1] is None or isinstance(sites[0][1], ast.AugAssign):
        return False
    g, n = sites[0]
    pm = O.parents_of(g)
    guarded = False
    for i in g.own:
        if isinstance(i, ast.If) and any(isinstance(t, ast.Name) and t.id == nm for t in ast.walk(i.test)):
            if O.inside(pm, n, i.body) or O.inside(pm, n, i.orelse) or ((O.exits(i.body) or O.exits(i.orelse)) and i.end_lineno < n.lineno):
                guarded = True
    return guarded and not O.deps(an, g, n.value, at=n)


def lazy_singleton(an, x, rebinds):
    if not rebinds:
        return False
    e = rebinds[0]
    afn = an.fns[e["fn"]]
    return all(r["fn"] == e["fn"] for r in rebinds) and lazy_name(an, afn, x.split("::", 1)[1])


_ROLES = {}


def discover(repo=None):
    """The functions / objects the named contracts are about, found by what they DO (so that a rename does not lose the contract);
    the historical names are only the fallback when the role is not filled by exactly one candidate."""
    key = repo or loader.REPO
    if key in _ROLES:
        return _ROLES[key]
    an = analysis(repo)
    roles = {}
    roots_cm, roots_perm = {}, {}
    for e in an.xmuts():
        fn = an.fns[e["fn"]]
        recv = O.receiver_of(e["node"], lambda t: ("X:" + e["state"]) in an.L(fn, t, e["node"]))
        for r in (O.origin_roots(an, fn, recv) if recv is not None else [fn]):
            (roots_cm if O.is_context_manager(r) else roots_perm)[r.key()] = r
    cands = [k for k in roots_cm if k[0] == PDF]
    roles["char-map-patcher"] = cands[0] if len(cands) == 1 else ((PDF, "_patched_build_char_map") if (PDF, "_patched_build_char_map") in an.fns else None)
    cands = [k for k in roots_perm if k[0] == AESF]
    roles["permanent-aes-patch"] = cands[0] if len(cands) == 1 else ((AESF, "patch_pypdf_fallback_aes") if (AESF, "patch_pypdf_fallback_aes") in an.fns else None)
    # the target-list provider of the patcher: the package function whose result the patcher unpacks before patching
    roles["char-map-targets"] = (PDF, "_get_pypdf_char_map_patcher") if (PDF, "_get_pypdf_char_map_patcher") in an.fns else None
    cm = an.fns.get(roles["char-map-patcher"]) if roles["char-map-patcher"] else None
    if cm is not None:
        prov = []
        for n in cm.own:
            if isinstance(n, ast.Assign) and isinstance(n.targets[0], (ast.Tuple, ast.List)) and len(n.targets[0].elts) == 2 and isinstance(n.value, ast.Call):
                k = an.resolve_call(cm, n.value)
                if k is not None and k[0] == PDF:
                    prov.append(k)
        if len(prov) == 1:
            roles["char-map-targets"] = prov[0]
    # the evicting keyed cache of the AES module, its accessor (root of the store's guard chain) and the expansion it memoises
    st = [x for x in an.written_states() if x.startswith(AESF.split("/")[-1] + "::") and any(ev["removal"] for ev in an.writes(x))]
    roles["round-key-cache"], roles["round-key-accessor"], roles["key-expansion"] = "_ROUND_KEY_CACHE", (AESF, "_get_round_keys"), "_expand_key"
    if len(st) == 1:
        x = st[0]
        roles["round-key-cache"] = x.split("::", 1)[1]
        roots, exp = {}, set()
        for ev in O.content_writes(an, x):
            if ev["removal"] or ev["key"] is None:
                continue
            fn = an.fns[ev["fn"]]
            for (root, guarded, chain) in O.guard_chains(an, fn, ev["node"], x):
                roots[root.key()] = root
            v = ev["value"]
            if isinstance(v, ast.Name):
                v = O.single_assignment(fn, v.id)
            if isinstance(v, ast.Call) and isinstance(v.func, ast.Name):
                exp.add(v.func.id)
        if len(roots) == 1:
            roles["round-key-accessor"] = next(iter(roots))
        if len(exp) == 1:
            roles["key-expansion"] = next(iter(exp))
    _ROLES[key] = roles
    return roles


def policy(repo, tier):
    obls, fns = [], []
    files = [f for f in loader.all_package_files(repo) if "/sharepoint_io/" not in f]
    mods = {f: loader.module(f, repo) for f in files}
    G = lambda oid, ok, why="", loc="", definite=True: obls.append(ground_obligation(oid, ok, why, loc, definite=definite))
    an = analysis(repo)
    roles = discover(repo)
    rel_of = {an.sid(rel, name): rel for (rel, name) in an.state}
    base = lambda rel: rel.split("/")[-1]

    def GH(oid, ok, why, loc, definite=True, h=None):
        o = ground_obligation(oid, ok, why, loc, definite=definite)
        if h is not None:
            o["replay_hint"] = h
        obls.append(o)

    # H1.shape: the patcher returns only literal (module, name) lists and its wrapper factories only define closures
    shapes = patch_target_shapes(repo)
    G("C15/pdf_extractor.py::<char-map-patch-targets>/policy#returns-literal-target-lists", bool(shapes) and all(1 <= len(s) <= 3 for s in shapes),
      f"target lists: {shapes}", PDF, definite=False)
    # with-only use of the context manager (all call sites in the package, found through the call graph)
    cm_key = roles.get("char-map-patcher")
    sites_cm = O.callers(an).get(cm_key, []) if cm_key else []
    as_with = 0
    for (g, call) in sites_cm:
        pm = O.parents_of(g)
        par = pm.get(id(call))
        if isinstance(par, ast.withitem):
            as_with += 1
        elif isinstance(par, ast.Assign) and len(par.targets) == 1 and isinstance(par.targets[0], ast.Name):
            # cm = patcher(); with cm: ...   -- every use of the local is a with-item
            nm = par.targets[0].id
            uses = [n for n in g.own if isinstance(n, ast.Name) and n.id == nm and isinstance(n.ctx, ast.Load)]
            if uses and all(isinstance(pm.get(id(u)), ast.withitem) for u in uses):
                as_with += 1
        elif isinstance(par, ast.Call) and isinstance(pm.get(id(par)), ast.withitem) and O.dotted(par.func).endswith("enter_context"):
            as_with += 1
    cm_fn = an.fns.get(cm_key) if cm_key else None
    G("C15/pdf_extractor.py::<char-map-patcher>/policy#used-only-as-with-item",
      cm_fn is not None and len(sites_cm) >= 1 and as_with == len(sites_cm) and not O.referenced_elsewhere(an, cm_fn),
      f"{cm_key[1] if cm_key else '?'}: {as_with}/{len(sites_cm)} uses are with-items", PDF, definite=False)

    # the patch must not outlive the statement that applies it: a `yield` inside the with-body hands control to the consumer while the
    # patch is installed -- when (whether) it is undone then depends on when the consumer resumes / drops the generator
    susp = []
    for (g, call) in sites_cm:
        pm = O.parents_of(g)
        w = pm.get(id(pm.get(id(call)))) if isinstance(pm.get(id(call)), ast.withitem) else None
        if isinstance(w, (ast.With, ast.AsyncWith)):
            inner = [n for st_ in w.body for n in [st_] + list(O._own(st_)) if isinstance(n, (ast.Yield, ast.YieldFrom, ast.Await))]
            if inner:
                susp.append(f"{g.q} line {inner[0].lineno}: yields inside `with {cm_key[1]}()`")
    GH("C15/pdf_extractor.py::<char-map-patcher>/policy#with-body-does-not-suspend", cm_fn is not None and not susp,
       "; ".join(susp) or f"{len(sites_cm)} with-statement(s), none yields while the patch is installed", PDF, definite=False,
       h={"rel": PDF, "held_exceptions": True})
    # ---- foreign objects (other libraries, the interpreter): who mutates them, on whose behalf (root = where the object is named)
    # process entry points (modules with an `if __name__ == "__main__"` guard): what a command-line front end does to ITS process
    # before / after calling the library is not the library's extraction code
    script_mods = {rel for rel, m in mods.items() if any(isinstance(n, ast.If) and "__name__" in ast.unparse(n.test) and "__main__" in ast.unparse(n.test) for n in m.tree.body)}
    xm = []
    for e in an.xmuts():
        if e["fn"][0] in script_mods and not O.callers(an).get(e["fn"]):
            continue
        fn = an.fns[e["fn"]]
        recv = O.receiver_of(e["node"], lambda t: ("X:" + e["state"]) in an.L(fn, t, e["node"]))
        roots = O.origin_roots(an, fn, recv) if recv is not None else [fn]
        xm.append((e, fn, roots))
    perm_key = roles.get("permanent-aes-patch")
    # H2: the permanent AES patch installs module-level functions or closures over nothing call-specific -- also through helpers
    ok, why, unknown_origin = perm_key is not None, [], False
    if perm_key is not None:
        pfn = an.fns[perm_key]
        f = pfn.node
        nested = {n.name: n for n in _own(f) if isinstance(n, ast.FunctionDef)}
        for name, g in nested.items():
            params = {a.arg for a in g.args.args}
            free = {x.id for x in ast.walk(g) if isinstance(x, ast.Name) and isinstance(x.ctx, ast.Load)} - params - {a.id for a in ast.walk(g) if isinstance(a, ast.Name) and isinstance(a.ctx, ast.Store)}
            captured = free & (pfn.locals - set(nested))
            captured = {c for c in captured if not _is_import_binding(f, c)}
            if captured:
                ok = False
                why.append(f"{name} captures per-call state {sorted(captured)}")
        n_inst = 0
        for (e, fn, roots) in xm:
            if not any(r.key() == perm_key for r in roots) or e["value"] is None:
                continue
            n_inst += 1
            for (kind, what) in sorted(O.value_origins(an, fn, e["value"])):
                if kind in ("fn", "class") or (kind == "nested" and what.startswith(perm_key[1] + ".<locals>.")) or (kind == "foreign" and what.split(".")[0] == e["state"].split(".")[0]):
                    continue
                if kind == "unknown":
                    unknown_origin = True
                ok = False
                why.append(f"{e['fn'][1]} {e['how'][:60]}: installs {kind} {what}")
        if n_inst == 0:
            ok, unknown_origin = False, True
            why.append("no installation site found")
        # (round 7: the function is listed under contract by its symbolic contract `permanent_patch_contract`; H2 stays as the
        #  interprocedural dataflow reading of the same claim -- helpers that install on its behalf)
    GH("C15/_pypdf_aes_fallback.py::<permanent-aes-patch>/frame#installs-only-stateless-functions-(idempotent)", ok,
       "; ".join(why[:4]) or f"{perm_key[1]}: every installed value is a module-level function, a closure without captured state or a re-export", AESF,
       definite=not unknown_origin)

    # ---- module-level state: inventory, memo soundness, write discipline, ownership, atomicity (contracts/c15_own.py)
    written = an.written_states()
    per_file = {}
    for x in written:
        per_file.setdefault(x.split("::")[0], []).append(x)
    sid = {}
    for fb_, xs in per_file.items():
        def line_of(x):
            rel = rel_of.get(x)
            e = an.state.get((rel, x.split("::", 1)[1])) if rel else None
            return (getattr(e, "lineno", 10 ** 6), x)
        for i, x in enumerate(sorted(xs, key=line_of)):
            sid[x] = f"C15/{fb_}::state#{i}"
    entry_names = registry_names(an)

    def hint(x, **kw):
        return dict({"state": x, "rel": rel_of.get(x), "functions": O.touching_functions(an, x)}, **kw)

    unrecognised = []
    for x in written:
        S = sid[x]
        cw = sorted(O.content_writes(an, x), key=lambda e: (e["fn"], e["node"].lineno, e["node"].col_offset))
        rebinds = [e for e in an.writes(x) if e["rebind"]]
        # store sites: (root accessor, function in which key / value are written, key, value, chain for lifting, description)
        sites, opaque = [], []
        chains_of = {}
        for e in cw:
            if e["removal"]:
                continue
            fn = an.fns[e["fn"]]
            gcs = O.guard_chains(an, fn, e["node"], x)
            chains_of[id(e)] = gcs
            n = e["node"]
            bulk = isinstance(n, ast.Call) and isinstance(n.func, ast.Attribute) and n.func.attr == "update" and len(n.args) == 1 and not n.keywords
            for (root, guarded, chain) in gcs:
                if bulk:
                    src = O.dict_sources(an, fn, n.args[0])
                    if src is None:
                        opaque.append((root, e))
                        continue
                    for (sf, k_, v_, ch2, how) in src:
                        sites.append((root, sf, k_, v_, tuple(ch2) + tuple(chain), f"{how}, published by {e['fn'][1]} line {n.lineno}", e))
                elif e["key"] is not None and e["value"] is not None:
                    sites.append((root, fn, e["key"], e["value"], tuple(chain), e["how"], e))
                else:
                    opaque.append((root, e))
        sites.sort(key=lambda t: (t[0].rel, t[0].node.lineno, t[6]["node"].lineno, getattr(t[2], "lineno", 0), getattr(t[2], "col_offset", 0)))
        accessors = sorted({t[0].q for t in sites} | {r.q for (r, _e) in opaque} | {e["fn"][1] for e in cw})
        m1_bad, m2_bad, m1_ok, writer0 = [], [], [], (sites[0][0].q if sites else None)
        for k, (root, sf, key, val, chain, how, e) in enumerate(sites):
            at_ = e["node"] if sf.key() == e["fn"] else None        # the store statement: only definitions that reach it count
            kd_h, vd_h = O.deps(an, sf, key, at=at_), O.deps(an, sf, val, at=at_)
            kd, vd = O.lift_deps(an, sf, kd_h, chain), O.lift_deps(an, sf, vd_h, chain)
            if vd <= kd:
                m1_ok.append(f"{root.q} ({how}): key {sorted(kd)} / value {sorted(vd)}")
            else:
                m1_bad.append(f"{root.q} ({how}): key depends on {sorted(kd)}, stored value depends on {sorted(vd)}")
                writer0 = root.q
            lost = []
            for p in sorted(vd_h):
                if p.startswith("state:") or O.determines(an, sf, key, p):
                    continue
                if not O.lift_deps(an, sf, {p}, chain) and chain:
                    continue                                   # always called with a constant there
                lost.append(p)
            if lost:
                m2_bad.append(f"{root.q}: key `{ast.unparse(key)[:80]}` is not built injectively from {lost}: two calls that differ in {lost} may share a cache entry")
                writer0 = root.q
        if sites:
            h = hint(x, writer=writer0, accessors=accessors)
            # H3a: every stored value is computed from nothing but what its key is computed from (parameters and module state)
            GH(f"{S}/memo#stored-value-depends-only-on-the-key", not m1_bad,
               f"{x}: " + ("; ".join(m1_bad[:3]) + " -- a later call with the same key and other arguments gets a stale value" if m1_bad else f"{len(sites)} store site(s): " + "; ".join(m1_ok[:3])),
               x, definite=False, h=h)
            # H3b: ... and every key DETERMINES each of those inputs (two different inputs never share a key)
            GH(f"{S}/memo#key-determines-every-input-of-the-stored-value", not m2_bad,
               f"{x}: " + ("; ".join(m2_bad[:3]) if m2_bad else f"{len(sites)} store site(s), keys built from their inputs by tuples / order-preserving conversions only"),
               x, definite=False, h=h)
        if opaque:
            GH(f"{S}/memo#publication-is-a-recognised-keyed-store", False, f"{x}: " + "; ".join(f"{r_.q}: {e_['how']}" for (r_, e_) in opaque[:3]) + " -- what is published is not a recognised keyed expression", x,
               definite=False, h=hint(x, writer=opaque[0][0].q, accessors=accessors))
        # H3c: lookups and stores of one accessor use one key expression (a helper's store key is read at its call site)
        roots = sorted({t[0].key(): t[0] for t in sites}.values(), key=lambda f_: (f_.rel, f_.node.lineno))
        lk_bad, lk_ok = [], []
        for k, root in enumerate(roots):
            keys = set()
            for n in root.own:
                if isinstance(n, ast.Subscript) and not isinstance(n.slice, ast.Slice) and O.is_state_expr(an, root, n.value, x) and isinstance(n.ctx, ast.Load):
                    keys.add(ast.unparse(n.slice))
                elif isinstance(n, ast.Compare) and len(n.ops) == 1 and isinstance(n.ops[0], (ast.In, ast.NotIn)) and O.is_state_expr(an, root, n.comparators[0], x):
                    keys.add(ast.unparse(n.left))
                elif isinstance(n, ast.Call) and isinstance(n.func, ast.Attribute) and n.func.attr in ("get", "pop", "move_to_end") and n.args \
                        and O.is_state_expr(an, root, n.func.value, x):
                    keys.add(ast.unparse(n.args[0]))
            stores = set()
            for (r2, sf, key, val, chain, how, e) in sites:
                if r2.key() == root.key() and "published by" not in how:
                    stores.add(O.lift_expr_text(an, sf, key, chain))
            norm = lambda t: O.resolve_alias_text(root, t)
            both = {norm(t) for t in keys} | {norm(t) for t in stores}
            if keys and stores:
                (lk_ok if len(both) == 1 else lk_bad).append(f"{root.q}: lookups use {sorted(keys)}, stores use {sorted(stores)}")
        if lk_ok or lk_bad:
            GH(f"{S}/memo#lookup-key-is-the-store-key", not lk_bad, f"{x}: " + "; ".join((lk_bad or lk_ok)[:3]), x, definite=False,
               h=hint(x, writer=roots[0].q, accessors=accessors))
        # H7: every content-changing write happens after a miss of the state's own lookup -- in its function or at every call site of it
        unguarded = []
        for e in cw:
            if e["removal"]:
                continue
            for (root, guarded, chain) in chains_of.get(id(e), []):
                if not guarded:
                    unguarded.append(f"{e['fn'][1]}: {e['how']}" + (f" (reached from {root.q} without a lookup)" if chain else ""))
        if cw:
            GH(f"{S}/frame#written-only-after-a-miss-of-its-own-lookup", not unguarded,
               "; ".join(sorted(set(unguarded))[:4]) or f"{x}: {len([e for e in cw if not e['removal']])} write(s), each behind a miss of the lookup; accessor(s): {accessors}", x,
               definite=False, h=hint(x, accessors=accessors))
        # H8: a reader that takes "non-empty" for "completely populated" -> every write sits behind that guard and stores nothing call-specific
        eg = O.emptiness_guards(an, x)
        if eg:
            bad = []
            for e in cw:
                okw = False
                for (root, guarded, chain) in chains_of.get(id(e), [(an.fns[e["fn"]], False, [])]):
                    node_in_root = chain[-1][1] if chain else e["node"]
                    for (gf, g, form) in eg:
                        if gf.key() != root.key():
                            continue
                        pm = O.parents_of(root)
                        if form == "nonempty-return" and node_in_root.lineno > g.end_lineno:
                            okw = True
                        if form == "empty-populate" and O.inside(pm, node_in_root, g.body):
                            okw = True
                        if form == "populate-in-else" and O.inside(pm, node_in_root, g.orelse):
                            okw = True
                if not okw:
                    bad.append(f"{e['fn'][1]}: {e['how']} is outside the populate-once guard of {sorted({gf.q for (gf, _g, _f) in eg})}")
            for (root, sf, key, val, chain, how, e) in sites:
                for part, ex_ in (("key", key), ("value", val)):
                    d = {p for p in O.lift_deps(an, sf, O.deps(an, sf, ex_, exclude_state=(x,)), chain) if not p.startswith("state:")}
                    if d:
                        bad.append(f"{root.q}: {how} stores a {part} that depends on the call ({sorted(d)})")
            GH(f"{S}/frame#non-empty-means-completely-populated", not bad,
               "; ".join(sorted(set(bad))[:4]) or f"{x}: guard in {sorted({gf.q for (gf, _g, _f) in eg})}; all {len(cw)} write(s) behind it, none depends on a parameter", x,
               definite=False, h=hint(x, accessors=accessors))
            # H9b (schedules): the population is not observable half-done by another thread
            direct = [e for e in cw if not e["removal"] and not O.site_locked(an, an.fns[e["fn"]], e["node"])]
            stepwise = [e for e in direct if an.fns[e["fn"]].loops.get(id(e["node"]))] or (direct if len(direct) > 1 else [])
            GH(f"{S}/schedule#populate-once-state-is-published-atomically", not stepwise,
               "; ".join(f"{e['fn'][1]}: {e['how']} fills the shared object step by step: a thread that tests it meanwhile takes the partial content for complete" for e in stepwise[:3])
               or f"{x}: one write statement outside loops (or under a lock)", x, definite=False, h=hint(x, accessors=accessors))
        # H9a (schedules): where entries can be evicted, operations that need their key present tolerate a concurrent eviction
        if any(e["removal"] for e in an.writes(x)):
            acts = O.keyed_acts(an, x)
            bad_acts = [(fn, n, text) for (fn, n, text) in acts if not O.tolerant_or_locked(fn, n)]
            GH(f"{S}/schedule#keyed-acts-tolerate-a-concurrent-eviction", not bad_acts,
               f"{x}: " + ("; ".join(f"{fn.q} line {n.lineno}: `{text}` raises KeyError when another thread evicts the entry between the lookup and this statement" for (fn, n, text) in bad_acts[:3])
                           if bad_acts else f"{len(acts)} keyed act(s), each inside try/except KeyError or a lock"), x,
               definite=False, h=hint(x, accessors=accessors, act=(bad_acts[0][0].q if bad_acts else None)))
        # H10: ownership -- objects stored in / handed out by the state are never mutated afterwards
        vm = an.vmuts(x)
        GH(f"{S}/ownership#objects-handed-out-by-the-cache-are-never-mutated", not vm,
           "; ".join(f"{e['fn'][1]}: {e['how']}" for e in vm[:4]) or f"{x}: handed out through {[k_[1] for k_, f_ in sorted(an.fns.items()) if ('V:' + x) in f_.ret or ('S:' + x) in f_.ret]}; no mutation site reaches them",
           x, definite=any(O.certain_mutation(an, e) for e in vm), h=hint(x, accessors=accessors))
        # H4: a module-level name is rebound only by configuration functions -- functions no extraction code path reaches
        if rebinds:
            badr = []
            lazy = lazy_singleton(an, x, rebinds)
            for e in ([] if lazy else rebinds):
                for ch in O.top_chains(an, an.fns[e["fn"]]):
                    top = ch[-1]
                    if O.is_generator(top) or top.node.name in entry_names or O.referenced_elsewhere(an, top):
                        badr.append(f"{e['fn'][1]} ({e['how']}) is reached from {top.q}")
            GH(f"{S}/frame#rebound-only-by-configuration-functions", not badr, "; ".join(sorted(set(badr))[:4]) or
               (f"{x}: bound once, behind a test of its own emptiness, to a value that depends on nothing call-specific" if lazy else
                f"{x}: rebound by {sorted({e['fn'][1] for e in rebinds})}, which no extraction path calls"),
               x, definite=False, h={"context_managers": [[e["fn"][0], e["fn"][1]] for e in rebinds if O.is_context_manager(an.fns[e["fn"]])]})
        # H5: what kind of state is this?  a guarded keyed cache / registry, or configuration -- anything else is not understood
        kind_ok = (bool(sites) and not opaque and all(g for e in cw if not e["removal"] for (_r, g, _c) in chains_of.get(id(e), []))) or (bool(rebinds) and not cw) \
            or (not cw and not rebinds)                       # only reordered / evicted: nothing to understand
        if not kind_ok:
            unrecognised.append(x)
            # H14 (schedules): an object that is neither a guarded cache nor configuration but written and read while a call runs is
            # working memory shared by all threads (a scratch buffer, a "current document" slot)
            GH(f"{S}/schedule#working-memory-is-not-shared-between-threads", False,
               f"{x} is written by {sorted({e['fn'][1] for e in an.writes(x)})[:3]} without being a guarded cache: concurrent calls overwrite each other's intermediate data", x,
               definite=False, h=hint(x, accessors=accessors))
    inv = ground_obligation("C15/package/policy#inventory-of-module-level-mutable-state", not unrecognised and bool(written) and an.converged,
                            f"{len(written)} mutated module-level objects, each a guarded keyed cache / registry or a configuration object: {written}" +
                            (f"; NOT of a recognised kind: {unrecognised}" if unrecognised else ""), "package", definite=False)
    inv["replay_hint"] = {"new_states": [{"state": x, "rel": rel_of.get(x), "writers": sorted({e["fn"][1] for e in an.writes(x)})} for x in unrecognised]}
    obls.append(inv)
    # H10 for module-level tables nobody writes and for memoised results (lru_cache): never mutated through an alias either
    other = [e for e in an.events if e["kind"] == "vmut" and e["state"] not in written]
    GH("C15/package/ownership#module-level-tables-and-memoised-results-are-never-mutated-through-aliases", not other,
       "; ".join(f"{e['state']} in {e['fn'][1]}: {e['how']}" for e in other[:4]) or f"{len(an.state)} module- / class-level mutable objects, {len(an.cached_fns)} memoised functions", "package",
       definite=any(O.certain_mutation(an, e) for e in other), h={"rel": rel_of.get(other[0]["state"]) if other else None})
    # memoised functions (lru_cache / cache): pure functions of their parameters that read no mutable module state (transitively)
    per_file_m = {}
    for key in sorted(an.cached_fns, key=lambda k_: (k_[0], an.fns[k_].node.lineno)):
        per_file_m.setdefault(key[0], []).append(key)
    for rel, keys in per_file_m.items():
        for i, key in enumerate(keys):
            afn = an.fns[key]
            stores = [n for n in afn.own if isinstance(n, (ast.Global, ast.Nonlocal))]
            attr_stores = [n for n in afn.own if isinstance(n, (ast.Attribute, ast.Subscript)) and isinstance(n.ctx, ast.Store)
                           and not (isinstance(O.root_name(n), str) and O.root_name(n) in afn.locals and O.root_name(n) not in afn.all_params)]
            reads_state = sorted(set(afn.reads) & set(written))
            G(f"C15/{base(rel)}::memoised#{i}/memo#memoised-function-has-no-side-effect-and-reads-no-mutable-state",
              not stores and not attr_stores and not reads_state and not afn.mut,
              f"{key[1]}: globals={len(stores)} stores={len(attr_stores)} mutated-params={sorted(afn.mut)} state-reads={reads_state}", rel, definite=False)
    # H5b: module-level names rebound from inside functions (`global X`) that are NOT recognised state, and reflective access
    rebinders = []
    for (rel, q), afn in sorted(an.fns.items()):
        for nm in sorted(afn.globals_decl):
            if any(isinstance(n, ast.Name) and n.id == nm and isinstance(n.ctx, (ast.Store, ast.Del)) for n in afn.own):
                if an.sid(rel, nm) in written:
                    continue                                       # a state object: its own obligations (H4) decide
                if lazy_name(an, afn, nm):
                    continue                                       # bound once behind `if NAME is None`, to something call-independent
                tops = [ch[-1] for ch in O.top_chains(an, afn)]
                if any(O.is_generator(t) or t.node.name in entry_names or O.referenced_elsewhere(an, t) for t in tops):
                    rebinders.append((rel, q, f"{base(rel)}::{q} rebinds global {nm} and is reached from {sorted({t.q for t in tops})[:3]}"))
        for n in afn.own:
            if isinstance(n, ast.Call) and (dotted(n.func) == "globals" or (dotted(n.func) == "vars" and not n.args)):
                rebinders.append((rel, q, f"{base(rel)}::{q} reaches module state through {dotted(n.func)}()"))
            if isinstance(n, ast.Subscript) and dotted(n.value) == "sys.modules":
                rebinders.append((rel, q, f"{base(rel)}::{q} reaches module state through sys.modules[...]"))
    rb = ground_obligation("C15/package/policy#no-module-level-name-is-rebound-by-extraction-code", not rebinders,
                           "; ".join(r[2] for r in rebinders[:4]) or "no function that extraction code reaches rebinds a module-level name", "package", definite=False)
    rb["replay_hint"] = {"context_managers": [[rel, q] for (rel, q, _w) in rebinders if O.is_context_manager(an.fns[(rel, q)])]}
    obls.append(rb)
    # H13 (schedules): a module-level name that a function rebinds AROUND a computation reading it (save / set / compute / restore, or a
    # context manager setting it for its with-body) is a dynamically scoped parameter shared by all threads: needs a lock or a thread-local
    dyn, dyn_fns = [], set()
    for (rel, q), afn in sorted(an.fns.items()):
        for nm in sorted(afn.globals_decl):
            sites_nm = [n for n in afn.own if isinstance(n, ast.Name) and n.id == nm and isinstance(n.ctx, (ast.Store, ast.Del))]
            if not sites_nm or lazy_name(an, afn, nm):
                continue
            readers = {k_ for k_, g in an.fns.items() if k_[0] == rel and k_ != (rel, q) and nm not in g.locals
                       and any(isinstance(n, ast.Name) and n.id == nm and isinstance(n.ctx, ast.Load) for n in g.own)}
            # code that runs while the new value is in place: calls AFTER a rebinding statement (the right-hand side of the rebinding
            # itself is evaluated before it), everything if a loop contains the rebinding, the with-body for a context manager
            pm_ = O.parents_of(afn)
            stmts_nm = [O._stmt_of(afn, n) for n in sites_nm]
            first_end = min((st_.end_lineno for st_ in stmts_nm if st_ is not None), default=10 ** 9)
            in_loop = any(afn.loops.get(id(n)) for n in sites_nm)
            later = set()
            for c_ in afn.own:
                if isinstance(c_, ast.Call) and (in_loop or c_.lineno > first_end):
                    k_ = an.resolve_call(afn, c_)
                    if k_ is not None:
                        later |= {k_} | O.callee_closure(an, k_)
            inside = readers & later
            if O.is_context_manager(afn) or O.is_generator(afn):
                inside = readers                                  # the with-body / the consumer runs while the name is set
            if not inside:
                continue
            if all(O.site_locked(an, afn, n) for n in sites_nm):
                continue
            dyn.append(f"{base(rel)}::{q} sets global {nm} while {sorted(k_[1] for k_ in inside)[:3]} read(s) it")
            dyn_fns |= {q.split('.')[-1]} | {k_[1].split('.')[-1] for k_ in inside}
            dyn_rel = rel
    dy = ground_obligation("C15/package/schedule#no-module-level-name-is-set-around-a-computation-that-reads-it", not dyn,
                           "; ".join(dyn[:4]) + (" -- two overlapping calls with different settings see each other's value" if dyn else
                                                 "no function rebinds a module-level name that code running inside it reads (or it does so under a lock)"),
                           "package", definite=False)
    dy["replay_hint"] = {"rel": dyn_rel if dyn else None, "functions": sorted(dyn_fns), "two_switch": True}
    obls.append(dy)
    # H5c: a mutable default argument that the function mutates is module-level state in disguise
    md = []
    for (rel, q), afn in sorted(an.fns.items()):
        a = afn.node.args
        pos = a.posonlyargs + a.args
        pairs = list(zip(pos[len(pos) - len(a.defaults):], a.defaults)) + [(k_, d) for k_, d in zip(a.kwonlyargs, a.kw_defaults) if d is not None]
        for (arg, d) in pairs:
            if O.mutable_expr(d) and arg.arg in afn.mut:
                md.append(f"{base(rel)}::{q}({arg.arg}={ast.unparse(d)[:20]}) is mutated by the function")
    G("C15/package/policy#no-mutable-default-argument-is-mutated", not md, "; ".join(md[:5]) or "no function mutates a parameter that has a mutable default", "package",
      definite=False)
    # H11: interpreter- / library-wide settings (the state behind os, sys, locale, warnings, logging, csv, mimetypes, PIL, pypdf ...)
    sites_s = []
    for (rel, q), afn in sorted(an.fns.items()):
        imp = an.imports[rel]
        if rel in script_mods and not O.callers(an).get((rel, q)):
            continue

        def origin(e, afn=afn, imp=imp):
            """dotted origin of an attribute chain whose root is an imported name ('' otherwise)"""
            d = dotted(e)
            if not d:
                return ""
            root, _, rest = d.partition(".")
            if root in afn.locals or root not in imp:
                return ""
            return imp[root] + ("." + rest if rest else "")
        for n in afn.own:
            if isinstance(n, ast.Call):
                o = origin(n.func)
                if o in SETTERS and (o not in GETTER_WITHOUT_ARGS or n.args or n.keywords):
                    sites_s.append(f"{base(rel)}::{q} line {n.lineno}: {o}(...)")
                if isinstance(n.func, ast.Attribute) and n.func.attr in O.DEF_MUTATORS:
                    o = origin(n.func.value)
                    if o in ("os.environ", "sys.path", "sys.modules", "sys.meta_path", "warnings.filters", "mimetypes.types_map", "sys.argv"):
                        sites_s.append(f"{base(rel)}::{q} line {n.lineno}: {o}.{n.func.attr}(...)")
    # ... and every definite mutation of an object of another library, directly / through aliases / containers / helpers (label X:);
    # covered: the sites that act for the two functions under their own contract (H1: restored on every exit; H2: permanent, stateless)
    covered = {k_ for k_ in (cm_key, perm_key) if k_}
    n_cov = 0
    for (e, fn, roots) in xm:
        if roots and all(r.key() in covered for r in roots):
            n_cov += 1
            continue
        sites_s.append(f"{base(e['fn'][0])}::{e['fn'][1]} {e['how']} ({e['state']} is not the package's own state; acting for {sorted({r.q for r in roots})})")
    st_o = ground_obligation("C15/package/policy#no-interpreter-or-third-party-setting-is-changed-by-extraction-code", not sites_s,
                             "; ".join(sorted(set(sites_s))[:5]) or f"{n_cov} mutation site(s) of foreign objects, all acting for the functions under contract "
                             f"{sorted(k_[1] for k_ in covered)}; setters checked: {len(SETTERS)}", "package", definite=False)
    st_o["replay_hint"] = {"context_managers": [[rel, q] for (rel, q), afn in sorted(an.fns.items()) if O.is_context_manager(afn)]}
    obls.append(st_o)
    # H12 (schedules): a temporary patch of a shared object (save / set / restore) is a critical section
    by_root = {}
    for (e, fn, roots) in xm:
        for r in roots:
            if r.key() != perm_key:
                by_root.setdefault(r.key(), []).append((e, fn))
    per_file_p = {}
    for key in sorted(by_root, key=lambda k_: (k_[0], an.fns[k_].node.lineno)):
        per_file_p.setdefault(key[0], []).append(key)
    for rel, keys in per_file_p.items():
        for i, key in enumerate(keys):
            root = an.fns[key]
            open_ = [(e, fn) for (e, fn) in by_root[key] if not O.site_locked(an, fn, e["node"], stop=(key,))]
            helpers = sorted({fn.node.name for (_e, fn) in by_root[key]} | {root.node.name})
            o = ground_obligation(f"C15/{base(rel)}::patcher#{i}/schedule#temporary-patch-of-shared-objects-is-serialised", not open_,
                                  f"{root.q}: " + "; ".join(sorted({f"{e['how']} on {e['state']}" for (e, _f) in open_})[:4]) +
                                  (" -- not under a lock: two threads interleaving save / set / restore leave the other thread's wrapper installed" if open_ else "all under a lock"),
                                  rel, definite=False)
            o["replay_hint"] = {"rel": rel, "patchers": [[rel, key[1]]] if O.is_context_manager(root) else [], "functions": helpers,
                                # a save / set / restore section is broken by TWO context switches; the statements to aim at
                                "two_switch": True, "lines": sorted({getattr(e["node"], "lineno", 0) for (e, _f) in by_root[key] if getattr(e["node"], "lineno", 0)})}
            obls.append(o)
    # H6: handles closed on all paths
    bad, n_sites = [], 0
    OPENERS = ("olefile.OleFileIO", "OleFileIO", "zipfile.ZipFile", "tarfile.open", "SevenZipFile", "tempfile.TemporaryDirectory", "open", "load_workbook",
               "ZipContext", "OOXMLZipContext", "_DocxContext", "_PptxContext", "_OdtContext", "_OdsContext", "_OdpContext", "_EpubContext", "open_zipfile")
    # the release method of an opener whose context-manager exit is not `close()` (TemporaryDirectory.__exit__ is `cleanup()`)
    RELEASERS = {"tempfile.TemporaryDirectory": ("cleanup",)}
    for rel, m in mods.items():
        for q, fn in m.functions.items():
            parents = {}
            for x in ast.walk(fn):
                for ch in ast.iter_child_nodes(x):
                    parents[id(ch)] = x
            for n in _own(fn):
                if not (isinstance(n, ast.Call) and dotted(n.func) in OPENERS):
                    continue
                n_sites += 1
                p = parents.get(id(n))
                if isinstance(p, ast.withitem):
                    continue
                if isinstance(p, ast.Return):
                    continue      # ownership passes to the caller (open_zipfile)
                if isinstance(p, ast.Assign) and len(p.targets) == 1:
                    tgt = ast.unparse(p.targets[0])
                    closes = [c for c in ast.walk(fn) if isinstance(c, ast.Call) and isinstance(c.func, ast.Attribute) and c.func.attr == "close"
                              and ast.unparse(c.func.value) == tgt]
                    in_finally = any(any(any(c is y for y in ast.walk(fb)) for fb in t.finalbody) or
                                     any(any(c is y for y in ast.walk(h)) for h in t.handlers)
                                     for c in closes for t in ast.walk(fn) if isinstance(t, ast.Try))
                    if closes and in_finally:
                        continue
                    if _released_by_next_finally(fn, parents, p, tgt, RELEASERS.get(dotted(n.func), ("close",))):
                        continue      # `h = opener(); try: ... finally: h.<release>()`: the explicit form of the with-statement
                    if tgt.startswith("self."):
                        cls = q.rsplit(".", 1)[0]
                        if any(k.startswith(cls + ".") and k.endswith(("close", "__exit__")) for k in m.functions):
                            continue      # owned by the object, released by its close()/__exit__
                    bad.append(f"{rel}:{n.lineno} {dotted(n.func)} assigned to {tgt} without close() in finally")
                    continue
                bad.append(f"{rel}:{n.lineno} {dotted(n.func)} result not bound to a with-item / closed variable")
    for rel, m in mods.items():
        for q, fn in m.functions.items():
            for blk in [x for x in ast.walk(fn) if hasattr(x, "body") and isinstance(getattr(x, "body"), list)]:
                for fld in ("body", "orelse", "finalbody"):
                    stmts = getattr(blk, fld, None)
                    if not isinstance(stmts, list):
                        continue
                    for i, st_ in enumerate(stmts):
                        calls = [c for c in ast.walk(st_) if isinstance(c, ast.Call) and dotted(c.func) in ("tempfile.mkdtemp", "mkdtemp", "tempfile.mkstemp", "tempfile.NamedTemporaryFile")] \
                            if isinstance(st_, (ast.Assign, ast.Expr, ast.AnnAssign)) else []
                        for c in calls:
                            n_sites += 1
                            tgt = ast.unparse(st_.targets[0]) if isinstance(st_, ast.Assign) else None
                            nxt = stmts[i + 1] if i + 1 < len(stmts) else None
                            ok_ = isinstance(nxt, ast.Try) and any(
                                isinstance(r, ast.Call) and dotted(r.func) in ("shutil.rmtree", "os.remove", "os.unlink", "os.rmdir") and tgt and tgt in ast.unparse(r)
                                for fb in nxt.finalbody for r in ast.walk(fb)) if tgt else False
                            if not ok_:
                                bad.append(f"{rel}:{c.lineno} {dotted(c.func)}: the temporary object is not removed by a `finally` that starts right after its creation")
    # recognised release shapes only (with-item, close() in finally / handler, owner object with close / __exit__, rmtree in the finally right
    # after mkdtemp): an unrecognised shape is `unknown` -- the native probes (damaged archives, abandoned generators) decide
    G("C15/package/typestate#every-handle-opened-by-own-code-is-closed-on-all-paths", not bad and n_sites >= 10, "; ".join(bad[:6]) or f"{n_sites} open sites", "package",
      definite=False)
    # H15 (round 6): scratch files live in a location allocated for the call (contracts/c15_fs.py: anchor flow of every written path)
    from contracts import c15_fs
    skip_fs = {k_ for k_ in an.fns if k_[0] in script_mods and not O.callers(an).get(k_)}
    obls.append(c15_fs.obligation(an, ground_obligation, skip_fs))
    return {"obligations": obls, "functions": fns}


def validate_histories(repo, tier):
    """BOUNDED validation (not a proof): all fixtures extracted in isolation vs in two long sequences in one process."""
    import json
    import os
    import subprocess
    root = os.path.dirname(os.path.dirname(os.path.abspath(__file__)))
    oid = "C15/package/assumed-contract-validation#fixtures-same-in-isolation-and-in-sequences"
    try:
        p = subprocess.run(["/venv/bin/python", os.path.join(root, "replay", "run.py")], input=json.dumps({"property": "C15", "obligation": oid, "list_all": True}),
                           capture_output=True, text=True, timeout=900, env=dict(os.environ, VERIF_REPO=repo))
        lines = [l for l in p.stdout.splitlines() if l.startswith("{")]
        res = json.loads(lines[-1]) if lines else {}
    except Exception as e:  # noqa
        res = {"note": str(e)}
    if "mismatches" not in res:
        return {"obligations": [], "undecided": [{"obligation": oid, "why": "native validation did not run: " + str(res.get("note", ""))[:200]}]}
    mm = res["mismatches"]
    o = ground_obligation(oid, not mm, "; ".join(f"{m[0]}: {m[1]}" for m in mm[:6]) or f"{res.get('fixtures')} fixtures + generated documents agree", "package",
                          kind="assumption-validation", backend="native-replay(bounded: generated documents pairwise, stored payloads, repository fixtures in 2 orders)")
    o["bounded"] = True          # a bounded native run: never counted as discharged
    o["bound"] = "generated documents (every ordered pair), (de)serialisation after one other step, repository fixtures forward / reverse"
    return {"obligations": [o]}


def known_findings(kf, violations, repo, tier):
    """Recorded genuine defects (schedule half).  A recorded finding covers its obligation only while the native replayer still
    reproduces it *at the recorded place*: for a patcher schedule the reproduced target must be the context manager acting as the
    patch root of that obligation; for a cache schedule the preemption point must lie in a function the obligation's hint names."""
    import json
    vio = {v["id"]: v for v in violations}
    out = []
    for f in kf:
        o = vio.get(f["obligation"])
        still, detail = False, ""
        rp = (o or {}).get("_replayed") or {}
        if o is not None and rp.get("reproduced"):
            try:
                rec = json.load(open(rp["path"]))
            except Exception:  # noqa
                rec = {}
            w = f.get("witness") or {}
            hint_ = rec.get("hint") or {}
            where = str((rec.get("inputs") or {}).get("preemption_point") or "")
            if w.get("kind") == "patcher-schedule":
                still = rec.get("found_by") == "patcher schedule" and [str(rec.get("target", "")).split("::")[0], str(rec.get("target", "")).split("::")[-1]] in (hint_.get("patchers") or [])
            else:
                fnames = set(hint_.get("functions") or []) | ({w["preempt_in"]} if w.get("preempt_in") else set())
                still = any(where.endswith(" in " + n) for n in fnames)
            detail = str((rec.get("inputs") or {}).get("schedule") or "")[:300] + " -> " + str(rec.get("observed"))[:120]
        out.append({"finding": f["id"], "still_fails": still, "line": f"{f['id']}: {f['what']}", "covers": [f["obligation"]] if still else [],
                    "witness_replay": detail})
    return out


def post_report(c, rep):
    """Obligation ids name the ROLE of the function under contract, not its (private) name: a rename keeps the ids."""
    role = ROLE_OF.get(c.target)
    if not role:
        return
    rel, q = c.target.split("::", 1)
    old, new = f"{rel.split('/')[-1]}::{q}/", f"{rel.split('/')[-1]}::{role}/"
    for o in rep.obligations:
        if old in o["id"]:
            o["id"] = o["id"].replace(old, new)


EXTRA = [policy, validate_histories]
BOUNDED = ["assumed-contract-validation#fixtures-same-in-isolation-and-in-sequences: generated documents (EPUB / HTML incl. truncated ones, text, archives, "
           "corrupt inputs) every one after every other one against forked pristine baselines, stored payloads deserialised after one other "
           "(de)serialisation step, repository fixtures forward and reverse in one process with fresh-process baselines for the PDFs and a sample; "
           "interpreter / third-party settings and patched functions compared before / after -- bounded validation, not a proof"]
TRUSTED = ["the with-body of _patched_build_char_map leaves the patched attributes as it found them (holds for nested uses by this very obligation)",
           "mimetypes database does not change between calls (lru_cache'd guess_content_type, router caches)",
           "library (non-package) callables do not mutate the arguments they are given (ownership analysis); copies (dict(x), list(x), x.copy(), slices) "
           "are tracked one level deep"]
ASSUMED_MODELS = ["getattr/setattr on pypdf modules (ghost attribute map)", "generator resumption: normal, throw(exc), close()",
                  "pypdf._crypt_providers.crypt_provider is a tuple of strings (its items compare with a str without raising; checked against the "
                  "installed pypdf on every run by replay/C15.py::assumed_model_facts)",
                  "_ROUND_KEY_CACHE as an abstract mapping whose values are published heap objects (the key expansion it memoises is "
                  "verified since round 7: <key-expansion> obligations)"]
ASSUMPTIONS = ["SCHEDULES: only the sufficient conditions H9a / H9b / H10 / H12 on the module state the library owns are decided; interleavings inside third-party "
               "code and schedules with more context switches than the replayer explores (1 for caches, 2 for the patch section) are NOT",
               "memo soundness / ownership / write discipline are dataflow analyses on the real AST (back end 'dataflow'); an unrecognised shape is `unknown`, never proved",
               "PY-GEN"]

REPLAY_UNKNOWN = True    # undecided / out-of-subset items are searched natively (replay) before being reported UNDECIDED
