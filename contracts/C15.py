"""C15 -- isolation: results independent of history and (for the module state the library owns) of concurrent work.

**Histories** are frame conditions on module state, decided on the real AST / by symbolic execution of the real bodies:
  H1  `_patched_build_char_map`: on every exit of the with-body (normal, exception thrown at the yield, close) every patched
      attribute holds its entry value again (symbolic execution of the real generator);
  H2  `patch_pypdf_fallback_aes` installs only module-level functions / closures without captured per-call state;
  H3  memo soundness of every module-level cache, per store site: (a) the stored value is computed from nothing but what the key
      is computed from (parameters AND module state, through helpers), (b) the key DETERMINES each of those inputs (built by
      tuples / order-preserving conversions / helper functions whose returns do -- anything else is `unknown` and goes to the
      native collision search), (c) lookups and stores use one key expression;
  H4  `_config` is written only by `configure_archive_extraction`;
  H5  inventory of module-level mutable state: every module- / class-level object that some function mutates (subscript / attribute
      store, mutator method, setattr, through aliases and handed-out references), state kept on function / class objects, names
      rebound through `global`, `globals()`, mutated mutable default arguments;
  H6  every OLE / ZIP / workbook / temp-dir handle opened by own code is closed on all paths;
  H7  every content-changing write of a cache happens behind a miss of its own lookup;
  H8  a reader that takes "non-empty" for "completely populated" (`if REGISTRY: return REGISTRY`): every write sits behind that
      guard and stores nothing that depends on the call;
  H10 ownership: an object stored in / handed out by module state (cache values, per-thread pools, lru_cache results, module-level
      tables) is never mutated afterwards (contracts/c15_own.py: interprocedural label propagation; `_get_round_keys` additionally
      by symbolic execution with a ghost set of published heap objects);
  H11 no interpreter-wide or third-party setting is changed (setters of os / sys / locale / warnings / logging / csv / mimetypes ...,
      attribute stores and setattr on objects of other libraries, also through aliases) outside the two reviewed patch sites.

**Schedules.**  Arbitrary interleavings are NOT decided.  What contracts over the real code do express, and what is decided here,
are three sufficient conditions under which threads cannot disturb each other through the module state the library owns:
  H10 (above) published objects are immutable after publication -- with it, a thread can only be affected through the cache
      *operations*, never through a value it already holds;
  H9a where entries can be evicted, every operation that needs its key present tolerates a concurrent eviction (try / lock);
  H9b populate-once state is published atomically (one write statement or under a lock);
  H12 a temporary patch of a shared object (save / set / restore) runs under a lock.
A failed condition is `unknown` until the native replayer exhibits a schedule: two threads under a controlled scheduler
(sys.settrace), one preemption at every line of the functions that touch the state (H9, H10), or two context switches at every
pair of lines of the patching context manager (H12).  On /repo HEAD H9a, H9b and H12 fail and are reproduced: recorded in
known_findings.json with proposed_fixes/C15_1..3.diff.
"""
import ast

import z3

from pyvc import loader, ops
from pyvc.contracts import FnContract, Raises
from pyvc.flow import dotted, ground_obligation
from pyvc.symex import Executor
from pyvc.values import NONE, VBool, VExc, VExt, VFunc, VInt, VRef, VStr, VTuple, VUnk, fresh_name
from pyvc.verify import Maker

from contracts import c15_own as O

PDF = "sharepoint2text/parsing/extractors/pdf/pdf_extractor.py"
AESF = "sharepoint2text/parsing/extractors/pdf/_pypdf_aes_fallback.py"
ARCH = "sharepoint2text/parsing/extractors/archive_extractor.py"


class C15Executor(Executor):
    """Module attributes as ghost state; `yield` inside the context manager may be resumed normally,
    or by an exception thrown in / GeneratorExit (PY-GEN)."""

    def attrs(self, st):
        return dict(st.ghost.get("modattrs", {}))

    def b_getattr(self, st, args, kwargs, node):
        if len(args) >= 2 and isinstance(args[0], VExt) and args[0].sort == "PyModule" and isinstance(args[1], VStr) and args[1].const() is not None:
            key = (args[0].t.get_id(), args[1].const())
            a = self.attrs(st)
            if key not in a:
                a[key] = VExt("Callable")
                st.ghost["modattrs"] = a
                ent = dict(st.ghost.get("modattrs_entry", {}))
                ent[key] = a[key]
                st.ghost["modattrs_entry"] = ent
            return [(st, a[key])]
        return super().b_getattr(st, args, kwargs, node)

    def b_setattr(self, st, args, kwargs, node):
        if len(args) == 3 and isinstance(args[0], VExt) and args[0].sort == "PyModule" and isinstance(args[1], VStr) and args[1].const() is not None:
            key = (args[0].t.get_id(), args[1].const())
            a = self.attrs(st)
            if key not in a:
                ent = dict(st.ghost.get("modattrs_entry", {}))
                ent[key] = VExt("Callable")
                st.ghost["modattrs_entry"] = ent
            a[key] = args[2]
            st.ghost["modattrs"] = a
            return [(st, NONE)]
        return self.havoc_call(st, "setattr", args, node)

    # ---- module-level caches as abstract objects (sort "C15Cache"); what they hold is PUBLISHED (ghost set of heap refs)
    def published(self, st):
        return frozenset(st.ghost.get("published", ()))

    def publish(self, st, ref):
        st.ghost["published"] = self.published(st) | {ref}

    def cached_object(self, st, what):
        """Some object the cache held at entry: a list of unknown content, not fresh, published."""
        from pyvc.state import HeapObj
        ref = st.alloc(HeapObj("list", [VUnk(f"{what}[{i}]") for i in range(2)], None, False), self.refs)
        self.publish(st, ref)
        return VRef(ref)

    def note_store(self, st, ref, node):
        if ref in self.published(st) and self.loc(node) not in st.ghost.get("published_mutated", ()):
            # frame condition: an object that is stored in / was read out of a module-level cache is never mutated
            st.ghost["published_mutated"] = tuple(st.ghost.get("published_mutated", ())) + (self.loc(node),)
        return super().note_store(st, ref, node)

    def call_method(self, st, obj, name, args, kwargs, node):
        if isinstance(obj, VRef) and obj.ref in self.published(st) and name in O.DEF_MUTATORS:
            st.ghost["published_mutated"] = tuple(st.ghost.get("published_mutated", ())) + (self.loc(node),)
        return super().call_method(st, obj, name, args, kwargs, node)

    def store_index(self, st, base, idx, v, node):
        if isinstance(base, VExt) and base.sort == "C15Cache":
            if isinstance(v, VRef):
                self.publish(st, v.ref)
            st.ghost["cache_stores"] = tuple(st.ghost.get("cache_stores", ())) + ((idx, v),)
            return [st]
        return super().store_index(st, base, idx, v, node)

    def b_len(self, st, args, kwargs, node):
        if args and isinstance(args[0], VExt) and args[0].sort == "C15Cache":
            n = z3.Int(fresh_name("cache_len"))
            st.assume(n >= 0)
            return [(st, VInt(n))]
        return super().b_len(st, args, kwargs, node)

    def e_Yield(self, n, st):
        res = super().e_Yield(n, st)
        out = []
        for (s, v) in res:
            # the consumer may throw any exception into the generator, or close it (GeneratorExit), at this yield
            bad = s.fork()
            t = z3.Int(fresh_name("thrown"))
            bad.assume(z3.And(t >= 0, t < len(self.uni.names), self.uni.subclass_term(t, "BaseException")))
            self.raise_in(bad, VExc(t, {"site": "thrown into generator at yield"}))
            out.append((s, v))
        return out


EXECUTOR = C15Executor


def patch_target_shapes(repo=None):
    """The (module alias, attribute) lists that _get_pypdf_char_map_patcher can return, read from its AST."""
    m = loader.module(PDF, repo)
    f = m.functions.get("_get_pypdf_char_map_patcher")
    shapes = []
    if f is None:
        return None
    for n in ast.walk(f):
        if isinstance(n, ast.Return) and n.value is not None:
            v = n.value
            if isinstance(v, ast.Tuple) and len(v.elts) == 2 and isinstance(v.elts[0], ast.List):
                items = []
                for e in v.elts[0].elts:
                    if isinstance(e, ast.Tuple) and len(e.elts) == 2 and isinstance(e.elts[0], ast.Name) and isinstance(e.elts[1], ast.Constant):
                        items.append((e.elts[0].id, e.elts[1].value))
                    else:
                        return None
                shapes.append(items)
            elif not (isinstance(v, ast.Name)):   # nested `return patched` of the wrappers is fine
                inner = [g for g in ast.walk(f) if isinstance(g, ast.FunctionDef) and g is not f and any(x is n for x in ast.walk(g))]
                if not inner:
                    return None
    return shapes


def contracts(reg):
    out = []
    shapes = patch_target_shapes() or []

    def patcher_result(ex, st, ctx):
        return VUnk("unused")

    # the patcher: returns one of the literal target lists (objects of distinct modules) and a total wrapper factory
    def m_patcher(ex, st, args, kwargs, node):
        outs = []
        bad = st.fork()
        ex.raise_in(bad, ex.mk_exc("AttributeError"))
        for items in shapes:
            s2 = st.fork()
            mods = {}
            tup = []
            for (alias, name) in items:
                if alias not in mods:
                    mods[alias] = VExt("PyModule")
                tup.append(VTuple([mods[alias], VStr(name)]))
            outs.append((s2, VTuple([VTuple(tup), VFunc("ext", "C15.make_wrapper")])))
        return outs

    reg.ext_models["C15.make_wrapper"] = lambda ex, st, args, kwargs, node: [(st, VExt("Callable"))]
    reg.fn[f"{PDF}::_get_pypdf_char_map_patcher"] = FnContract(
        target=f"{PDF}::_get_pypdf_char_map_patcher", assumed=True, inline=False,
        note="ASSUMED shape, cross-checked against its AST by obligation H1.shape: returns (literal list of (module, name) pairs, "
             "wrapper factory that only defines a closure) or raises AttributeError")
    # route calls of the real function to the model above
    def call_patcher(ex, st, args, kwargs, node):
        return m_patcher(ex, st, args, kwargs, node)
    reg.module_consts[(PDF, "_get_pypdf_char_map_patcher")] = VFunc("ext", "C15.patcher")
    reg.ext_models["C15.patcher"] = call_patcher

    def restored(c):
        a = c.st.ghost.get("modattrs", {})
        e = c.st.ghost.get("modattrs_entry", {})
        ok = all(k in a and a[k] is e[k] for k in e)
        c.note = f"{len(e)} patched attribute(s); restored={ok}"
        return z3.BoolVal(ok)

    out.append(FnContract(
        target=f"{PDF}::_patched_build_char_map", params=[], generator=True,
        ensures=[("every-patched-attribute-restored-on-normal-exit", restored)],
        raises=[Raises("BaseException", sub=True, when=lambda c: restored(c) if c.st is not None else z3.BoolVal(True),
                       label="exception thrown into the with-body / GeneratorExit: attributes restored before it propagates")],
        note="the generator behind @contextlib.contextmanager; with-protocol = body up to the yield, then the finally block",
    ))
    out.extend(cache_contracts(reg))
    return out


def cache_contracts(reg):
    """`_get_round_keys` under a symbolic contract: the module-level OrderedDict is an abstract object whose values are
    PUBLISHED heap objects (shared with later calls and other threads).  Obligations, on the real body:
      * frame: no published object is mutated -- neither what a hit returns, nor what an eviction drops, nor the new entry after
        it was stored (ExecutorC15.note_store);
      * a miss stores under the key it looked up."""
    from pyvc.verify import p_unk
    out = []
    reg.module_consts[(AESF, "_ROUND_KEY_CACHE")] = VExt("C15Cache")

    def m_get(ex, st, obj, args, kwargs, node):
        miss = st.fork()
        st.ghost["lookups"] = tuple(st.ghost.get("lookups", ())) + (args[0],)
        miss.ghost["lookups"] = tuple(miss.ghost.get("lookups", ())) + (args[0],)
        return [(miss, args[1] if len(args) > 1 else NONE), (st, ex.cached_object(st, "cached"))]

    def m_popitem(ex, st, obj, args, kwargs, node):
        return [(st, VTuple([VUnk("evicted_key"), ex.cached_object(st, "evicted")]))]

    def m_pop(ex, st, obj, args, kwargs, node):
        return [(st, ex.cached_object(st, "popped"))]

    reg.method_models[("C15Cache", "get")] = m_get
    reg.method_models[("C15Cache", "popitem")] = m_popitem
    reg.method_models[("C15Cache", "pop")] = m_pop
    reg.method_models[("C15Cache", "move_to_end")] = lambda ex, st, o, a, k, n: [(st, NONE)]
    reg.method_models[("C15Cache", "clear")] = lambda ex, st, o, a, k, n: [(st, NONE)]

    def m_expand(ex, st, args, kwargs, node):
        bad = st.fork()
        ex.raise_in(bad, ex.mk_exc("ValueError"))
        return [(st, ex.new_list(st, [VUnk(f"rk[{i}]") for i in range(2)]))]       # a fresh list of round keys

    reg.ext_models["C15.expand_key"] = m_expand
    reg.module_consts[(AESF, "_expand_key")] = VFunc("ext", "C15.expand_key")

    def stored_under_looked_up_key(c):
        stores = c.st.ghost.get("cache_stores", ())
        looks = c.st.ghost.get("lookups", ())
        ok = all(any(k is l for l in looks) or any(k is c.args[a] for a in c.args) for (k, _v) in stores)
        return z3.BoolVal(bool(ok))

    def not_mutated(c):
        m = c.st.ghost.get("published_mutated", ()) if c.st is not None else ()
        if m:
            c.note = "mutates an object the cache holds / has handed out at " + ", ".join(m)
        return z3.BoolVal(not m)

    out.append(FnContract(
        target=f"{AESF}::_get_round_keys", params=[("key", p_unk())],
        ensures=[("objects-held-by-the-cache-are-not-mutated", not_mutated),
                 ("a-miss-stores-under-the-key-it-looked-up", stored_under_looked_up_key)],
        raises=[Raises("ValueError", when=not_mutated, label="only the key-length check of _expand_key, and nothing published was mutated before")],
        note="cache object abstract; _expand_key assumed to return a fresh list or raise ValueError (its contract is C20's)",
    ))
    return out


# ---------------------------------------------------------------- dataflow --
def _own(fnode):
    stack = list(ast.iter_child_nodes(fnode))
    while stack:
        n = stack.pop()
        yield n
        if isinstance(n, (ast.FunctionDef, ast.AsyncFunctionDef, ast.Lambda, ast.ClassDef)):
            continue
        stack.extend(ast.iter_child_nodes(n))


def deps(fnode, expr, params):
    """Parameters that `expr` may depend on (through local assignments), flow-insensitive."""
    dep = {p: {p} for p in params}
    for _ in range(6):
        for n in _own(fnode):
            tgts, val = [], None
            if isinstance(n, ast.Assign):
                tgts, val = n.targets, n.value
            elif isinstance(n, (ast.AugAssign, ast.AnnAssign)) and getattr(n, "value", None) is not None:
                tgts, val = [n.target], n.value
            elif isinstance(n, ast.For):
                tgts, val = [n.target], n.iter
            if val is None:
                continue
            d = set()
            for x in ast.walk(val):
                if isinstance(x, ast.Name):
                    d |= dep.get(x.id, set())
            for t in tgts:
                elts = t.elts if isinstance(t, (ast.Tuple, ast.List)) else [t]
                for e in elts:
                    b = e
                    extra = set()
                    while isinstance(b, (ast.Subscript, ast.Attribute)):
                        if isinstance(b, ast.Subscript):      # names in the index are read, and flow into the container
                            for x in ast.walk(b.slice):
                                if isinstance(x, ast.Name):
                                    extra |= dep.get(x.id, set())
                        b = b.value
                    if isinstance(b, ast.Name):
                        dep[b.id] = dep.get(b.id, set()) | d | extra
    out = set()
    for x in ast.walk(expr):
        if isinstance(x, ast.Name):
            out |= dep.get(x.id, set())
    return out


SETTERS = {
    "os.putenv", "os.unsetenv", "os.chdir", "os.umask", "os.environ.setdefault", "os.environ.update", "os.environ.pop", "locale.setlocale",
    "warnings.filterwarnings", "warnings.simplefilter", "warnings.resetwarnings", "logging.disable", "logging.basicConfig", "logging.captureWarnings",
    "sys.setrecursionlimit", "sys.setswitchinterval", "sys.settrace", "sys.setprofile", "threading.settrace", "threading.setprofile",
    "socket.setdefaulttimeout", "mimetypes.add_type", "mimetypes.init", "random.seed", "csv.field_size_limit", "csv.register_dialect",
    "xml.etree.ElementTree.register_namespace", "atexit.register", "signal.signal", "signal.alarm", "gc.disable", "gc.enable", "gc.set_threshold",
    "codecs.register", "codecs.register_error", "decimal.setcontext", "email.charset.add_charset", "email.charset.add_alias", "faulthandler.enable",
    "resource.setrlimit", "time.tzset", "importlib.reload", "zipfile.ZipFile.register", "copyreg.pickle", "sys.setdefaultencoding",
    "struct._clearcache", "re.purge", "linecache.clearcache", "tracemalloc.start", "multiprocessing.set_start_method",
}
GETTER_WITHOUT_ARGS = {"csv.field_size_limit", "locale.setlocale"}


def policy(repo, tier):
    obls, fns = [], []
    files = [f for f in loader.all_package_files(repo) if "/sharepoint_io/" not in f]
    mods = {f: loader.module(f, repo) for f in files}
    G = lambda oid, ok, why="", loc="", definite=True: obls.append(ground_obligation(oid, ok, why, loc, definite=definite))
    # H1.shape: the patcher returns only literal (module, name) lists and its wrapper factories only define closures
    shapes = patch_target_shapes(repo)
    G("C15/pdf_extractor.py::_get_pypdf_char_map_patcher/policy#returns-literal-target-lists", bool(shapes) and all(1 <= len(s) <= 3 for s in shapes),
      f"target lists: {shapes}", PDF, definite=False)
    pdf = mods[PDF]
    # with-only use of the context manager
    uses = [n for n in ast.walk(pdf.tree) if isinstance(n, ast.Call) and dotted(n.func) == "_patched_build_char_map"]
    withs = [w for w in ast.walk(pdf.tree) if isinstance(w, ast.With) and any(it.context_expr in uses for it in w.items)]
    G("C15/pdf_extractor.py::_patched_build_char_map/policy#used-only-as-with-item", len(uses) >= 1 and len(uses) == len(withs), f"{len(withs)}/{len(uses)} uses are with-items", PDF)
    # H2: the permanent AES patch installs module-level functions or closures over nothing call-specific
    aes = mods[AESF]
    f = aes.functions.get("patch_pypdf_fallback_aes")
    ok, why = f is not None, []
    if f is not None:
        nested = {n.name: n for n in _own(f) if isinstance(n, ast.FunctionDef)}
        for name, g in nested.items():
            params = {a.arg for a in g.args.args}
            free = {x.id for x in ast.walk(g) if isinstance(x, ast.Name) and isinstance(x.ctx, ast.Load)} - params - {a.id for a in ast.walk(g) if isinstance(a, ast.Name) and isinstance(a.ctx, ast.Store)}
            local_of_outer = {x.id for x in _own(f) if isinstance(x, ast.Name) and isinstance(x.ctx, ast.Store)} | {a.arg for a in f.args.args}
            captured = free & local_of_outer
            if captured:
                ok = False
                why.append(f"{name} captures per-call state {sorted(captured)}")
        for n in _own(f):
            if isinstance(n, ast.Assign) and all(isinstance(t, ast.Attribute) for t in n.targets):
                v = n.value
                src = v.id if isinstance(v, ast.Name) else ast.unparse(v)
                if not (isinstance(v, ast.Name) and (v.id in aes.functions or v.id in nested) or ast.unparse(v) == "fb.CryptAES"):
                    ok = False
                    why.append(f"line {n.lineno}: installs {src}")
        fns.append(dict(aes.fn_info("patch_pypdf_fallback_aes"), obligations=1))
    G("C15/_pypdf_aes_fallback.py::patch_pypdf_fallback_aes/frame#installs-only-stateless-functions-(idempotent)", ok, "; ".join(why), AESF)
    # H3 / H5 / H7..H9: module-level state -- inventory, memo soundness, write discipline, ownership, atomicity (contracts/c15_own.py)
    an = O.Analysis(repo, files)
    rel_of = {an.sid(rel, name): rel for (rel, name) in an.state}
    written = an.written_states()
    expected = {"pdf_extractor.py::_FONT_CACHE", "serialization.py::_TYPE_REGISTRY", "_pypdf_aes_fallback.py::_ROUND_KEY_CACHE", "archive_extractor.py::_config"}
    extra = sorted(set(written) - expected)
    inv = ground_obligation("C15/package/policy#inventory-of-module-level-mutable-state", not extra and expected <= set(written) and an.converged,
                            f"mutated module-level objects: {written}" + (f"; NOT in the reviewed inventory: {extra}" if extra else ""), "package")
    inv["replay_hint"] = {"new_states": [{"state": x, "rel": rel_of.get(x), "writers": sorted({e["fn"][1] for e in an.writes(x)})} for x in extra]}
    obls.append(inv)

    def hint(x, **kw):
        return dict({"state": x, "rel": rel_of.get(x), "functions": O.touching_functions(an, x)}, **kw)

    def GH(oid, ok, why, loc, definite=True, h=None):
        o = ground_obligation(oid, ok, why, loc, definite=definite)
        if h is not None:
            o["replay_hint"] = h
        obls.append(o)

    for x in written:
        cw = sorted(O.content_writes(an, x), key=lambda e: (e["fn"], e["node"].lineno, e["node"].col_offset))
        keyed = [e for e in cw if e["key"] is not None and e["value"] is not None and not e["removal"]]
        # bulk publication from a local staging dict: X.update(local) with local[k] = v in the same function -> its keyed stores
        for e in cw:
            n = e["node"]
            if isinstance(n, ast.Call) and isinstance(n.func, ast.Attribute) and n.func.attr == "update" and len(n.args) == 1 and isinstance(n.args[0], ast.Name):
                fn = an.fns[e["fn"]]
                for a in fn.own:
                    if isinstance(a, ast.Assign) and len(a.targets) == 1 and isinstance(a.targets[0], ast.Subscript) and isinstance(a.targets[0].value, ast.Name) \
                            and a.targets[0].value.id == n.args[0].id and n.args[0].id in fn.locals:
                        keyed.append(dict(e, node=a, key=a.targets[0].slice, value=a.value, how=f"line {a.lineno}: {ast.unparse(a.targets[0])} staged, published by line {n.lineno}"))
        keyed.sort(key=lambda e: (e["fn"], e["node"].lineno, e["node"].col_offset))
        accessors = sorted({e["fn"][1] for e in cw})
        per_fn = {}
        for e in keyed:
            fn = an.fns[e["fn"]]
            q = e["fn"][1]
            k = per_fn.get(q, 0)
            per_fn[q] = k + 1
            kd = O.deps(an, fn, e["key"])
            vd = O.deps(an, fn, e["value"])          # incl. module state: a value computed from what the cache holds depends on history
            ok = vd <= kd
            h = hint(x, writer=q, accessors=accessors)
            # H3a: the stored value is computed from nothing but what the key is computed from (parameters and module state)
            GH(f"C15/{x}/memo#stored-value-depends-only-on-the-key-{q}-{k}", ok,
               f"{q}: key depends on {sorted(kd)}, stored value depends on {sorted(vd)}" + ("" if ok else " -- a later call with the same key and other arguments gets a stale value"), x, h=h)
            # H3b: ... and the key DETERMINES each of those inputs (two different inputs never share a key)
            lost = [p for p in sorted(vd) if not p.startswith("state:") and not O.determines(an, fn, e["key"], p)]
            GH(f"C15/{x}/memo#key-determines-every-input-of-the-stored-value-{q}-{k}", not lost,
               f"{q}: key `{ast.unparse(e['key'])[:80]}`" + (f" is not built injectively from {lost}: two calls that differ in {lost} may share a cache entry" if lost else
                                                              f" is built from {sorted(vd)} by tuples / order-preserving conversions only"), x, definite=False, h=h)
        # H3c: lookups and stores of one accessor use one key expression
        for q in accessors:
            fn = an.fns[[e["fn"] for e in cw if e["fn"][1] == q][0]]
            keys = set()
            for n in fn.own:
                if isinstance(n, ast.Subscript) and not isinstance(n.slice, ast.Slice) and O.is_state_expr(an, fn, n.value, x):
                    keys.add(ast.unparse(n.slice))
                elif isinstance(n, ast.Compare) and len(n.ops) == 1 and isinstance(n.ops[0], (ast.In, ast.NotIn)) and O.is_state_expr(an, fn, n.comparators[0], x):
                    keys.add(ast.unparse(n.left))
                elif isinstance(n, ast.Call) and isinstance(n.func, ast.Attribute) and n.func.attr in ("get", "setdefault", "pop", "move_to_end") and n.args \
                        and O.is_state_expr(an, fn, n.func.value, x):
                    keys.add(ast.unparse(n.args[0]))
            for e in keyed:
                if e["fn"][1] == q and "staged" in e["how"]:
                    keys.add(ast.unparse(e["key"]))
            if keys:
                GH(f"C15/{x}/memo#lookup-key-is-the-store-key-{q}", len(keys) == 1, f"{q}: key expressions used on the cache: {sorted(keys)}", x, definite=False,
                   h=hint(x, writer=q, accessors=accessors))
        # H7: every content-changing write happens after a miss of the state's own lookup, in its accessor
        unguarded = []
        for e in cw:
            if e["removal"]:
                continue
            fn = an.fns[e["fn"]]
            if O.miss_guard(an, fn, e["node"], x) is None:
                unguarded.append(f"{e['fn'][1]}: {e['how']}")
        if cw:
            GH(f"C15/{x}/frame#written-only-after-a-miss-of-its-own-lookup", not unguarded,
               "; ".join(unguarded) or f"{len([e for e in cw if not e['removal']])} write(s), each behind an `if <lookup hit>: return`; accessor(s): {accessors}", x,
               definite=False, h=hint(x, accessors=accessors))
        # H8: a reader that takes "non-empty" for "completely populated" -> every write sits behind that guard and stores nothing call-specific
        eg = O.emptiness_guards(an, x)
        if eg:
            bad = []
            for e in cw:
                fn = an.fns[e["fn"]]
                okw = False
                for (gf, g, form) in eg:
                    if gf is not fn:
                        continue
                    pm = O.parents_of(fn)
                    if form == "nonempty-return" and e["node"].lineno > g.end_lineno:
                        okw = True
                    if form == "empty-populate" and O.inside(pm, e["node"], g.body):
                        okw = True
                if not okw:
                    bad.append(f"{e['fn'][1]}: {e['how']} is outside the populate-once guard of {sorted({gf.q for (gf, _g, _f) in eg})}")
                    continue
                for part in ("key", "value"):
                    if e[part] is not None:
                        d = {p for p in O.deps(an, fn, e[part], exclude_state=(x,)) if not p.startswith("state:")}
                        if d:
                            bad.append(f"{e['fn'][1]}: {e['how']} stores something that depends on the call ({sorted(d)})")
            GH(f"C15/{x}/frame#non-empty-means-completely-populated", not bad,
               "; ".join(bad) or f"guard in {sorted({gf.q for (gf, _g, _f) in eg})}; all {len(cw)} write(s) behind it, none depends on a parameter", x,
               h=hint(x, accessors=accessors))
            # H9b (schedules): the population is not observable half-done by another thread
            direct = [e for e in cw if not e["removal"] and not O.locked(an.fns[e["fn"]], e["node"])]
            stepwise = [e for e in direct if an.fns[e["fn"]].loops.get(id(e["node"]))] or (direct if len(direct) > 1 else [])
            GH(f"C15/{x}/schedule#populate-once-state-is-published-atomically", not stepwise,
               "; ".join(f"{e['fn'][1]}: {e['how']} fills the shared object step by step: a thread that tests it meanwhile takes the partial content for complete" for e in stepwise[:3])
               or "one write statement outside loops (or under a lock)", x, definite=False, h=hint(x, accessors=accessors))
        # H9a (schedules): where entries can be evicted, operations that need their key present tolerate a concurrent eviction
        if any(e["removal"] for e in an.writes(x)):
            acts = O.keyed_acts(an, x)
            per = {}
            for (fn, n, text) in acts:
                k = per.get(fn.q, 0)
                per[fn.q] = k + 1
                ok = O.tolerant_or_locked(fn, n)
                GH(f"C15/{x}/schedule#keyed-act-tolerates-a-concurrent-eviction-{fn.q}-{k}", ok,
                   f"{fn.q} line {n.lineno}: `{text}` " + ("is inside try/except KeyError or a lock" if ok else
                                                          "raises KeyError when another thread evicts the entry between the lookup and this statement"), x,
                   definite=False, h=hint(x, accessors=accessors, act=fn.q))
        # H10: ownership -- objects stored in / handed out by the state are never mutated afterwards
        vm = an.vmuts(x)
        GH(f"C15/{x}/ownership#objects-handed-out-by-the-cache-are-never-mutated", not vm,
           "; ".join(f"{e['fn'][1]}: {e['how']}" for e in vm[:4]) or f"handed out through {[k[1] for k, f in sorted(an.fns.items()) if ('V:' + x) in f.ret or ('S:' + x) in f.ret]}; no mutation site reaches them",
           x, definite=any(e["definite"] for e in vm), h=hint(x, accessors=accessors))
    # H10 for module-level tables nobody writes and for memoised results (lru_cache): never mutated through an alias either
    other = [e for e in an.events if e["kind"] == "vmut" and e["state"] not in written]
    GH("C15/package/ownership#module-level-tables-and-memoised-results-are-never-mutated-through-aliases", not other,
       "; ".join(f"{e['state']} in {e['fn'][1]}: {e['how']}" for e in other[:4]) or f"{len(an.state)} module- / class-level mutable objects, {len(an.cached_fns)} memoised functions", "package",
       definite=any(e["definite"] for e in other), h={"rel": rel_of.get(other[0]["state"]) if other else None})
    # lru_cache functions: pure functions of their parameters, apart from the listed read-only globals
    for rel, m in mods.items():
        for q, fn in m.functions.items():
            if any("lru_cache" in ast.unparse(d) for d in fn.decorator_list):
                params = {a.arg for a in fn.args.args}
                stores = [x for x in _own(fn) if isinstance(x, (ast.Global, ast.Nonlocal))]
                attr_stores = [x for x in _own(fn) if isinstance(x, (ast.Attribute, ast.Subscript)) and isinstance(x.ctx, ast.Store)]
                afn = an.fns.get((rel, q))
                reads_config = sorted(set(afn.reads) & set(written)) if afn is not None else ["?"]
                G(f"C15/{rel.split('/')[-1]}::{q}/memo#lru_cache-wrapped-function-has-no-side-effect-and-reads-no-mutable-config",
                  not stores and not attr_stores and not reads_config, f"globals={len(stores)} stores={len(attr_stores)} config-reads={len(reads_config)}", rel)
    # H5b: module-level names rebound from inside functions (`global X`): flags, counters, configuration
    rebinders = []
    for rel, m in mods.items():
        for q, fn in m.functions.items():
            for n in _own(fn):
                if isinstance(n, ast.Global):
                    for nm in n.names:
                        if any(isinstance(x, ast.Name) and x.id == nm and isinstance(x.ctx, ast.Store) for x in _own(fn)):
                            rebinders.append(f"{rel.split('/')[-1]}::{q} rebinds global {nm}")
    for rel, m in mods.items():
        for q, fn in m.functions.items():
            for n in _own(fn):
                if isinstance(n, ast.Call) and dotted(n.func) in ("globals", "vars", "sys.modules.__getitem__", "importlib.import_module") and \
                        (dotted(n.func) == "globals" or (dotted(n.func) == "vars" and not n.args)):
                    rebinders.append(f"{rel.split('/')[-1]}::{q} reaches module state through {dotted(n.func)}()")
                if isinstance(n, ast.Subscript) and dotted(n.value) == "sys.modules":
                    rebinders.append(f"{rel.split('/')[-1]}::{q} reaches module state through sys.modules[...]")
    allowed = {"archive_extractor.py::configure_archive_extraction rebinds global _config"}
    extra_g = sorted(set(rebinders) - allowed)
    rb = ground_obligation("C15/package/policy#no-module-level-name-is-rebound-by-extraction-code", not extra_g,
                           "; ".join(extra_g) or f"{len(rebinders)} rebinding site(s), all in the reviewed list", "package")
    rb["replay_hint"] = {"context_managers": [[rel, q] for rel, m in mods.items() for q, fn in m.functions.items()
                                              if any("contextmanager" in ast.unparse(d) for d in fn.decorator_list)
                                              and f"{rel.split('/')[-1]}::{q}" in {r.split(" rebinds ")[0] for r in extra_g}]}
    obls.append(rb)
    # H5c: a mutable default argument that the function mutates is module-level state in disguise
    md = []
    for (rel, q), afn in sorted(an.fns.items()):
        a = afn.node.args
        pos = a.posonlyargs + a.args
        pairs = list(zip(pos[len(pos) - len(a.defaults):], a.defaults)) + [(k, d) for k, d in zip(a.kwonlyargs, a.kw_defaults) if d is not None]
        for (arg, d) in pairs:
            if O.mutable_expr(d) and arg.arg in afn.mut:
                md.append(f"{rel.split('/')[-1]}::{q}({arg.arg}={ast.unparse(d)[:20]}) is mutated by the function")
    G("C15/package/policy#no-mutable-default-argument-is-mutated", not md, "; ".join(md[:5]) or "no function mutates a parameter that has a mutable default", "package")
    # H11: interpreter- / library-wide settings (the state behind os, sys, locale, warnings, logging, csv, mimetypes, PIL, pypdf ...)
    sites = []
    for rel, m in mods.items():
        imp = an.imports[rel]
        for q, fn in m.functions.items():
            afn = an.fns.get((rel, q))
            loc_names = afn.locals if afn is not None else set()

            def origin(e):
                """dotted origin of an attribute chain whose root is an imported name ('' otherwise)"""
                d = dotted(e)
                if not d:
                    return ""
                root, _, rest = d.partition(".")
                if root in loc_names or root not in imp:
                    return ""
                return imp[root] + ("." + rest if rest else "")
            for n in _own(fn):
                if isinstance(n, ast.Call):
                    o = origin(n.func)
                    if o in SETTERS and (o not in GETTER_WITHOUT_ARGS or n.args or n.keywords):
                        sites.append((f"{rel.split('/')[-1]}::{q}", f"line {n.lineno}: {o}(...)"))
                    if dotted(n.func) in ("setattr", "delattr") and n.args:
                        o = origin(n.args[0])
                        if o and not o.startswith("sharepoint2text"):
                            sites.append((f"{rel.split('/')[-1]}::{q}", f"line {n.lineno}: setattr on {o}"))
                    if isinstance(n.func, ast.Attribute) and n.func.attr in O.DEF_MUTATORS:
                        o = origin(n.func.value)
                        if o in ("os.environ", "sys.path", "sys.modules", "sys.meta_path", "warnings.filters", "mimetypes.types_map", "sys.argv"):
                            sites.append((f"{rel.split('/')[-1]}::{q}", f"line {n.lineno}: {o}.{n.func.attr}(...)"))
                elif isinstance(n, (ast.Assign, ast.AugAssign, ast.AnnAssign, ast.Delete)):
                    tgts = n.targets if isinstance(n, (ast.Assign, ast.Delete)) else [n.target]
                    for t in tgts:
                        for e in (t.elts if isinstance(t, (ast.Tuple, ast.List)) else [t]):
                            if isinstance(e, (ast.Attribute, ast.Subscript)):
                                o = origin(e.value)
                                if o and not o.startswith("sharepoint2text"):
                                    sites.append((f"{rel.split('/')[-1]}::{q}", f"line {n.lineno}: {ast.unparse(e)[:60]} assigned ({o} is not the package's own state)"))
    # ... also through aliases / containers / helper returns (label X: of the ownership analysis)
    for e in an.xmuts():
        sites.append((f"{e['fn'][0].split('/')[-1]}::{e['fn'][1]}", f"{e['how']} ({e['state']} is not the package's own state)"))
    reviewed = {"_pypdf_aes_fallback.py::patch_pypdf_fallback_aes",          # the one documented permanent change (H2)
                "pdf_extractor.py::_patched_build_char_map"}                 # the temporary patch: restored on every exit (H1), serialised (H12)
    extra_s = sorted({f"{w} {what}" for (w, what) in sites if w not in reviewed})
    st_o = ground_obligation("C15/package/policy#no-interpreter-or-third-party-setting-is-changed-by-extraction-code", not extra_s,
                             "; ".join(extra_s[:5]) or f"{len(sites)} site(s), all in {sorted(reviewed)}; setters checked: {len(SETTERS)}", "package", definite=False)
    st_o["replay_hint"] = {"context_managers": [[rel, q] for rel, m in mods.items() for q, fn in m.functions.items()
                                                if any("contextmanager" in ast.unparse(d) for d in fn.decorator_list)]}
    obls.append(st_o)
    # H12 (schedules): a temporary patch of a shared object (save / set / restore) is a critical section
    by_fn = {}
    for e in an.xmuts():
        w = f"{e['fn'][0].split('/')[-1]}::{e['fn'][1]}"
        if w != "_pypdf_aes_fallback.py::patch_pypdf_fallback_aes":
            by_fn.setdefault(e["fn"], []).append(e)
    for key, evs in sorted(by_fn.items()):
        afn = an.fns[key]
        open_ = [e for e in evs if not O.locked(afn, e["node"])]
        is_cm = any("contextmanager" in ast.unparse(d) for d in afn.node.decorator_list)
        o = ground_obligation(f"C15/{key[0].split('/')[-1]}::{key[1]}/schedule#temporary-patch-of-shared-objects-is-serialised", not open_,
                              "; ".join(sorted({f"{e['how']} on {e['state']}" for e in open_})[:4]) + (" -- not under a lock: two threads interleaving save / set / restore "
                                                                                                      "leave the other thread's wrapper installed" if open_ else "all under a lock"),
                              key[0], definite=False)
        o["replay_hint"] = {"rel": key[0], "patchers": [[key[0], key[1]]] if is_cm else [], "functions": [key[1].split(".")[-1]]}
        obls.append(o)
    # H4: _config
    arch = mods[ARCH]
    writers = sorted({q for q, fn in arch.functions.items() if any(isinstance(n, ast.Global) and "_config" in n.names for n in _own(fn))}
                     | {e["fn"][1] for e in an.writes("archive_extractor.py::_config")})
    G("C15/archive_extractor.py::_config/frame#written-only-by-configure_archive_extraction", writers == ["configure_archive_extraction"], str(writers), ARCH)
    # H6: handles closed on all paths
    bad, n_sites = [], 0
    OPENERS = ("olefile.OleFileIO", "OleFileIO", "zipfile.ZipFile", "tarfile.open", "SevenZipFile", "tempfile.TemporaryDirectory", "open", "load_workbook",
               "ZipContext", "OOXMLZipContext", "_DocxContext", "_PptxContext", "_OdtContext", "_OdsContext", "_OdpContext", "_EpubContext", "open_zipfile")
    for rel, m in mods.items():
        for q, fn in m.functions.items():
            parents = {}
            for x in ast.walk(fn):
                for ch in ast.iter_child_nodes(x):
                    parents[id(ch)] = x
            for n in _own(fn):
                if not (isinstance(n, ast.Call) and dotted(n.func) in OPENERS):
                    continue
                n_sites += 1
                p = parents.get(id(n))
                if isinstance(p, ast.withitem):
                    continue
                if isinstance(p, ast.Return):
                    continue      # ownership passes to the caller (open_zipfile)
                if isinstance(p, ast.Assign) and len(p.targets) == 1:
                    tgt = ast.unparse(p.targets[0])
                    closes = [c for c in ast.walk(fn) if isinstance(c, ast.Call) and isinstance(c.func, ast.Attribute) and c.func.attr == "close"
                              and ast.unparse(c.func.value) == tgt]
                    in_finally = any(any(any(c is y for y in ast.walk(fb)) for fb in t.finalbody) or
                                     any(any(c is y for y in ast.walk(h)) for h in t.handlers)
                                     for c in closes for t in ast.walk(fn) if isinstance(t, ast.Try))
                    if closes and in_finally:
                        continue
                    if tgt.startswith("self."):
                        cls = q.rsplit(".", 1)[0]
                        if any(k.startswith(cls + ".") and k.endswith(("close", "__exit__")) for k in m.functions):
                            continue      # owned by the object, released by its close()/__exit__
                    bad.append(f"{rel}:{n.lineno} {dotted(n.func)} assigned to {tgt} without close() in finally")
                    continue
                bad.append(f"{rel}:{n.lineno} {dotted(n.func)} result not bound to a with-item / closed variable")
    for rel, m in mods.items():
        for q, fn in m.functions.items():
            for blk in [x for x in ast.walk(fn) if hasattr(x, "body") and isinstance(getattr(x, "body"), list)]:
                for fld in ("body", "orelse", "finalbody"):
                    stmts = getattr(blk, fld, None)
                    if not isinstance(stmts, list):
                        continue
                    for i, st_ in enumerate(stmts):
                        calls = [c for c in ast.walk(st_) if isinstance(c, ast.Call) and dotted(c.func) in ("tempfile.mkdtemp", "mkdtemp", "tempfile.mkstemp", "tempfile.NamedTemporaryFile")] \
                            if isinstance(st_, (ast.Assign, ast.Expr, ast.AnnAssign)) else []
                        for c in calls:
                            n_sites += 1
                            tgt = ast.unparse(st_.targets[0]) if isinstance(st_, ast.Assign) else None
                            nxt = stmts[i + 1] if i + 1 < len(stmts) else None
                            ok_ = isinstance(nxt, ast.Try) and any(
                                isinstance(r, ast.Call) and dotted(r.func) in ("shutil.rmtree", "os.remove", "os.unlink", "os.rmdir") and tgt and tgt in ast.unparse(r)
                                for fb in nxt.finalbody for r in ast.walk(fb)) if tgt else False
                            if not ok_:
                                bad.append(f"{rel}:{c.lineno} {dotted(c.func)}: the temporary object is not removed by a `finally` that starts right after its creation")
    G("C15/package/typestate#every-handle-opened-by-own-code-is-closed-on-all-paths", not bad and n_sites >= 20, "; ".join(bad[:6]) or f"{n_sites} open sites", "package")
    return {"obligations": obls, "functions": fns}


def validate_histories(repo, tier):
    """BOUNDED validation (not a proof): all fixtures extracted in isolation vs in two long sequences in one process."""
    import json
    import os
    import subprocess
    root = os.path.dirname(os.path.dirname(os.path.abspath(__file__)))
    oid = "C15/package/assumed-contract-validation#fixtures-same-in-isolation-and-in-sequences"
    try:
        p = subprocess.run(["/venv/bin/python", os.path.join(root, "replay", "run.py")], input=json.dumps({"property": "C15", "obligation": oid, "list_all": True}),
                           capture_output=True, text=True, timeout=900, env=dict(os.environ, VERIF_REPO=repo))
        lines = [l for l in p.stdout.splitlines() if l.startswith("{")]
        res = json.loads(lines[-1]) if lines else {}
    except Exception as e:  # noqa
        res = {"note": str(e)}
    if "mismatches" not in res:
        return {"obligations": [], "undecided": [{"obligation": oid, "why": "native validation did not run: " + str(res.get("note", ""))[:200]}]}
    mm = res["mismatches"]
    o = ground_obligation(oid, not mm, "; ".join(f"{m[0]}: {m[1]}" for m in mm[:6]) or f"{res.get('fixtures')} fixtures + generated documents agree", "package",
                          kind="assumption-validation", backend="native-replay(bounded: generated documents pairwise, stored payloads, repository fixtures in 2 orders)")
    o["bounded"] = True          # a bounded native run: never counted as discharged
    o["bound"] = "generated documents (every ordered pair), (de)serialisation after one other step, repository fixtures forward / reverse"
    return {"obligations": [o]}


def known_findings(kf, violations, repo, tier):
    """Recorded genuine defects (schedule half).  A recorded finding covers its obligation only while the native replayer still
    reproduces it *at the recorded place*: the preemption point of the reproduced schedule must lie in the recorded function."""
    import json
    vio = {v["id"]: v for v in violations}
    out = []
    for f in kf:
        o = vio.get(f["obligation"])
        still, detail = False, ""
        rp = (o or {}).get("_replayed") or {}
        if o is not None and rp.get("reproduced"):
            try:
                rec = json.load(open(rp["path"]))
            except Exception:  # noqa
                rec = {}
            where = str((rec.get("inputs") or {}).get("preemption_point") or "")
            want = (f.get("witness") or {}).get("preempt_in")
            still = bool(want) and where.endswith(" in " + want)
            detail = str((rec.get("inputs") or {}).get("schedule") or "")[:300] + " -> " + str(rec.get("observed"))[:120]
        out.append({"finding": f["id"], "still_fails": still, "line": f"{f['id']}: {f['what']}", "covers": [f["obligation"]] if still else [],
                    "witness_replay": detail})
    return out


EXTRA = [policy, validate_histories]
BOUNDED = ["assumed-contract-validation#fixtures-same-in-isolation-and-in-sequences: generated documents (EPUB / HTML incl. truncated ones, text, archives, "
           "corrupt inputs) every one after every other one against forked pristine baselines, stored payloads deserialised after one other "
           "(de)serialisation step, repository fixtures forward and reverse in one process with fresh-process baselines for the PDFs and a sample; "
           "interpreter / third-party settings and patched functions compared before / after -- bounded validation, not a proof"]
TRUSTED = ["the with-body of _patched_build_char_map leaves the patched attributes as it found them (holds for nested uses by this very obligation)",
           "mimetypes database does not change between calls (lru_cache'd guess_content_type, router caches)",
           "library (non-package) callables do not mutate the arguments they are given (ownership analysis); copies (dict(x), list(x), x.copy(), slices) "
           "are tracked one level deep"]
ASSUMED_MODELS = ["getattr/setattr on pypdf modules (ghost attribute map)", "generator resumption: normal, throw(exc), close()",
                  "_ROUND_KEY_CACHE as an abstract mapping whose values are published heap objects; _expand_key returns a fresh list or raises ValueError (C20 proves it)"]
ASSUMPTIONS = ["SCHEDULES: only the sufficient conditions H9a / H9b / H10 / H12 on the module state the library owns are decided; interleavings inside third-party "
               "code and schedules with more context switches than the replayer explores (1 for caches, 2 for the patch section) are NOT",
               "memo soundness / ownership / write discipline are dataflow analyses on the real AST (back end 'dataflow'); an unrecognised shape is `unknown`, never proved",
               "PY-GEN"]

REPLAY_UNKNOWN = True    # undecided / out-of-subset items are searched natively (replay) before being reported UNDECIDED
