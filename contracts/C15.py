"""C15 -- isolation: results independent of history (and of concurrent work).

**Schedules** (thread interleavings) cannot be expressed by per-call contracts and no
tool of this family is available for Python threads: that half of C15 is NOT decided here
(stated in MANIFEST level_note).  The **histories** half is a set of frame conditions on
module state:
  H1  `_patched_build_char_map`: on every exit of the with-body (normal, exception thrown at
      the yield, close) every patched attribute holds its entry value again (symbolic execution
      of the real generator; the with-body is assumed to leave the attributes as it found them,
      which is this very obligation for nested uses);
  H2  `patch_pypdf_fallback_aes` installs only module-level functions / closures without
      captured per-call state (idempotent in behaviour) -- the one documented permanent change;
  H3  memo soundness of every module-level cache: the stored value depends on the key only;
  H4  `_config` is written only by `configure_archive_extraction`;
  H5  inventory of module-level mutable state (a new global mutable is flagged);
  H6  every OLE / ZIP / workbook / temp-dir handle opened by own code is closed on all paths.
"""
import ast

import z3

from pyvc import loader, ops
from pyvc.contracts import FnContract, Raises
from pyvc.flow import dotted, ground_obligation
from pyvc.symex import Executor
from pyvc.values import NONE, VBool, VExc, VExt, VFunc, VStr, VTuple, VUnk, fresh_name
from pyvc.verify import Maker

PDF = "sharepoint2text/parsing/extractors/pdf/pdf_extractor.py"
AESF = "sharepoint2text/parsing/extractors/pdf/_pypdf_aes_fallback.py"
ARCH = "sharepoint2text/parsing/extractors/archive_extractor.py"


class C15Executor(Executor):
    """Module attributes as ghost state; `yield` inside the context manager may be resumed normally,
    or by an exception thrown in / GeneratorExit (PY-GEN)."""

    def attrs(self, st):
        return dict(st.ghost.get("modattrs", {}))

    def b_getattr(self, st, args, kwargs, node):
        if len(args) >= 2 and isinstance(args[0], VExt) and args[0].sort == "PyModule" and isinstance(args[1], VStr) and args[1].const() is not None:
            key = (args[0].t.get_id(), args[1].const())
            a = self.attrs(st)
            if key not in a:
                a[key] = VExt("Callable")
                st.ghost["modattrs"] = a
                ent = dict(st.ghost.get("modattrs_entry", {}))
                ent[key] = a[key]
                st.ghost["modattrs_entry"] = ent
            return [(st, a[key])]
        return super().b_getattr(st, args, kwargs, node)

    def b_setattr(self, st, args, kwargs, node):
        if len(args) == 3 and isinstance(args[0], VExt) and args[0].sort == "PyModule" and isinstance(args[1], VStr) and args[1].const() is not None:
            key = (args[0].t.get_id(), args[1].const())
            a = self.attrs(st)
            if key not in a:
                ent = dict(st.ghost.get("modattrs_entry", {}))
                ent[key] = VExt("Callable")
                st.ghost["modattrs_entry"] = ent
            a[key] = args[2]
            st.ghost["modattrs"] = a
            return [(st, NONE)]
        return self.havoc_call(st, "setattr", args, node)

    def e_Yield(self, n, st):
        res = super().e_Yield(n, st)
        out = []
        for (s, v) in res:
            # the consumer may throw any exception into the generator, or close it (GeneratorExit), at this yield
            bad = s.fork()
            t = z3.Int(fresh_name("thrown"))
            bad.assume(z3.And(t >= 0, t < len(self.uni.names), self.uni.subclass_term(t, "BaseException")))
            self.raise_in(bad, VExc(t, {"site": "thrown into generator at yield"}))
            out.append((s, v))
        return out


EXECUTOR = C15Executor


def patch_target_shapes(repo=None):
    """The (module alias, attribute) lists that _get_pypdf_char_map_patcher can return, read from its AST."""
    m = loader.module(PDF, repo)
    f = m.functions.get("_get_pypdf_char_map_patcher")
    shapes = []
    if f is None:
        return None
    for n in ast.walk(f):
        if isinstance(n, ast.Return) and n.value is not None:
            v = n.value
            if isinstance(v, ast.Tuple) and len(v.elts) == 2 and isinstance(v.elts[0], ast.List):
                items = []
                for e in v.elts[0].elts:
                    if isinstance(e, ast.Tuple) and len(e.elts) == 2 and isinstance(e.elts[0], ast.Name) and isinstance(e.elts[1], ast.Constant):
                        items.append((e.elts[0].id, e.elts[1].value))
                    else:
                        return None
                shapes.append(items)
            elif not (isinstance(v, ast.Name)):   # nested `return patched` of the wrappers is fine
                inner = [g for g in ast.walk(f) if isinstance(g, ast.FunctionDef) and g is not f and any(x is n for x in ast.walk(g))]
                if not inner:
                    return None
    return shapes


def contracts(reg):
    out = []
    shapes = patch_target_shapes() or []

    def patcher_result(ex, st, ctx):
        return VUnk("unused")

    # the patcher: returns one of the literal target lists (objects of distinct modules) and a total wrapper factory
    def m_patcher(ex, st, args, kwargs, node):
        outs = []
        bad = st.fork()
        ex.raise_in(bad, ex.mk_exc("AttributeError"))
        for items in shapes:
            s2 = st.fork()
            mods = {}
            tup = []
            for (alias, name) in items:
                if alias not in mods:
                    mods[alias] = VExt("PyModule")
                tup.append(VTuple([mods[alias], VStr(name)]))
            outs.append((s2, VTuple([VTuple(tup), VFunc("ext", "C15.make_wrapper")])))
        return outs

    reg.ext_models["C15.make_wrapper"] = lambda ex, st, args, kwargs, node: [(st, VExt("Callable"))]
    reg.fn[f"{PDF}::_get_pypdf_char_map_patcher"] = FnContract(
        target=f"{PDF}::_get_pypdf_char_map_patcher", assumed=True, inline=False,
        note="ASSUMED shape, cross-checked against its AST by obligation H1.shape: returns (literal list of (module, name) pairs, "
             "wrapper factory that only defines a closure) or raises AttributeError")
    # route calls of the real function to the model above
    def call_patcher(ex, st, args, kwargs, node):
        return m_patcher(ex, st, args, kwargs, node)
    reg.module_consts[(PDF, "_get_pypdf_char_map_patcher")] = VFunc("ext", "C15.patcher")
    reg.ext_models["C15.patcher"] = call_patcher

    def restored(c):
        a = c.st.ghost.get("modattrs", {})
        e = c.st.ghost.get("modattrs_entry", {})
        ok = all(k in a and a[k] is e[k] for k in e)
        c.note = f"{len(e)} patched attribute(s); restored={ok}"
        return z3.BoolVal(ok)

    out.append(FnContract(
        target=f"{PDF}::_patched_build_char_map", params=[], generator=True,
        ensures=[("every-patched-attribute-restored-on-normal-exit", restored)],
        raises=[Raises("BaseException", sub=True, when=lambda c: restored(c) if c.st is not None else z3.BoolVal(True),
                       label="exception thrown into the with-body / GeneratorExit: attributes restored before it propagates")],
        note="the generator behind @contextlib.contextmanager; with-protocol = body up to the yield, then the finally block",
    ))
    return out


# ---------------------------------------------------------------- dataflow --
def _own(fnode):
    stack = list(ast.iter_child_nodes(fnode))
    while stack:
        n = stack.pop()
        yield n
        if isinstance(n, (ast.FunctionDef, ast.AsyncFunctionDef, ast.Lambda, ast.ClassDef)):
            continue
        stack.extend(ast.iter_child_nodes(n))


def deps(fnode, expr, params):
    """Parameters that `expr` may depend on (through local assignments), flow-insensitive."""
    dep = {p: {p} for p in params}
    for _ in range(6):
        for n in _own(fnode):
            tgts, val = [], None
            if isinstance(n, ast.Assign):
                tgts, val = n.targets, n.value
            elif isinstance(n, (ast.AugAssign, ast.AnnAssign)) and getattr(n, "value", None) is not None:
                tgts, val = [n.target], n.value
            elif isinstance(n, ast.For):
                tgts, val = [n.target], n.iter
            if val is None:
                continue
            d = set()
            for x in ast.walk(val):
                if isinstance(x, ast.Name):
                    d |= dep.get(x.id, set())
            for t in tgts:
                elts = t.elts if isinstance(t, (ast.Tuple, ast.List)) else [t]
                for e in elts:
                    b = e
                    extra = set()
                    while isinstance(b, (ast.Subscript, ast.Attribute)):
                        if isinstance(b, ast.Subscript):      # names in the index are read, and flow into the container
                            for x in ast.walk(b.slice):
                                if isinstance(x, ast.Name):
                                    extra |= dep.get(x.id, set())
                        b = b.value
                    if isinstance(b, ast.Name):
                        dep[b.id] = dep.get(b.id, set()) | d | extra
    out = set()
    for x in ast.walk(expr):
        if isinstance(x, ast.Name):
            out |= dep.get(x.id, set())
    return out


def policy(repo, tier):
    obls, fns = [], []
    files = [f for f in loader.all_package_files(repo) if "/sharepoint_io/" not in f]
    mods = {f: loader.module(f, repo) for f in files}
    G = lambda oid, ok, why="", loc="", definite=True: obls.append(ground_obligation(oid, ok, why, loc, definite=definite))
    # H1.shape: the patcher returns only literal (module, name) lists and its wrapper factories only define closures
    shapes = patch_target_shapes(repo)
    G("C15/pdf_extractor.py::_get_pypdf_char_map_patcher/policy#returns-literal-target-lists", bool(shapes) and all(1 <= len(s) <= 3 for s in shapes),
      f"target lists: {shapes}", PDF, definite=False)
    pdf = mods[PDF]
    # with-only use of the context manager
    uses = [n for n in ast.walk(pdf.tree) if isinstance(n, ast.Call) and dotted(n.func) == "_patched_build_char_map"]
    withs = [w for w in ast.walk(pdf.tree) if isinstance(w, ast.With) and any(it.context_expr in uses for it in w.items)]
    G("C15/pdf_extractor.py::_patched_build_char_map/policy#used-only-as-with-item", len(uses) >= 1 and len(uses) == len(withs), f"{len(withs)}/{len(uses)} uses are with-items", PDF)
    # H2: the permanent AES patch installs module-level functions or closures over nothing call-specific
    aes = mods[AESF]
    f = aes.functions.get("patch_pypdf_fallback_aes")
    ok, why = f is not None, []
    if f is not None:
        nested = {n.name: n for n in _own(f) if isinstance(n, ast.FunctionDef)}
        for name, g in nested.items():
            params = {a.arg for a in g.args.args}
            free = {x.id for x in ast.walk(g) if isinstance(x, ast.Name) and isinstance(x.ctx, ast.Load)} - params - {a.id for a in ast.walk(g) if isinstance(a, ast.Name) and isinstance(a.ctx, ast.Store)}
            local_of_outer = {x.id for x in _own(f) if isinstance(x, ast.Name) and isinstance(x.ctx, ast.Store)} | {a.arg for a in f.args.args}
            captured = free & local_of_outer
            if captured:
                ok = False
                why.append(f"{name} captures per-call state {sorted(captured)}")
        for n in _own(f):
            if isinstance(n, ast.Assign) and all(isinstance(t, ast.Attribute) for t in n.targets):
                v = n.value
                src = v.id if isinstance(v, ast.Name) else ast.unparse(v)
                if not (isinstance(v, ast.Name) and (v.id in aes.functions or v.id in nested) or ast.unparse(v) == "fb.CryptAES"):
                    ok = False
                    why.append(f"line {n.lineno}: installs {src}")
        fns.append(dict(aes.fn_info("patch_pypdf_fallback_aes"), obligations=1))
    G("C15/_pypdf_aes_fallback.py::patch_pypdf_fallback_aes/frame#installs-only-stateless-functions-(idempotent)", ok, "; ".join(why), AESF)
    # H3 / H5: module-level mutable state and memo soundness
    inventory = {}
    for rel, m in mods.items():
        for name, e in m.assigns.items():
            mutable = isinstance(e, (ast.Dict, ast.List, ast.Set)) or (isinstance(e, ast.Call) and dotted(e.func) in ("dict", "list", "set", "OrderedDict", "collections.OrderedDict", "defaultdict"))
            if not mutable:
                continue
            writers = []
            for q, fn in m.functions.items():
                for n in _own(fn):
                    if isinstance(n, (ast.Assign, ast.AugAssign)):
                        for t in (n.targets if isinstance(n, ast.Assign) else [n.target]):
                            if isinstance(t, ast.Subscript) and isinstance(t.value, ast.Name) and t.value.id == name:
                                writers.append((q, fn, n, t))
                    if isinstance(n, ast.Call) and isinstance(n.func, ast.Attribute) and isinstance(n.func.value, ast.Name) and n.func.value.id == name \
                            and n.func.attr in ("append", "extend", "update", "setdefault", "add", "pop", "popitem", "clear", "move_to_end", "insert"):
                        writers.append((q, fn, n, None))
            if writers:
                inventory[f"{rel.split('/')[-1]}::{name}"] = writers
    expected = {"pdf_extractor.py::_FONT_CACHE", "serialization.py::_TYPE_REGISTRY", "_pypdf_aes_fallback.py::_ROUND_KEY_CACHE"}
    extra = sorted(set(inventory) - expected)
    G("C15/package/policy#inventory-of-module-level-mutable-state", not extra and expected <= set(inventory),
      f"mutated module-level containers: {sorted(inventory)}" + (f"; NOT in the reviewed inventory: {extra}" if extra else ""), "package")
    for key, writers in sorted(inventory.items()):
        k = 0
        for (q, fn, n, t) in writers:
            if t is None or not isinstance(n, ast.Assign):
                continue
            params = [a.arg for a in fn.args.args + fn.args.kwonlyargs]
            kd = deps(fn, t.slice, params)
            vd = deps(fn, n.value, params)
            ok = vd <= kd
            G(f"C15/{key}/memo#stored-value-depends-only-on-the-key-{q}-{k}", ok,
              f"{q}: key depends on {sorted(kd)}, stored value depends on {sorted(vd)}" + ("" if ok else " -- a later call with the same key and other arguments gets a stale value"),
              key)
            k += 1
    # lru_cache functions: pure functions of their parameters, apart from the listed read-only globals
    for rel, m in mods.items():
        for q, fn in m.functions.items():
            if any("lru_cache" in ast.unparse(d) for d in fn.decorator_list):
                params = {a.arg for a in fn.args.args}
                stores = [x for x in _own(fn) if isinstance(x, (ast.Global, ast.Nonlocal))]
                attr_stores = [x for x in _own(fn) if isinstance(x, (ast.Attribute, ast.Subscript)) and isinstance(x.ctx, ast.Store)]
                reads_config = [x.id for x in _own(fn) if isinstance(x, ast.Name) and x.id == "_config"]
                G(f"C15/{rel.split('/')[-1]}::{q}/memo#lru_cache-wrapped-function-has-no-side-effect-and-reads-no-mutable-config",
                  not stores and not attr_stores and not reads_config, f"globals={len(stores)} stores={len(attr_stores)} config-reads={len(reads_config)}", rel)
    # H5b: module-level names rebound from inside functions (`global X`): flags, counters, configuration
    rebinders = []
    for rel, m in mods.items():
        for q, fn in m.functions.items():
            for n in _own(fn):
                if isinstance(n, ast.Global):
                    for nm in n.names:
                        if any(isinstance(x, ast.Name) and x.id == nm and isinstance(x.ctx, ast.Store) for x in _own(fn)):
                            rebinders.append(f"{rel.split('/')[-1]}::{q} rebinds global {nm}")
    allowed = {"archive_extractor.py::configure_archive_extraction rebinds global _config"}
    extra_g = sorted(set(rebinders) - allowed)
    G("C15/package/policy#no-module-level-name-is-rebound-by-extraction-code", not extra_g,
      "; ".join(extra_g) or f"{len(rebinders)} rebinding site(s), all in the reviewed list", "package")
    # H4: _config
    arch = mods[ARCH]
    writers = [q for q, fn in arch.functions.items() if any(isinstance(n, ast.Global) and "_config" in n.names for n in _own(fn))]
    G("C15/archive_extractor.py::_config/frame#written-only-by-configure_archive_extraction", writers == ["configure_archive_extraction"], str(writers), ARCH)
    # H6: handles closed on all paths
    bad, n_sites = [], 0
    OPENERS = ("olefile.OleFileIO", "OleFileIO", "zipfile.ZipFile", "tarfile.open", "SevenZipFile", "tempfile.TemporaryDirectory", "open", "load_workbook",
               "ZipContext", "OOXMLZipContext", "_DocxContext", "_PptxContext", "_OdtContext", "_OdsContext", "_OdpContext", "_EpubContext", "open_zipfile")
    for rel, m in mods.items():
        for q, fn in m.functions.items():
            parents = {}
            for x in ast.walk(fn):
                for ch in ast.iter_child_nodes(x):
                    parents[id(ch)] = x
            for n in _own(fn):
                if not (isinstance(n, ast.Call) and dotted(n.func) in OPENERS):
                    continue
                n_sites += 1
                p = parents.get(id(n))
                if isinstance(p, ast.withitem):
                    continue
                if isinstance(p, ast.Return):
                    continue      # ownership passes to the caller (open_zipfile)
                if isinstance(p, ast.Assign) and len(p.targets) == 1:
                    tgt = ast.unparse(p.targets[0])
                    closes = [c for c in ast.walk(fn) if isinstance(c, ast.Call) and isinstance(c.func, ast.Attribute) and c.func.attr == "close"
                              and ast.unparse(c.func.value) == tgt]
                    in_finally = any(any(any(c is y for y in ast.walk(fb)) for fb in t.finalbody) or
                                     any(any(c is y for y in ast.walk(h)) for h in t.handlers)
                                     for c in closes for t in ast.walk(fn) if isinstance(t, ast.Try))
                    if closes and in_finally:
                        continue
                    if tgt.startswith("self."):
                        cls = q.rsplit(".", 1)[0]
                        if any(k.startswith(cls + ".") and k.endswith(("close", "__exit__")) for k in m.functions):
                            continue      # owned by the object, released by its close()/__exit__
                    bad.append(f"{rel}:{n.lineno} {dotted(n.func)} assigned to {tgt} without close() in finally")
                    continue
                bad.append(f"{rel}:{n.lineno} {dotted(n.func)} result not bound to a with-item / closed variable")
    for rel, m in mods.items():
        for q, fn in m.functions.items():
            for blk in [x for x in ast.walk(fn) if hasattr(x, "body") and isinstance(getattr(x, "body"), list)]:
                for fld in ("body", "orelse", "finalbody"):
                    stmts = getattr(blk, fld, None)
                    if not isinstance(stmts, list):
                        continue
                    for i, st_ in enumerate(stmts):
                        calls = [c for c in ast.walk(st_) if isinstance(c, ast.Call) and dotted(c.func) in ("tempfile.mkdtemp", "mkdtemp", "tempfile.mkstemp", "tempfile.NamedTemporaryFile")] \
                            if isinstance(st_, (ast.Assign, ast.Expr, ast.AnnAssign)) else []
                        for c in calls:
                            n_sites += 1
                            tgt = ast.unparse(st_.targets[0]) if isinstance(st_, ast.Assign) else None
                            nxt = stmts[i + 1] if i + 1 < len(stmts) else None
                            ok_ = isinstance(nxt, ast.Try) and any(
                                isinstance(r, ast.Call) and dotted(r.func) in ("shutil.rmtree", "os.remove", "os.unlink", "os.rmdir") and tgt and tgt in ast.unparse(r)
                                for fb in nxt.finalbody for r in ast.walk(fb)) if tgt else False
                            if not ok_:
                                bad.append(f"{rel}:{c.lineno} {dotted(c.func)}: the temporary object is not removed by a `finally` that starts right after its creation")
    G("C15/package/typestate#every-handle-opened-by-own-code-is-closed-on-all-paths", not bad and n_sites >= 20, "; ".join(bad[:6]) or f"{n_sites} open sites", "package")
    return {"obligations": obls, "functions": fns}


def validate_histories(repo, tier):
    """BOUNDED validation (not a proof): all fixtures extracted in isolation vs in two long sequences in one process."""
    import json
    import os
    import subprocess
    root = os.path.dirname(os.path.dirname(os.path.abspath(__file__)))
    oid = "C15/package/assumed-contract-validation#fixtures-same-in-isolation-and-in-sequences"
    try:
        p = subprocess.run(["/venv/bin/python", os.path.join(root, "replay", "run.py")], input=json.dumps({"property": "C15", "obligation": oid, "list_all": True}),
                           capture_output=True, text=True, timeout=900, env=dict(os.environ, VERIF_REPO=repo))
        lines = [l for l in p.stdout.splitlines() if l.startswith("{")]
        res = json.loads(lines[-1]) if lines else {}
    except Exception as e:  # noqa
        res = {"note": str(e)}
    if "mismatches" not in res:
        return {"obligations": [], "undecided": [{"obligation": oid, "why": "native validation did not run: " + str(res.get("note", ""))[:200]}]}
    mm = res["mismatches"]
    return {"obligations": [ground_obligation(oid, not mm, "; ".join(f"{m[0]}: {m[1]}" for m in mm[:6]) or f"{res.get('fixtures')} fixtures agree", "package",
                                              kind="assumption-validation", backend="native-replay(bounded: repository fixtures, 2 orders)")]}


EXTRA = [policy, validate_histories]
BOUNDED = ["assumed-contract-validation#fixtures-same-in-isolation-and-in-sequences: repository fixtures, forward and reverse order in one process, "
           "PDFs and a sample of the rest against fresh-process baselines -- bounded validation of the frame assumptions, not a proof"]
TRUSTED = ["the with-body of _patched_build_char_map leaves the patched attributes as it found them (holds for nested uses by this very obligation)",
           "mimetypes database does not change between calls (lru_cache'd guess_content_type, router caches)"]
ASSUMED_MODELS = ["getattr/setattr on pypdf modules (ghost attribute map)", "generator resumption: normal, throw(exc), close()"]
ASSUMPTIONS = ["SCHEDULES (thread interleavings) are NOT decided: contracts over one call cannot express them",
               "memo soundness is a parameter-dependency analysis on the AST (back end 'dataflow')", "PY-GEN"]

REPLAY_UNKNOWN = True    # undecided / out-of-subset items are searched natively (replay) before being reported UNDECIDED
