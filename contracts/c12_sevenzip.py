"""C12: the 7z decoders stop at the size the archive declares (contracts on util/sevenzip.py).

`SevenZipReader._decompress_lzma*`: every call of a library decompressor is handed the folder's declared output size -- as the size field
of the reconstructed LZMA-alone header (bytes 5..12, little endian) or as `max_length` -- whenever the folder declares sizes (it always
does: `_parse_unpack_info` reads one size per coder, `_decompress_folder` refuses a folder without coders).  What the decompressor does
with that bound is the library's business (assumed: it produces at most that many bytes)."""
import ast

import z3

from pyvc.contracts import FnContract, Raises
from pyvc.state import HeapObj
from pyvc.values import NONE, VBytes, VExt, VInt, VRef, VUnk
from pyvc.verify import Maker, p_bytes, p_opt, p_unk

SZ = "sharepoint2text/parsing/extractors/util/sevenzip.py"
GHOST = "c12_decoder_calls"


def p_sizes(lengths=(1, 2, 3)):
    """list[int] of each of the given lengths, items >= 0 (7z numbers are unsigned)."""
    def mk(ex, st, name):
        alts = []
        for n in lengths:
            items = [VInt(z3.Int(f"{name}_{n}_{i}")) for i in range(n)]
            cond = z3.And(*[z3.And(x.t >= 0, x.t < 2 ** 63) for x in items])
            ref = st.alloc(HeapObj("list", items, fresh=False), ex.refs)
            alts.append((cond, VRef(ref)))
        return alts
    return Maker(mk, desc=f"list[int] of length {'/'.join(map(str, lengths))}, items >= 0")


def p_props_sampled(first=(0, 1, 16, 39, 40, 255)):
    def mk(ex, st, name):
        return [(None, NONE), (None, VBytes([]))] + [(None, VBytes([VInt(z3.BitVecVal(b, 8))])) for b in first]
    return Maker(mk, desc="None | b'' | one concrete byte of each branch")


def _as_int(v):
    t = v.t
    return z3.BV2Int(t) if z3.is_bv(t) else t


def install(reg):
    def m_pack(ex, st, args, kwargs, node):
        """struct.pack("<Q", v): the eight little-endian bytes of v (v in [0, 2^64), else struct.error); other formats: unknown."""
        fmt = args[0] if args else None
        s = getattr(fmt, "t", None)
        if len(args) == 2 and s is not None and z3.is_string_value(s) and s.as_string() in ("<Q", "<q") and isinstance(args[1], VInt):
            v = _as_int(args[1])
            lo, hi = (0, 2 ** 64) if s.as_string() == "<Q" else (-2 ** 63, 2 ** 63)
            bad = st.fork().assume(z3.Or(v < lo, v >= hi))
            if ex.feasible(bad.pc, z3.BoolVal(True)):
                ex.raise_in(bad, ex.mk_exc("struct.error") if "struct.error" in ex.uni.index else ex.mk_exc("Exception"))
            st.assume(z3.And(v >= lo, v < hi))
            bv = z3.Int2BV(v, 64)
            return [(st, VBytes([VInt(z3.Extract(8 * k + 7, 8 * k, bv)) for k in range(8)]))]
        return ex.havoc_call(st, "struct.pack", args, node)

    def new_dec(ex, st, args, kwargs, node):
        fmt = kwargs.get("format", args[0] if args else None)
        tag = ast.unparse(node)
        kind = "alone" if "FORMAT_ALONE" in tag else ("raw" if "FORMAT_RAW" in tag else "?")
        o = VExt("LZMADecompressor", z3.FreshConst(__import__("pyvc.values", fromlist=["ext_sort"]).ext_sort("LZMADecompressor"), "dec"))
        st.ghost["c12_dec_kind"] = st.ghost.get("c12_dec_kind", ()) + ((o.t.get_id(), kind),)
        return [(st, o)]

    def m_decompress(ex, st, obj, args, kwargs, node):
        kinds = dict(st.ghost.get("c12_dec_kind", ()))
        ml = kwargs.get("max_length", args[1] if len(args) > 1 else None)
        st.ghost[GHOST] = st.ghost.get(GHOST, ()) + ((kinds.get(obj.t.get_id(), "?"), args[0] if args else None, ml, ex.loc(node)),)
        ex.exc_any(st.fork(), f"{ex.loc(node)} LZMADecompressor.decompress")
        return [(st, VUnk("decompressed"))]

    def m_lzma_decompress(ex, st, args, kwargs, node):
        """lzma.decompress(data, format=..): the one-shot form of the same call (no max_length)."""
        tag = ast.unparse(node)
        kind = "alone" if "FORMAT_ALONE" in tag else ("raw" if "FORMAT_RAW" in tag else "?")
        st.ghost[GHOST] = st.ghost.get(GHOST, ()) + ((kind, args[0] if args else None, None, ex.loc(node)),)
        ex.exc_any(st.fork(), f"{ex.loc(node)} lzma.decompress")
        return [(st, VUnk("decompressed"))]

    reg.ext_models["lzma.decompress"] = m_lzma_decompress
    reg.ext_models["struct.pack"] = m_pack
    for n in ("lzma.LZMADecompressor", ("new", "lzma.LZMADecompressor")):
        reg.ext_models[n] = new_dec
    reg.method_models[("LZMADecompressor", "decompress")] = m_decompress


UNRECOGNISED = z3.Function("c12!model-not-definite", z3.IntSort(), z3.BoolSort())(z3.IntVal(1))


def bounded_by_declared(c, sizes_param="unpack_sizes"):
    """Every decompressor call made on this path carries the last declared size of the folder."""
    calls = c.st.ghost.get(GHOST, ())
    if not calls and c.exc is None:
        # the function returned without a decompressor call the model saw (it is under contract because it makes one): not followed
        return UNRECOGNISED
    sizes = c.args.get(sizes_param) if sizes_param and hasattr(c.args, "get") else None
    if sizes is None:
        # the function does not receive the declared sizes: nothing it hands to a decompressor can be the declared bound
        return z3.BoolVal(not calls)
    try:
        items = c.entry.obj(sizes.ref).data
        declared = _as_int(items[-1])
    except Exception:  # noqa
        return UNRECOGNISED
    goals = []
    for kind, data, ml, loc in calls:
        if isinstance(ml, VInt):
            goals.append(_as_int(ml) == declared)
        elif kind == "alone" and isinstance(data, VBytes) and len(data.items) >= 13 and all(isinstance(x, VInt) and z3.is_bv(x.t) and x.t.size() == 8 for x in data.items[5:13]):
            goals.append(z3.Concat(*[x.t for x in reversed(data.items[5:13])]) == z3.Int2BV(declared, 64))
        elif kind == "alone":
            goals.append(UNRECOGNISED)         # the header handed to the decoder is not a value the model follows
        else:
            goals.append(z3.BoolVal(False))    # a raw stream decoded without max_length: nothing bounds the output
    return z3.And(*goals) if goals else z3.BoolVal(True)


def _with_callees(mod, fnode, depth=2):
    """The function and the functions / methods of its module it calls by name (`f(..)`, `self.f(..)`), two levels."""
    out, todo = [fnode], [(fnode, 0)]
    while todo:
        g, d = todo.pop()
        if d >= depth:
            continue
        for c in ast.walk(g):
            if not isinstance(c, ast.Call):
                continue
            name = c.func.id if isinstance(c.func, ast.Name) else (c.func.attr if isinstance(c.func, ast.Attribute) and isinstance(c.func.value, ast.Name) and c.func.value.id in ("self", "cls") else None)
            if name is None:
                continue
            for q, h in mod.functions.items():
                if q.split(".")[-1] == name and not any(h is o for o in out):
                    out.append(h)
                    todo.append((h, d + 1))
    return out


def contracts(reg, mod):
    install(reg)
    out, kws = [], {}
    for q, fnode in mod.functions.items():
        if not q.startswith("SevenZipReader.") or "decompress" not in {x.func.attr for x in ast.walk(fnode) if isinstance(x, ast.Call) and isinstance(x.func, ast.Attribute)}:
            continue
        plist = fnode.args.posonlyargs + fnode.args.args
        params = [a.arg for a in plist]
        ann = {a.arg: (ast.unparse(a.annotation) if a.annotation is not None else "") for a in plist}
        # roles by annotation (names as a fall-back): the packed data, the coder properties, the declared sizes
        role = {}
        for n in params:
            t = ann[n].replace("typing.", "")
            if n in ("self", "cls"):
                continue
            if t in ("List[int]", "list[int]", "Sequence[int]", "Tuple[int, ...]", "tuple[int, ...]", "Iterable[int]") or (not t and n == "unpack_sizes"):
                role.setdefault("sizes", n)
            elif t in ("Optional[bytes]", "bytes | None", "None | bytes") or (not t and n == "properties"):
                role.setdefault("properties", n)
            elif t in ("bytes", "bytes | bytearray", "bytearray", "memoryview") or (not t and n == "data"):
                role.setdefault("data", n)
        if "data" not in role:
            continue
        # a decoder that shifts by an amount computed from its properties (LZMA2 dictionary size) is outside the integer fragment for
        # symbolic property bytes: there the properties are sampled (absent, empty, one byte of each branch); they do not bear on the bound
        shifts = any(isinstance(x, ast.BinOp) and isinstance(x.op, (ast.LShift, ast.RShift)) and not isinstance(x.right, ast.Constant)
                     for g in _with_callees(mod, fnode) for x in ast.walk(g))
        mk = {"self": p_unk(), role["data"]: p_bytes(2)}
        if "properties" in role:
            mk[role["properties"]] = p_props_sampled() if shifts else p_opt(p_bytes(5))
        if "sizes" in role:
            mk[role["sizes"]] = p_sizes()
        mk["__sizes__"] = role.get("sizes")
        out.append((q, params, mk))
    return out
