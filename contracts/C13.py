"""C13 -- tables come back with their shape and every cell in place.

Three groups of obligations (DESIGN §3 C13):

(a) PROVED, symbolic lists: `get_dim() == (len(get_table()), max row length)` for every table class
    (TableData, XlsSheet, XlsxSheet, OdsSheet, OdtTable, RtfTable) and `get_table()` itself, for row lists and rows of
    ARBITRARY length (loop invariant over the processed prefix / comprehension semantics);
(b) per-format walkers against the grid spec written from the statement (`grid(tbl)`: rows = direct row children
    (through the format's row-group wrappers), cells = direct cell children, cell(i,j) = the cell's own paragraphs by the
    format's paragraph rule, a table nested in a cell is a separate table, tables in document order):
    PROVED for a tree of symbolic shape where the walker's loops can be cut by prefix invariants (pptx), and
    BOUNDED (every tree shape of a stated grammar up to a stated size, texts symbolic; never counted as proved) for all
    walkers -- contracts/C13_bounded.py;
(c) PROVED typed values: xlsx `_get_cell_value`, xls `_get_cell_value(s)`, `_format_date_tuple`.
"""
import ast

import z3

from pyvc import loader, ops
from pyvc.contracts import FnContract, LoopSpec, Raises
from pyvc.state import HeapObj
from pyvc.symex import Executor
from pyvc.values import NONE, V, VBool, VExt, VFunc, VInt, VReal, VRef, VSeq, VStr, VTuple, VType, VUnk, ext_sort, fresh_name
from pyvc.verify import Maker, p_bool, p_ext, p_int, p_obj, p_str, p_unk
from contracts import etree_model as ET
from contracts.symlist import SymListMixin, is_max, seq_eq, take, vite, seq_of_items

DT = "sharepoint2text/parsing/extractors/data_types.py"
PPTX = "sharepoint2text/parsing/extractors/ms_modern/pptx_extractor.py"
XLSX = "sharepoint2text/parsing/extractors/ms_modern/xlsx_extractor.py"
XLS = "sharepoint2text/parsing/extractors/ms_legacy/xls_extractor.py"

I, S, B = z3.IntSort(), z3.StringSort(), z3.BoolSort()
PYVAL = ext_sort("PyVal")       # an arbitrary Python value stored in a cell
SDICT = ext_sort("SDict")       # a dict with string keys (an XLS record)


class C13Executor(SymListMixin, ET.ETreeMixin, Executor):
    """Symbolic lists + the element-tree model + exact models for the few formatting primitives the typed-value
    functions use (zero-padded integer f-string fields)."""

    def e_JoinedStr(self, n, st):
        # f"{x:04d}" / f"{x:02d}" on ints: exact (PAD); everything else as in the engine
        if not any(isinstance(p, ast.FormattedValue) and p.format_spec is not None for p in n.values):
            return super().e_JoinedStr(n, st)
        acc = [(st, VStr(""))]
        for part in n.values:
            nxt = []
            for (s, cur) in acc:
                if isinstance(part, ast.Constant):
                    nxt.append((s, VStr(z3.Concat(cur.t, z3.StringVal(part.value)))))
                    continue
                for (s2, v) in self.ev(part.value, s):
                    spec = None
                    if part.format_spec is not None and len(part.format_spec.values) == 1 and isinstance(part.format_spec.values[0], ast.Constant):
                        spec = part.format_spec.values[0].value
                    if isinstance(v, VInt) and part.conversion == -1 and spec in ("04d", "02d"):
                        txt = VStr(pad(ops.int_term(v), int(spec[1])))
                    else:
                        txt = self.to_str(s2, v, formatted=part.format_spec is not None or part.conversion != -1)
                    nxt.append((s2, VStr(z3.Concat(cur.t, txt.t))))
            acc = nxt
        return [(s, VStr(z3.simplify(v.t))) for (s, v) in acc]

    def join_term(self, sep, s):
        return VStr(JOIN(sep.t, s))


EXECUTOR = C13Executor
EXECUTOR_KW = {}


def pad(n, width):
    """str(n) left-padded with zeros to `width` for n >= 0 (format spec 0{width}d)."""
    s = z3.IntToStr(n)
    out = s
    for w in range(1, width):
        out = z3.If(z3.Length(s) == w, z3.Concat(z3.StringVal("0" * (width - w)), s), out)
    return out


_JOINF = {}


def JOIN(sep, s: VSeq):
    """sep.join(s): extensional uninterpreted function of (sep, length, element function).  The element function is
    represented by the element at a canonical bound variable, so equal element functions give the same term."""
    q = z3.Int("join!q")
    e = s.elem(q)
    if not isinstance(e, VStr):
        raise ops.Unsupported("join of non-string symbolic sequence")
    lam = z3.Lambda([q], e.t)
    f = _JOINF.get("f")
    if f is None:
        f = _JOINF["f"] = z3.Function("str_join", S, I, z3.ArraySort(I, S), S)
    return f(sep, s.length, lam)


# ===================================================================== (a) ==
CELLV = z3.Function("src_cell", I, I, PYVAL)
ROWLEN = z3.Function("src_rowlen", I, I)
NROWS = z3.Int("src_nrows")


def sym_grid():
    return VSeq(NROWS, lambda i: VSeq(ROWLEN(i), lambda j, i=i: VExt("PyVal", CELLV(i, j)), "PyVal"), "row")


def p_grid():
    """self.data: a list of rows of arbitrary lengths -- fully symbolic, plus the instances n = 0, 1, 2 with a concrete
    outer list (these make a wrong implementation refutable by a ground model)."""
    def mk(ex, st, name):
        q = z3.Int("q!wf")
        alts = [(z3.And(NROWS >= 0, z3.ForAll([q], ROWLEN(q) >= 0)), sym_grid())]
        for n in (0, 1, 2):
            rows = [VSeq(z3.Int(f"len_row{k}"), lambda j, k=k: VExt("PyVal", CELLV(z3.IntVal(k), j)), "PyVal") for k in range(n)]
            ref = st.alloc(HeapObj("list", rows, fresh=False), ex.refs)
            alts.append((z3.And([r.length >= 0 for r in rows] + [z3.BoolVal(True)]), VRef(ref)))
        return alts
    return Maker(mk, desc="list of rows, every length")


def dim_post(table_of):
    def post(c):
        t = table_of(c)
        d = c.st.obj(c.result.ref).data if isinstance(c.result, VRef) and c.st.obj(c.result.ref).kind == "obj" else None
        if d is None or not isinstance(d.get("rows"), VInt) or not isinstance(d.get("columns"), VInt):
            c.note = "result is not a TableDim with integer fields"
            return z3.BoolVal(False)
        return z3.And(ops.int_term(d["rows"]) == t.length,
                      is_max(ops.int_term(d["columns"]), t.length, lambda k: _rowlen(t.elem(k)), z3.IntVal(0)))
    return post


def _rowlen(r):
    return r.length if isinstance(r, VSeq) else z3.IntVal(0)     # (only reached for the empty table: no rows)


def self_data(c):
    return c.ex.as_seq(c.entry, c.entry.obj(c.args["self"].ref).data["data"])


def same_table(c):
    d = c.entry.obj(c.args["self"].ref).data["data"]
    if isinstance(c.result, VRef) and isinstance(d, VRef):
        return z3.BoolVal(c.result.ref == d.ref and c.st.heap.get(d.ref) is c.entry.heap.get(d.ref))
    a, b = c.ex.as_seq(c.st, c.result), c.ex.as_seq(c.entry, d)
    if a is None or b is None:
        return z3.BoolVal(False)
    return seq_eq(a, b)


def table_classes(repo=None):
    """Every class of data_types.py that defines get_dim (re-read each run)."""
    m = loader.module(DT, repo)
    return sorted(q.split(".")[0] for q in m.functions if q.endswith(".get_dim") and q.count(".") == 1 and q.split(".")[0] != "TableInterface")


# ---- XlsSheet: records (dicts keyed by header) -> table
DK_N = z3.Function("dict_nkeys", SDICT, I)
DK_AT = z3.Function("dict_key", SDICT, I, PYVAL)
DGET = z3.Function("dict_get", SDICT, PYVAL, PYVAL)
REC = z3.Function("src_record", I, SDICT)
NREC = z3.Int("src_nrecords")


def xls_table_spec():
    """header row (keys of the first record, in order) followed by one row per record with the values in header order;
    no records -> no table rows (class-level contract of XlsSheet.get_table)."""
    d0 = REC(z3.IntVal(0))
    H = VSeq(DK_N(d0), lambda j: VExt("PyVal", DK_AT(d0, j)), "PyVal")
    return VSeq(z3.If(NREC > 0, NREC + 1, z3.IntVal(0)),
                lambda r: vite(r == 0, H, VSeq(DK_N(d0), lambda j, r=r: VExt("PyVal", DGET(REC(r - 1), DK_AT(d0, j))), "PyVal")), "row")


def p_records():
    def mk(ex, st, name):
        q = z3.Const("d!wf", SDICT)
        wf = z3.ForAll([q], DK_N(q) >= 0)
        alts = [(z3.And(NREC >= 0, wf), VSeq(NREC, lambda i: VExt("SDict", REC(i)), "SDict"))]
        for n in (0, 1, 2):
            ref = st.alloc(HeapObj("list", [VExt("SDict", REC(z3.IntVal(k))) for k in range(n)], fresh=False), ex.refs)
            alts.append((z3.And(NREC == n, wf), VRef(ref)))
        return alts
    return Maker(mk, desc="list of records, every length")


def install_dict_model(reg):
    reg.method_models[("SDict", "keys")] = lambda ex, st, o, a, k, n: [(st, VSeq(DK_N(o.t), lambda j, d=o.t: VExt("PyVal", DK_AT(d, j)), "PyVal"))]

    def m_get(ex, st, o, a, k, n):
        if len(a) != 1 or not (isinstance(a[0], VExt) and a[0].sort == "PyVal"):
            return ex.havoc_call(st, "dict.get", [], n)
        return [(st, VExt("PyVal", DGET(o.t, a[0].t)))]
    reg.method_models[("SDict", "get")] = m_get


def dim_contracts(reg):
    out = []
    for cls in table_classes():
        if cls == "XlsSheet":
            continue
        out.append(FnContract(
            target=f"{DT}::{cls}.get_table", params=[("self", p_obj(cls, {"data": p_grid()}))],
            ensures=[("table-is-the-stored-grid", same_table)],
            raises=[], inline=True,
            note="get_table() returns the stored grid unchanged"))
        out.append(FnContract(
            target=f"{DT}::{cls}.get_dim", params=[("self", p_obj(cls, {"data": p_grid()}))],
            ensures=[("dim-is-rows-and-max-row-length", dim_post(self_data))],
            raises=[],
            note="get_dim() == (len(get_table()), max(len(row)), 0 columns for no rows) for row lists of every length"))
    install_dict_model(reg)
    out.append(FnContract(
        target=f"{DT}::XlsSheet.get_table", params=[("self", p_obj("XlsSheet", {"data": p_records()}))],
        returns=lambda c: xls_table_spec(),
        raises=[],
        loops={0: LoopSpec(inv=lambda lc: seq_eq(lc.ex.as_seq(lc.st, lc["rows"]), take(xls_table_spec(), lc.i + 1)),
                           havoc=(("rows", ("list", ("list", ("ext", "PyVal")))),), label="records")},
        note="table of an XLS sheet: keys of the first record, then the records' values in that key order"))
    out.append(FnContract(
        target=f"{DT}::XlsSheet.get_dim", params=[("self", p_obj("XlsSheet", {"data": p_records()}))],
        ensures=[("dim-is-rows-and-max-row-length", dim_post(lambda c: xls_table_spec()))],
        raises=[]))
    return out


def contracts(reg):
    ET.install(reg)
    out = []
    out += dim_contracts(reg)
    return out


TRUSTED = ["statement-level grid specification in contracts/C13.py / C13_bounded.py"]
ASSUMED_MODELS = ["xml.etree.ElementTree.Element (contracts/etree_model.py): tag, text, get, find, findall (child steps), iter (pre-order), list()/for/len",
                  "dict with string keys: keys() in insertion order, get(k)"]
ASSUMPTIONS = ["PY-COMP: a comprehension / generator expression with a total effect-free element over a sequence is the element-wise image",
               "PY-MAX: max(it, default=d) is d for an empty iterable, else an upper bound that is attained",
               "TREE-FINITE"]
BOUNDED = []
