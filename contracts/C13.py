"""C13 -- tables come back with their shape and every cell in place.

Three groups of obligations (DESIGN §3 C13):

(a) PROVED, symbolic lists: `get_dim() == (len(get_table()), max row length)` for every table class
    (TableData, XlsSheet, XlsxSheet, OdsSheet, OdtTable, RtfTable) and `get_table()` itself, for row lists and rows of
    ARBITRARY length (loop invariant over the processed prefix / comprehension semantics);
(b) per-format walkers against the grid spec written from the statement (`grid(tbl)`: rows = direct row children
    (through the format's row-group wrappers), cells = direct cell children, cell(i,j) = the cell's own paragraphs by the
    format's paragraph rule, a table nested in a cell is a separate table, tables in document order):
    PROVED for a tree of symbolic shape where the walker's loops can be cut by prefix invariants (pptx), and
    BOUNDED (every tree shape of a stated grammar up to a stated size, texts symbolic; never counted as proved) for all
    walkers -- contracts/C13_bounded.py;
(c) PROVED typed values: xlsx `_get_cell_value`, xls `_get_cell_value(s)`, `_format_date_tuple`.
(d) round 7, PROVED: the xlsx used-range helpers `_is_cell_non_empty`, `_is_meaningful_value`, `_find_last_data_row`,
    `_find_last_data_column` (symbolic sheet) and `iterate_tables` of the content classes with one list of tables (any number of
    tables; ghost sequence of the yielded values).  The loop-shaped ones are shape-gated (`_gate`): complementary to the bounded walkers.
"""
import ast

import z3

from pyvc import loader, ops
from pyvc.contracts import FnContract, LoopSpec, Raises, Registry
from pyvc.state import HeapObj
from pyvc.symex import Executor
from pyvc.values import NONE, V, VBool, VExt, VFunc, VInt, VReal, VRef, VSeq, VStr, VTuple, VType, VUnk, ext_sort, fresh_name
from pyvc.verify import Maker, p_bool, p_ext, p_int, p_obj, p_str, p_unk
from contracts import etree_model as ET
from contracts.symlist import SymListMixin, is_max, seq_eq, take, vite, seq_of_items, concat, OVER

DT = "sharepoint2text/parsing/extractors/data_types.py"
PPTX = "sharepoint2text/parsing/extractors/ms_modern/pptx_extractor.py"
XLSX = "sharepoint2text/parsing/extractors/ms_modern/xlsx_extractor.py"
XLS = "sharepoint2text/parsing/extractors/ms_legacy/xls_extractor.py"
XLS_ROWS = "rows"

I, S, B = z3.IntSort(), z3.StringSort(), z3.BoolSort()
PYVAL = ext_sort("PyVal")       # an arbitrary Python value stored in a cell
SDICT = ext_sort("SDict")       # a dict with string keys (an XLS record)


class C13Executor(SymListMixin, ET.ETreeMixin, Executor):
    """Symbolic lists + the element-tree model + exact models for the few formatting primitives the typed-value
    functions use (zero-padded integer f-string fields)."""

    def e_JoinedStr(self, n, st):
        # f"{x:04d}" / f"{x:02d}" on ints: exact (PAD); everything else as in the engine
        if not any(isinstance(p, ast.FormattedValue) and p.format_spec is not None for p in n.values):
            return super().e_JoinedStr(n, st)
        acc = [(st, VStr(""))]
        for part in n.values:
            nxt = []
            for (s, cur) in acc:
                if isinstance(part, ast.Constant):
                    nxt.append((s, VStr(z3.Concat(cur.t, z3.StringVal(part.value)))))
                    continue
                for (s2, v) in self.ev(part.value, s):
                    spec = None
                    if part.format_spec is not None and len(part.format_spec.values) == 1 and isinstance(part.format_spec.values[0], ast.Constant):
                        spec = part.format_spec.values[0].value
                    if isinstance(v, VInt) and part.conversion == -1 and spec in ("04d", "02d"):
                        txt = VStr(pad(ops.int_term(v), int(spec[1])))
                    else:
                        txt = self.to_str(s2, v, formatted=part.format_spec is not None or part.conversion != -1)
                    nxt.append((s2, VStr(z3.Concat(cur.t, txt.t))))
            acc = nxt
        return [(s, VStr(z3.simplify(v.t))) for (s, v) in acc]

    def join_term(self, sep, s):
        return VStr(JOIN(sep.t, s))

    # ---- memo caches keyed by id(): a hit returns what a recomputation returns (purity of the memoised function and
    # immutability of the tree while the extractor runs are ASSUMED), so every lookup is modelled as a miss
    def contains(self, st, container, item, node):
        if isinstance(container, VExt) and container.sort == "MemoCache":
            return [(st, VBool(False))]
        return super().contains(st, container, item, node)

    def store_index(self, st, base, idx, v, node):
        if isinstance(base, VExt) and base.sort == "MemoCache":
            return [st]
        return super().store_index(st, base, idx, v, node)

    def e_DictComp(self, n, st):
        """a dict comprehension whose keys are symbolic yields an unknown dict (sound: nothing is assumed about it)"""
        def elt(s, acc):
            res = []
            for (s2, k) in self.ev(n.key, s):
                for (s3, v) in self.ev(n.value, s2):
                    res.append((s3, acc + [(k, v)]))
            return res
        out = []
        for (s, acc) in self.comp(n, st, elt):
            d, sym = {}, False
            for k, v in acc:
                c = self.py_const(k)
                if type(c).__name__ == "_NCType":
                    sym = True
                    break
                d[c] = v
            out.append((s, VRef(s.alloc(HeapObj("unk", None) if sym else HeapObj("dict", d), self.refs))))
        return out

    def construct(self, st, t, args, kwargs, node):
        if t.name == "dict" and len(args) == 1 and not kwargs:
            # dict(<pairs>) / dict(zip(keys, values)): keys of hashable kinds never raise; symbolic keys give an unknown dict
            pairs = self.concrete_items(st, args[0])
            if pairs is not None and all(isinstance(p_, VTuple) and len(p_.items) == 2 for p_ in pairs) \
                    and all(isinstance(p_.items[0], (VStr, VInt, VBool, VTuple, VReal)) or p_.items[0] is NONE for p_ in pairs):
                d, sym = {}, False
                for p_ in pairs:
                    c = self.py_const(p_.items[0])
                    if type(c).__name__ == "_NCType":
                        sym = True
                        break
                    d[c] = p_.items[1]
                return [(st, VRef(st.alloc(HeapObj("unk", None) if sym else HeapObj("dict", d), self.refs)))]
        if t.name == "float" and len(args) == 1 and isinstance(args[0], VStr) and args[0].const() is not None:
            # float("<literal>"): exact value of the decimal literal (PY-FLOAT-REAL), ValueError when it is not a number
            from fractions import Fraction
            try:
                float(args[0].const())
                fr = Fraction(args[0].const().strip())
            except ValueError:
                self.raise_in(st, self.mk_exc("ValueError"))
                return []
            return [(st, VReal(z3.RealVal(f"{fr.numerator}/{fr.denominator}")))]
        return super().construct(st, t, args, kwargs, node)

    # ---- round 7 (xlsx trimming loops): a descending range with symbolic bounds, any()/all() over a symbolic sequence
    def b_range(self, st, args, kwargs, node):
        if len(args) == 3 and isinstance(args[2], VInt) and args[2].const() == -1 and all(isinstance(a, VInt) for a in args) \
                and (args[0].const() is None or args[1].const() is None):
            lo, hi = ops.int_term(args[0]), ops.int_term(args[1])
            return [(st, VSeq(z3.If(lo - hi < 0, z3.IntVal(0), lo - hi), lambda i, lo=lo: VInt(lo - i), "int"))]
        return super().b_range(st, args, kwargs, node)

    def _quant_bools(self, st, v, is_any):
        s = v if isinstance(v, VSeq) else (self.as_seq(st, v) if isinstance(v, VRef) and st.obj(v.ref).kind == "slist" else None)
        if s is None or getattr(s, "tag", None) is not None:
            return None
        k = z3.Int(fresh_name("qk"))
        e = s.elem(k)
        if isinstance(e, VExt) and e.sort == "PyVal":
            e = self.truth(st, e)
        if not isinstance(e, VBool):
            return None
        rng = z3.And(k >= 0, k < s.length)
        return VBool(z3.Exists([k], z3.And(rng, e.t)) if is_any else z3.ForAll([k], z3.Implies(rng, e.t)))

    # ---- round 7 (iterate_tables): the values a generator yields, as a symbolic sequence in the ghost state (pack-local; the engine's
    # own `yielded` list cannot carry a symbolic number of yields).  Active only when the contract's parameter maker created the ghost.
    def on_yield(self, st, v, node):
        cur = st.ghost.get(YSEQ)
        if cur is not None:
            st.ghost[YSEQ] = seq_append(cur, yield_key(st, v))
        return super().on_yield(st, v, node)

    def e_YieldFrom(self, n, st):
        if st.ghost.get(YSEQ) is None:
            return super().e_YieldFrom(n, st)
        out = []
        for (s, v) in self.ev(n.value, st):
            items = self.concrete_items(s, v)
            if items is not None:
                s.yielded = s.yielded + items
                for x in items:
                    s.ghost[YSEQ] = seq_append(s.ghost[YSEQ], yield_key(s, x))
            else:
                self.on_yield_from(s, v, n)
            out.append((s, NONE))
        return out

    def on_yield_from(self, st, gen, node):
        cur = st.ghost.get(YSEQ)
        src = self.as_seq(st, gen) if cur is not None and isinstance(gen, (VSeq, VRef)) else None
        if src is not None and getattr(src, "tag", None) is None:
            # `yield from <sequence>`: every element of the sequence, in order
            mapped = VSeq(src.length, lambda i, src=src, st=st: yield_key(st, src.elem(i)), "C13Table")
            n0 = z3.simplify(cur.length)
            st.ghost[YSEQ] = cat(cur, mapped)
            return None
        if cur is not None:
            raise_unsupported(f"{self.loc(node)} yield from a generator of unknown length (iterate_tables contract)")
        return super().on_yield_from(st, gen, node)

    def havoc_loop_state(self, st, body, spec, extra_names=()):
        super().havoc_loop_state(st, body, spec, extra_names)
        if st.ghost.get(YSEQ) is not None and self._has_yield(body):
            from contracts.symlist import fresh_seq
            val, wf = fresh_seq(("list", ("ext", "C13Table")), "yielded")
            st.ghost[YSEQ] = val
            for c in wf:
                st.assume(c)

    def truth(self, st, v):
        # an abstract cell value may be falsy (None, 0, False, '') -- independent of being an empty cell (0 is data, ' ' is not)
        if isinstance(v, VExt) and v.sort == "PyVal":
            return VBool(TRUTHY(v.t))
        return super().truth(st, v)

    def b_any(self, st, args, kwargs, node):
        r = self._quant_bools(st, args[0], True) if len(args) == 1 and self.concrete_items(st, args[0]) is None else None
        return [(st, r)] if r is not None else super().b_any(st, args, kwargs, node)

    def b_all(self, st, args, kwargs, node):
        r = self._quant_bools(st, args[0], False) if len(args) == 1 and self.concrete_items(st, args[0]) is None else None
        return [(st, r)] if r is not None else super().b_all(st, args, kwargs, node)

    def to_str(self, st, v, formatted=False):
        if isinstance(v, VExt) and v.sort == "TimeDelta" and not formatted:
            return VStr(PYSTR_TD(v.t))
        return super().to_str(st, v, formatted)

    # ---- identity of elements of a CONCRETE tree shape: every node is its own object (Element defines no __eq__, so == is identity too);
    # without this `element is not root` was an unconstrained equation between two element constants
    def compare(self, st, op, a, b, node):
        if op in ("Is", "IsNot", "Eq", "NotEq"):
            na, nb = ET.node_of(a), ET.node_of(b)
            if na is not None and nb is not None:
                return [(st, VBool((na is nb) == (op in ("Is", "Eq"))))]
        return super().compare(st, op, a, b, node)

    # ---- collections.deque used as a work list: a list with popleft() / appendleft()
    def b_collection(self, st, name, args, node):
        # list(<element of symbolic shape>): its children in document order, as a list of symbolic length
        if name == "list" and len(args) == 1 and isinstance(args[0], VExt) and args[0].sort == "Elem" and ET.node_of(args[0]) is None:
            st.assume(ET.NCH(args[0].t) >= 0)
            return [(st, VRef(st.alloc(HeapObj("slist", VSeq(ET.NCH(args[0].t), lambda i, e=args[0].t: ET.elem(ET.CH(e, i)), "Elem")), self.refs)))]
        return super().b_collection(st, name, args, node)

    def call(self, st, f, args, kwargs, node):
        if isinstance(f, VFunc) and f.how == "ext" and f.a == "collections.deque" and len(args) <= 1 and not kwargs:
            items = self.concrete_items(st, args[0]) if args else []
            if items is not None:
                return [(st, self.new_list(st, items))]
        return super().call(st, f, args, kwargs, node)

    # ---- list.sort on a list of CONCRETE length whose sort keys are concrete: the real (stable) order; an order comparison that
    # reaches a non-orderable value (e.g. two Elements after equal (y, x)) raises TypeError as CPython does
    def list_method(self, st, obj, name, args, kwargs, node):
        o = st.obj(obj.ref)
        if name == "popleft" and o.kind == "list" and o.data is not None and not args:
            return super().list_method(st, obj, "pop", [VInt(0)], kwargs, node)
        if name == "appendleft" and o.kind == "list" and o.data is not None and len(args) == 1:
            return super().list_method(st, obj, "insert", [VInt(0), args[0]], kwargs, node)
        if name == "sort" and o.kind == "list" and o.data is not None and not args and set(kwargs) <= {"key", "reverse"}:
            r = self._sorted_items(st, list(o.data), kwargs, node)
            if r == "raised":
                return []
            if r is not None:
                cur, items = r
                self._check_not_frozen(cur, obj.ref, node)
                self.note_store(cur, obj.ref, node)
                cur.wobj(obj.ref).data = items
                return [(cur, NONE)]
        return super().list_method(st, obj, name, args, kwargs, node)

    def _sorted_items(self, st, data, kwargs, node):
        """stable sort of `data` (concrete length) by concrete keys -> (state, sorted items) | "raised" (TypeError, as CPython) | None (not modelled)"""
        from fractions import Fraction

        class _NoOrder:
            def __lt__(self, other):
                raise TypeError("'<' not supported")
            __gt__ = __le__ = __ge__ = __lt__

            def __eq__(self, other):
                return self is other
            __hash__ = object.__hash__

        def key_of(v):
            if isinstance(v, (VInt, VStr, VBool)):
                c = v.const()
                return c if c is not None else None
            if isinstance(v, VReal):
                t = z3.simplify(v.t)
                return Fraction(t.numerator_as_long(), t.denominator_as_long()) if z3.is_rational_value(t) else None
            if isinstance(v, VTuple):
                ks = [key_of(x) for x in v.items]
                return None if any(k is None for k in ks) else tuple(ks)
            if isinstance(v, (VExt, VRef)) or v is NONE:
                return _NoOrder()
            return None
        keys, cur = [], st
        for item in data:
            kv = item
            if "key" in kwargs and kwargs["key"] is not NONE:
                r = self.call(cur, kwargs["key"], [item], {}, node)
                if len(r) != 1:
                    return None
                cur, kv = r[0]
            k = key_of(kv)
            if k is None:
                return None
            keys.append(k)
        rev = kwargs.get("reverse")
        if not (rev is None or (isinstance(rev, VBool) and rev.const() is not None)):
            return None
        try:
            order = sorted(range(len(keys)), key=lambda i: keys[i], reverse=bool(rev.const()) if rev is not None else False)
        except TypeError:
            self.raise_in(cur, self.mk_exc("TypeError"))
            return "raised"
        return cur, [data[i] for i in order]

    def b_sorted(self, st, args, kwargs, node):
        items = self.concrete_items(st, args[0]) if len(args) == 1 else None
        if items is not None and set(kwargs) <= {"key", "reverse"}:
            r = self._sorted_items(st, items, kwargs, node)
            if r == "raised":
                return []
            if r is not None:
                return [(r[0], self.new_list(r[0], r[1]))]
        return super().b_sorted(st, args, kwargs, node)

    # ---- exact %-formatting / str.format for integer and string fields; anything else is an over-approximation
    def _fmt_field(self, st, v, spec):
        """text of one field for spec '' | 'd' | '0Nd' | 's' (None = not modelled)"""
        if isinstance(v, VInt) and spec in ("", "d"):
            c = v.const()
            return z3.StringVal(str(c)) if c is not None else z3.If(ops.int_term(v) >= 0, z3.IntToStr(ops.int_term(v)), z3.Concat(z3.StringVal("-"), z3.IntToStr(-ops.int_term(v))))
        if isinstance(v, VInt) and len(spec) == 3 and spec[0] == "0" and spec[1].isdigit() and spec[2] == "d":
            return pad(ops.int_term(v), int(spec[1]))
        if isinstance(v, VStr) and spec in ("", "s"):
            return v.t
        return None

    def binop(self, st, op, a, b, node, inplace=False):
        if op == "Mod" and isinstance(a, VStr) and a.const() is not None:
            import re as _re
            vals = list(b.items) if isinstance(b, VTuple) else [b]
            parts = _re.split(r"(%%|%0?\d*[ds])", a.const())
            out, k, ok = [], 0, True
            for p_ in parts:
                if p_ == "%%":
                    out.append(z3.StringVal("%"))
                elif p_.startswith("%") and len(p_) > 1:
                    t = self._fmt_field(st, vals[k], p_[1:]) if k < len(vals) else None
                    k += 1
                    if t is None:
                        ok = False
                        break
                    out.append(t)
                elif "%" in p_:
                    ok = False
                    break
                elif p_:
                    out.append(z3.StringVal(p_))
            if ok and k == len(vals):
                return [(st, VStr(z3.simplify(z3.Concat(*out)) if len(out) > 1 else (out[0] if out else z3.StringVal(""))))]
            st.assume(OVER)
        return super().binop(st, op, a, b, node, inplace)

    EXACT_STR_METHODS = {"startswith", "endswith", "join", "find"}

    def str_method(self, st, s_, name, args, kwargs, node):
        if name == "format" and s_.const() is not None and not kwargs:
            import string as _string
            out, auto, ok = [], 0, True
            try:
                fields = list(_string.Formatter().parse(s_.const()))
            except ValueError:
                fields, ok = [], False
            for lit, fname, spec, conv in fields:
                if lit:
                    out.append(z3.StringVal(lit))
                if fname is None:
                    continue
                if conv or not (fname == "" or fname.isdigit()):
                    ok = False
                    break
                idx = auto if fname == "" else int(fname)
                auto += 1
                t = self._fmt_field(st, args[idx], spec or "") if idx < len(args) else None
                if t is None:
                    ok = False
                    break
                out.append(t)
            if ok:
                return [(st, VStr(z3.simplify(z3.Concat(*out)) if len(out) > 1 else (out[0] if out else z3.StringVal(""))))]
            st.assume(OVER)
        return self._str_method2(st, s_, name, args, kwargs, node)

    # ---- concrete folding: a method of a *concrete* str with concrete arguments is evaluated by CPython itself
    def _str_method2(self, st, s_, name, args, kwargs, node):
        c = s_.const()
        if c is not None and not kwargs and name in ("startswith", "endswith", "lower", "upper", "strip", "lstrip", "rstrip", "replace", "find", "split",
                                                       "isdigit", "isalpha", "isspace", "count", "index", "rfind", "partition", "rpartition", "splitlines", "rjust", "ljust", "zfill"):
            pargs = [self.py_const(a) for a in args]
            if not any(type(a).__name__ == "_NCType" for a in pargs):
                try:
                    r = getattr(c, name)(*pargs)
                except Exception as e:  # noqa  (the real exception of the real method)
                    cls = type(e).__name__
                    self.raise_in(st, self.mk_exc(cls if self.uni.known(cls) else "Exception"))
                    return []
                if isinstance(r, list):
                    return [(st, self.new_list(st, [ops.lift(x) for x in r]))]
                return [(st, ops.lift(r))]
        if name not in self.EXACT_STR_METHODS and f"str.{name}" not in self.reg.ext_models:
            st.assume(OVER)      # the engine answers with an unconstrained value: not a counter-model
        return super().str_method(st, s_, name, args, kwargs, node)

    def get_index(self, st, base, idx, node):
        if isinstance(base, VStr) and isinstance(idx, VInt):
            c, k = base.const(), idx.const()
            if c is not None and k is not None and -len(c) <= k < len(c):
                return [(st, VStr(c[k]))]
        return super().get_index(st, base, idx, node)

    def get_attr(self, st, base, attr, node):
        # class-level literal attributes of a repo class (e.g. _RtfParser.SPECIAL_CHARS) read through an instance
        if isinstance(base, VRef) and st.obj(base.ref).kind == "obj" and attr not in st.obj(base.ref).data:
            cls = self.module.classes.get(st.obj(base.ref).cls or "")
            if cls is not None:
                for b in cls.body:
                    if isinstance(b, ast.Assign) and len(b.targets) == 1 and isinstance(b.targets[0], ast.Name) and b.targets[0].id == attr:
                        try:
                            return [(st, self.lift_const(ast.literal_eval(b.value), attr))]
                        except (ValueError, SyntaxError):
                            break
        return super().get_attr(st, base, attr, node)

    def b_super(self, st, args, kwargs, node):
        return [(st, VExt("SuperProxy"))]

    def dataclass_fields(self, name):
        """dataclasses imported from data_types.py are constructed like local ones"""
        r = super().dataclass_fields(name)
        if r is not None or name in self.module.classes:
            return r
        origin = self.module.imports.get(name, "")
        if origin.startswith("sharepoint2text."):
            rel = "/".join(origin.split(".")[:-1]) + ".py"
            try:
                m = loader.module(rel, self.module.repo)
            except OSError:
                return None
            cls = m.classes.get(name)
            if cls is not None and any("dataclass" in ast.unparse(d) for d in cls.decorator_list):
                return [(b.target.id, b.value) for b in cls.body if isinstance(b, ast.AnnAssign) and isinstance(b.target, ast.Name)]
        return None

    def b_isinstance(self, st, args, kwargs, node):
        v, t = args
        if isinstance(v, VExt) and v.sort in PYCLASS:
            types = [x.name for x in (t.items if isinstance(t, VTuple) else [t]) if isinstance(x, VType)]
            return [(st, VBool(bool(set(PYCLASS[v.sort]) & set(types))))]
        return super().b_isinstance(st, args, kwargs, node)


EXECUTOR = C13Executor
EXECUTOR_KW = {}


def pad(n, width):
    """str(n) left-padded with zeros to `width` for n >= 0 (format spec 0{width}d)."""
    s = z3.IntToStr(n)
    out = s
    for w in range(1, width):
        out = z3.If(z3.Length(s) == w, z3.Concat(z3.StringVal("0" * (width - w)), s), out)
    return out


_JOINF = {}


def JOIN(sep, s: VSeq):
    """sep.join(s): extensional uninterpreted function of (sep, length, element function).  The element function is
    represented by the element at a canonical bound variable, so equal element functions give the same term."""
    q = z3.Int("join!q")
    e = s.elem(q)
    if not isinstance(e, VStr):
        raise ops.Unsupported("join of non-string symbolic sequence")
    lam = z3.Lambda([q], e.t)
    f = _JOINF.get("f")
    if f is None:
        f = _JOINF["f"] = z3.Function("str_join", S, I, z3.ArraySort(I, S), S)
    return f(sep, s.length, lam)


def loop_vars(rel, qual, repo=None):
    """Names used by the loops of a function, read from the real AST so that renaming a local does not invalidate the
    contract: per for-loop (source order) {target, iter_base (receiver of the iterated call), built (receiver of the
    .append() in the loop's own body)}."""
    m = loader.module(rel, repo)
    fnode = m.functions.get(qual)
    out = []
    if fnode is None:
        return out
    loops = [n for n in ast.walk(fnode) if isinstance(n, (ast.For, ast.While))]
    loops.sort(key=lambda n: (n.lineno, n.col_offset))
    for lp in loops:
        d = {"target": lp.target.id if isinstance(lp, ast.For) and isinstance(lp.target, ast.Name) else None, "iter_base": None, "built": None}
        if isinstance(lp, ast.For):
            it = lp.iter
            if isinstance(it, ast.Call) and isinstance(it.func, ast.Attribute) and isinstance(it.func.value, ast.Name):
                d["iter_base"] = it.func.value.id
        for stmt in lp.body:
            if isinstance(stmt, ast.Expr) and isinstance(stmt.value, ast.Call) and isinstance(stmt.value.func, ast.Attribute) \
                    and stmt.value.func.attr == "append" and isinstance(stmt.value.func.value, ast.Name):
                d["built"] = stmt.value.func.value.id
        out.append(d)
    return out


# ===================================================================== (a) ==
CELLV = z3.Function("src_cell", I, I, PYVAL)
ROWLEN = z3.Function("src_rowlen", I, I)
NROWS = z3.Int("src_nrows")


def sym_grid():
    return VSeq(NROWS, lambda i: VSeq(ROWLEN(i), lambda j, i=i: VExt("PyVal", CELLV(i, j)), "PyVal"), "row")


def p_grid():
    """self.data: a list of rows of arbitrary lengths -- fully symbolic, plus the instances n = 0, 1, 2 with a concrete
    outer list (these make a wrong implementation refutable by a ground model)."""
    def mk(ex, st, name):
        q = z3.Int("q!wf")
        alts = [(z3.And(NROWS >= 0, z3.ForAll([q], ROWLEN(q) >= 0)), sym_grid())]
        for n in (0, 1, 2):
            rows = [VSeq(z3.Int(f"len_row{k}"), lambda j, k=k: VExt("PyVal", CELLV(z3.IntVal(k), j)), "PyVal") for k in range(n)]
            ref = st.alloc(HeapObj("list", rows, fresh=False), ex.refs)
            alts.append((z3.And([r.length >= 0 for r in rows] + [z3.BoolVal(True)]), VRef(ref)))
        return alts
    return Maker(mk, desc="list of rows, every length")


def dim_post(table_of):
    def post(c):
        t = table_of(c)
        d = c.st.obj(c.result.ref).data if isinstance(c.result, VRef) and c.st.obj(c.result.ref).kind == "obj" else None
        if d is None or not isinstance(d.get("rows"), VInt) or not isinstance(d.get("columns"), VInt):
            c.note = "result is not a TableDim with integer fields"
            return z3.BoolVal(False)
        return z3.And(ops.int_term(d["rows"]) == t.length,
                      is_max(ops.int_term(d["columns"]), t.length, lambda k: _rowlen(t.elem(k)), z3.IntVal(0)))
    return post


def _rowlen(r):
    return r.length if isinstance(r, VSeq) else z3.IntVal(0)     # (only reached for the empty table: no rows)


def self_data(c):
    return c.ex.as_seq(c.entry, c.entry.obj(c.args["self"].ref).data["data"])


def same_table(c):
    d = c.entry.obj(c.args["self"].ref).data["data"]
    if isinstance(c.result, VRef) and isinstance(d, VRef):
        return z3.BoolVal(c.result.ref == d.ref and c.st.heap.get(d.ref) is c.entry.heap.get(d.ref))
    a, b = c.ex.as_seq(c.st, c.result), c.ex.as_seq(c.entry, d)
    if a is None or b is None:
        return z3.BoolVal(False)
    return seq_eq(a, b)


def table_classes(repo=None):
    """Every class of data_types.py that defines get_dim (re-read each run)."""
    m = loader.module(DT, repo)
    return sorted(q.split(".")[0] for q in m.functions if q.endswith(".get_dim") and q.count(".") == 1 and q.split(".")[0] != "TableInterface")


# ---- XlsSheet: records (dicts keyed by header) -> table
DK_N = z3.Function("dict_nkeys", SDICT, I)
DK_AT = z3.Function("dict_key", SDICT, I, PYVAL)
DGET = z3.Function("dict_get", SDICT, PYVAL, PYVAL)
REC = z3.Function("src_record", I, SDICT)
NREC = z3.Int("src_nrecords")


def xls_table_spec():
    """header row (keys of the first record, in order) followed by one row per record with the values in header order;
    no records -> no table rows (class-level contract of XlsSheet.get_table)."""
    d0 = REC(z3.IntVal(0))
    H = VSeq(DK_N(d0), lambda j: VExt("PyVal", DK_AT(d0, j)), "PyVal")
    return VSeq(z3.If(NREC > 0, NREC + 1, z3.IntVal(0)),
                lambda r: vite(r == 0, H, VSeq(DK_N(d0), lambda j, r=r: VExt("PyVal", DGET(REC(r - 1), DK_AT(d0, j))), "PyVal")), "row")


def p_records():
    def mk(ex, st, name):
        q = z3.Const("d!wf", SDICT)
        wf = z3.ForAll([q], DK_N(q) >= 0)
        alts = [(z3.And(NREC >= 0, wf), VSeq(NREC, lambda i: VExt("SDict", REC(i)), "SDict"))]
        for n in (0, 1, 2):
            ref = st.alloc(HeapObj("list", [VExt("SDict", REC(z3.IntVal(k))) for k in range(n)], fresh=False), ex.refs)
            alts.append((z3.And(NREC == n, wf), VRef(ref)))
        return alts
    return Maker(mk, desc="list of records, every length")


def install_dict_model(reg):
    reg.method_models[("SDict", "keys")] = lambda ex, st, o, a, k, n: [(st, VSeq(DK_N(o.t), lambda j, d=o.t: VExt("PyVal", DK_AT(d, j)), "PyVal"))]

    def m_get(ex, st, o, a, k, n):
        if len(a) != 1 or not (isinstance(a[0], VExt) and a[0].sort == "PyVal"):
            return ex.havoc_call(st, "dict.get", [], n)
        return [(st, VExt("PyVal", DGET(o.t, a[0].t)))]
    reg.method_models[("SDict", "get")] = m_get


def dim_contracts(reg):
    global XLS_ROWS
    lv = loop_vars(DT, "XlsSheet.get_table")
    XLS_ROWS = (lv[0]["built"] if lv and lv[0]["built"] else "rows")
    out = []
    for cls in table_classes():
        if cls == "XlsSheet":
            continue
        out.append(FnContract(
            target=f"{DT}::{cls}.get_table", params=[("self", p_obj(cls, {"data": p_grid()}))],
            ensures=[("table-is-the-stored-grid", same_table)],
            raises=[], inline=True,
            note="get_table() returns the stored grid unchanged"))
        out.append(FnContract(
            target=f"{DT}::{cls}.get_dim", params=[("self", p_obj(cls, {"data": p_grid()}))],
            ensures=[("dim-is-rows-and-max-row-length", dim_post(self_data))],
            raises=[],
            note="get_dim() == (len(get_table()), max(len(row)), 0 columns for no rows) for row lists of every length"))
    install_dict_model(reg)
    out.append(FnContract(
        target=f"{DT}::XlsSheet.get_table", params=[("self", p_obj("XlsSheet", {"data": p_records()}))],
        returns=lambda c: xls_table_spec(),
        raises=[],
        loops={0: LoopSpec(inv=lambda lc: seq_eq(lc.ex.as_seq(lc.st, lc[XLS_ROWS]), take(xls_table_spec(), lc.i + 1)),
                           havoc=((XLS_ROWS, ("list", ("list", ("ext", "PyVal")))),), label="records")},
        note="table of an XLS sheet: keys of the first record, then the records' values in that key order"))
    out.append(FnContract(
        target=f"{DT}::XlsSheet.get_dim", params=[("self", p_obj("XlsSheet", {"data": p_records()}))],
        ensures=[("dim-is-rows-and-max-row-length", dim_post(lambda c: xls_table_spec()))],
        raises=[]))
    return out


# ===================================================================== (c) ==
# Python classes of the abstract value sorts used for cell values
PYCLASS = {"DateTime": ("datetime.datetime", "datetime.date"), "Date": ("datetime.date",), "Time": ("datetime.time",),
           "TimeDelta": ("datetime.timedelta",)}
ISO = {k: z3.Function(f"isoformat_{k}", ext_sort(k), S) for k in ("DateTime", "Date", "Time")}
PYSTR_TD = z3.Function("str_of_timedelta", ext_sort("TimeDelta"), S)


def install_value_models(reg):
    for k in ("datetime", "date", "time", "timedelta"):
        reg.ext_models[("const", f"datetime.{k}")] = VType(f"datetime.{k}")
    for k, f in ISO.items():
        reg.method_models[(k, "isoformat")] = (lambda ex, st, o, a, kw, n, f=f: [(st, VStr(f(o.t)))])
    # xlrd cell-type constants (documented values; replay/C13.py compares them with the installed xlrd)
    for i, name in enumerate(("EMPTY", "TEXT", "NUMBER", "DATE", "BOOLEAN", "ERROR", "BLANK")):
        reg.ext_models[("const", f"xlrd.XL_CELL_{name}")] = VInt(i)
    reg.attr_models[("XlCell", "ctype")] = lambda ex, st, o: CELLINFO[o.t.get_id()][0]
    reg.attr_models[("XlCell", "value")] = lambda ex, st, o: CELLINFO[o.t.get_id()][1]
    reg.attr_models[("XlBook", "datemode")] = lambda ex, st, o: VInt(DATEMODE(o.t))

    def m_xldate(ex, st, args, kwargs, node):
        """xlrd.xldate_as_tuple(serial, datemode): ASSUMED -- raises (XLDateError family) for serials it cannot convert
        (negative, too large, 1..60 in the 1900 date system), else the (y, m, d, h, mi, s) tuple of the serial
        with y = m = d = 0 for a pure time (0 <= serial < 1)."""
        bad = st.fork()
        bad.ghost["xldate_failed"] = True
        ex.exc_model(bad, f"{ex.loc(node)} xlrd.xldate_as_tuple")
        v, mode = args[0], args[1]
        if not isinstance(v, VReal) or not isinstance(mode, VInt):
            return ex.havoc_call(st, "xldate_as_tuple", [], node)
        parts = [XLD[k](v.t, ops.int_term(mode)) for k in range(6)]
        st.assume(xldate_ranges(parts))
        return [(st, VTuple([VInt(p) for p in parts]))]
    reg.ext_models["xlrd.xldate_as_tuple"] = m_xldate


CELLINFO = {}
DATEMODE = z3.Function("xl_datemode", ext_sort("XlBook"), I)
XLD = [z3.Function(f"xldate_{n}", z3.RealSort(), I, I) for n in ("year", "month", "day", "hour", "minute", "second")]


def xldate_ranges(p):
    y, mo, d, h, mi, sec = p
    return z3.And(z3.Or(z3.And(y == 0, mo == 0, d == 0), z3.And(y >= 1900, y <= 9999, mo >= 1, mo <= 12, d >= 1, d <= 31)),
                  h >= 0, h <= 23, mi >= 0, mi <= 59, sec >= 0, sec <= 59)


def iso_time(h, mi, sec):
    return z3.Concat(pad(h, 2), z3.StringVal(":"), pad(mi, 2), z3.StringVal(":"), pad(sec, 2))


def iso_text(p, sep):
    """ISO 8601 / RFC 3339 text of a (y, m, d, h, mi, s) tuple: a calendar date without time of day is YYYY-MM-DD, with
    time of day YYYY-MM-DD<sep>HH:MM:SS; a pure time (no calendar date: y = m = d = 0) is HH:MM:SS."""
    y, mo, d, h, mi, sec = p
    date = z3.Concat(pad(y, 4), z3.StringVal("-"), pad(mo, 2), z3.StringVal("-"), pad(d, 2))
    return z3.If(y == 0, iso_time(h, mi, sec),
                 z3.If(z3.And(h == 0, mi == 0, sec == 0), date, z3.Concat(date, z3.StringVal(sep), iso_time(h, mi, sec))))


def is_iso(t, p):
    return z3.Or(t == iso_text(p, "T"), t == iso_text(p, " "))


def p_date_tuple():
    def mk(ex, st, name):
        p = [z3.Int(f"{name}_{k}") for k in ("y", "mo", "d", "h", "mi", "s")]
        return [(xldate_ranges(p), VTuple([VInt(x) for x in p]))]
    return Maker(mk, desc="(y, m, d, h, mi, s) as produced by xlrd.xldate_as_tuple")


XL_KINDS = ("empty", "text", "number", "date", "boolean", "error")


def p_xlcell():
    """One alternative per xlrd cell type (XL_CELL_BLANK only occurs with formatting_info=True, which the reader does not use)."""
    def mk(ex, st, name):
        alts = []
        for i, kind in enumerate(XL_KINDS):
            c = VExt("XlCell", z3.Const(f"{name}_{kind}", ext_sort("XlCell")))
            cond = None
            if kind in ("empty",):
                val = VStr("")
            elif kind == "text":
                val = VStr(z3.String(f"{name}_text"))
            elif kind in ("number", "date"):
                val = VReal(z3.Real(f"{name}_{kind}_value"))
            elif kind == "boolean":
                t = z3.Int(f"{name}_bool_value")
                val, cond = VInt(t), z3.Or(t == 0, t == 1)
            else:
                t = z3.Int(f"{name}_error_code")
                val, cond = VInt(t), z3.And(t >= 0, t <= 255)
            CELLINFO[c.t.get_id()] = (VInt(i), val, kind)
            alts.append((cond, c))
        return alts
    return Maker(mk, desc="xlrd Cell of each type")


def integral(r):
    return z3.ToReal(z3.ToInt(r)) == r


def xls_native_ok(c, res, branch):
    """native value of an XLS cell per the statement: number -> int when integral else the float, bool -> bool,
    date -> ISO text, text unchanged, empty -> None.  `branch` splits the date clause into three obligations:
    'main' (calendar date, xlrd converts), 'time' (pure time of day), 'failed' (xlrd cannot convert the serial)."""
    _ct, val, kind = CELLINFO[c.args["cell"].t.get_id()]
    failed = bool(c.st.ghost.get("xldate_failed"))
    if kind == "date":
        if failed:
            if branch != "failed":
                return z3.BoolVal(True)
            c.note = "xlrd.xldate_as_tuple raised: the date cell comes back as its raw serial number, not as ISO text"
            return z3.BoolVal(isinstance(res, VStr))
        if branch == "failed":
            return z3.BoolVal(True)
        if not isinstance(res, VStr):
            return z3.BoolVal(False)
        book = c.args["workbook"]
        parts = [XLD[k](val.t, DATEMODE(book.t)) for k in range(6)]
        is_time = parts[0] == 0
        return z3.Implies(is_time if branch == "time" else z3.Not(is_time), is_iso(res.t, parts))
    if branch != "main":
        return z3.BoolVal(True)
    if kind == "empty":
        return z3.BoolVal(res is NONE)
    if kind == "text":
        return res.t == val.t if isinstance(res, VStr) else z3.BoolVal(False)
    if kind == "number":
        if isinstance(res, VInt):
            return z3.And(integral(val.t), z3.ToReal(ops.int_term(res)) == val.t)
        if isinstance(res, VReal):
            return z3.And(z3.Not(integral(val.t)), res.t == val.t)
        return z3.BoolVal(False)
    if kind == "boolean":
        return res.t == (val.t != 0) if isinstance(res, VBool) else z3.BoolVal(False)
    return z3.BoolVal(True)       # error cells: no value to keep (reported as None / "#ERROR")


def p_xlsx_value():
    """a cell value as openpyxl hands it out"""
    def mk(ex, st, name):
        alts = [(None, NONE), (None, VStr(z3.String(f"{name}_s"))), (None, VInt(z3.Int(f"{name}_i"))), (None, VReal(z3.Real(f"{name}_f"))),
                (None, VBool(z3.Bool(f"{name}_b")))]
        for k in ("DateTime", "Date", "Time", "TimeDelta"):
            alts.append((None, VExt(k, z3.Const(f"{name}_{k}", ext_sort(k)))))
        return alts
    return Maker(mk, desc="None | str | int | float | bool | datetime | date | time | timedelta")


def value_contracts(reg):
    install_value_models(reg)
    out = []

    # ---- xlsx: datetime/date/time -> ISO text, everything else (None, str, int, float, bool, timedelta, error text) unchanged
    def xlsx_post(c):
        v, r = c.args["cell_value"], c.result
        if isinstance(v, VExt) and v.sort in ISO:
            return r.t == ISO[v.sort](v.t) if isinstance(r, VStr) else z3.BoolVal(False)
        if isinstance(v, VExt) and v.sort == "TimeDelta":
            # a duration has no ISO form in the statement's list: it keeps its value -- the object itself or its text form str(v)
            if isinstance(r, VStr):
                return r.t == PYSTR_TD(v.t)
            return z3.BoolVal(isinstance(r, VExt) and r.sort == "TimeDelta" and r.t.eq(v.t))
        if v is NONE:
            return z3.BoolVal(r is NONE)
        if type(r) is not type(v):
            return z3.BoolVal(False)
        return ops.eq_term(r, v)
    out.append(FnContract(target=f"{XLSX}::_get_cell_value", params=[("cell_value", p_xlsx_value())],
                          ensures=[("dates-as-iso-text-everything-else-keeps-value-and-type", xlsx_post)], raises=[],
                          note="typed values (statement): numbers / booleans / text keep value and type, date-like values become their ISO text"))

    # ---- xls
    out.append(FnContract(target=f"{XLS}::_format_date_tuple", params=[("dt", p_date_tuple())],
                          ensures=[("calendar-date-is-iso-text", lambda c: z3.Implies(c.args["dt"].items[0].t != 0, is_iso(c.result.t, [x.t for x in c.args["dt"].items])) if isinstance(c.result, VStr) else z3.BoolVal(False)),
                                   ("time-only-is-iso-time", lambda c: z3.Implies(c.args["dt"].items[0].t == 0, is_iso(c.result.t, [x.t for x in c.args["dt"].items])) if isinstance(c.result, VStr) else z3.BoolVal(False))],
                          raises=[], inline=True))
    for fn, extra in (("_get_cell_values", []), ("_get_cell_value", [("as_string", Maker(lambda ex, st, name: VBool(False), desc="False", default=lambda ex, st: VBool(False)))])):
        native = (lambda c: c.result.items[0] if isinstance(c.result, VTuple) else VUnk("?")) if fn == "_get_cell_values" else (lambda c: c.result)
        out.append(FnContract(
            target=f"{XLS}::{fn}", params=[("cell", p_xlcell()), ("workbook", p_ext("XlBook"))] + extra,
            ensures=[("native-value-per-cell-type", lambda c, native=native: xls_native_ok(c, native(c), "main")),
                     ("time-only-date-cell-is-iso-time", lambda c, native=native: xls_native_ok(c, native(c), "time")),
                     ("date-cell-is-iso-text-when-xlrd-cannot-convert", lambda c, native=native: xls_native_ok(c, native(c), "failed"))],
            raises=[], inline=True,
            note="number -> int when integral, bool, date -> ISO text (statement); as_string=False for _get_cell_value"))
    return out


# ============================================================ iterate_tables (round 7) ==
YSEQ = "c13!yielded"
TABLE = ext_sort("C13Table")                                  # a stored table (grid or sheet object) of a content object
N_STORED = z3.Int("n_stored_tables")
STORED = z3.Function("stored_table", I, TABLE)


def raise_unsupported(msg):
    from pyvc.symex import Unsupported
    raise Unsupported(msg)


def cat(a: VSeq, b: VSeq):
    n = z3.simplify(a.length)
    return b if z3.is_int_value(n) and n.as_long() == 0 else concat(a, b)


def seq_append(s: VSeq, x):
    n = z3.simplify(s.length)
    if z3.is_int_value(n) and n.as_long() == 0:
        return seq_of_items([x])
    return VSeq(s.length + 1, lambda i, s=s, x=x: vite(i < s.length, s.elem(i), x), "sym")


def yield_key(st, v):
    """what a yielded value stands for: the stored table itself, or the stored grid inside a fresh TableData(data=grid)"""
    if isinstance(v, VExt) and v.sort == "C13Table":
        return VExt("C13Table", WRAPPED(v.t, z3.BoolVal(False)))
    if isinstance(v, VRef):
        o = st.obj(v.ref)
        d = o.data.get("data") if o.kind == "obj" and o.cls == "TableData" and isinstance(o.data, dict) else None
        if isinstance(d, VExt) and d.sort == "C13Table":
            return VExt("C13Table", WRAPPED(d.t, z3.BoolVal(True)))
    raise_unsupported(f"iterate_tables yields {v!r}: neither a stored table nor TableData(data=<stored grid>)")


WRAPPED = z3.Function("yielded_table", TABLE, B, TABLE)       # (stored item, wrapped in a fresh TableData?) -- injective by construction below


def iterate_tables_contracts(reg):
    """`iterate_tables()` of every content class that stores tables: the generator yields EVERY stored table exactly once, in storage order
    (units in order, tables of a unit in order), none invented -- for any number of tables / units (loop invariant: the yielded sequence is
    the prefix of the stored sequence).  Grid-storing classes yield TableData(data=grid), sheet-storing classes the sheet object itself;
    which of the two a class does is read from its field annotations (list[list[list..]] = grids)."""
    m = loader.module(DT)
    out = []
    for q, fnode in sorted(m.functions.items()):
        if not q.endswith(".iterate_tables") or q.count(".") != 1:
            continue
        cls = q.split(".")[0]
        fors = sorted([n for n in ast.walk(fnode) if isinstance(n, (ast.For, ast.While))], key=lambda n: (n.lineno, n.col_offset))
        if len(fors) > 1:
            # units with tables (pptx / odp / pdf / epub: nested loops) stay with the bounded walker w_iter.  A contract over the flattened
            # sequence (prefix sums OFF(i+1) = OFF(i) + ntables(unit i) as a quantified definition) proves in milliseconds, but a broken
            # body then costs 4 x 60 s of solver time-outs (sat direction of the quantified definition): not worth it in the quick tier.
            continue
        flds = sorted({n.attr for n in ast.walk(fnode) if isinstance(n, ast.Attribute) and isinstance(n.value, ast.Name) and n.value.id == "self"
                       and _field_is_grid_list(m, cls, n.attr) is not None})
        if len(flds) != 1:
            continue            # no stored tables (`yield from ()`), or something this contract does not describe
        fld = flds[0]
        wrapped = _field_is_grid_list(m, cls, fld)

        def p_stored():
            def mk(ex, st, name):
                st.ghost[YSEQ] = seq_of_items([])
                alts = [(N_STORED >= 0, VSeq(N_STORED, lambda k: VExt("C13Table", STORED(k)), "C13Table"))]
                for n in (0, 1, 2):
                    ref = st.alloc(HeapObj("list", [VExt("C13Table", STORED(z3.IntVal(k))) for k in range(n)], fresh=False), ex.refs)
                    alts.append((N_STORED == n, VRef(ref)))
                return alts
            return Maker(mk, desc="list of stored tables, every length")

        def spec(wrapped=wrapped):
            return VSeq(N_STORED, lambda k: VExt("C13Table", WRAPPED(STORED(k), z3.BoolVal(wrapped))), "C13Table")

        def post(c, spec=spec):
            got = c.st.ghost.get(YSEQ)
            return seq_eq(got, spec()) if isinstance(got, VSeq) else z3.BoolVal(False)

        def inv(lc, spec=spec):
            got = lc.st.ghost.get(YSEQ)
            return seq_eq(got, take(spec(), lc.i)) if isinstance(got, VSeq) else z3.BoolVal(False)
        out.append(FnContract(target=f"{DT}::{q}", params=[("self", p_obj(cls, {fld: p_stored()}))],
                              ensures=[("yields-every-stored-table-once-in-order-none-invented", post)], raises=[],
                              loops={0: LoopSpec(inv=inv, label="stored-tables")} if fors else {},
                              note=f"any number of stored tables in self.{fld}; yields " + ("TableData(data=grid)" if wrapped else "the stored table object")))
    return out


def _field_is_grid_list(m, cls, fld):
    """True: the field stores grids (list[list[list[..]]]) that must be wrapped in TableData; False: it stores table objects; None: unknown"""
    cnode = m.classes.get(cls) if hasattr(m, "classes") else None
    if cnode is None:
        cnode = next((n for n in ast.walk(m.tree) if isinstance(n, ast.ClassDef) and n.name == cls), None) if hasattr(m, "tree") else None
    if cnode is None:
        return None
    for stmt in cnode.body:
        if isinstance(stmt, ast.AnnAssign) and isinstance(stmt.target, ast.Name) and stmt.target.id == fld:
            txt = ast.unparse(stmt.annotation).replace("typing.", "").replace("List", "list")
            if txt.lower().startswith("list[list[list["):
                return True
            if txt.lower().startswith("list[") and not txt.lower().startswith("list[list"):
                return False
    return None


# ============================================================ xlsx trimming (round 7) ==
# `_read_sheet_data` cuts the sheet to its used range with these helpers: the SHAPE of every xlsx table depends on them.
TRUTHY = z3.Function("py_truth", PYVAL, B)                  # bool(v) of an abstract cell value (unconstrained: all four combinations with cell_non_empty exist)
NONEMPTY = z3.Function("cell_non_empty", PYVAL, B)          # spec predicate on an abstract cell value: not None and not a blank string


def nonempty_spec(v):
    """statement: a cell is empty when it holds no value or only white space; every other value (0, False, dates ...) is data"""
    if isinstance(v, VExt) and v.sort == "PyVal":
        return NONEMPTY(v.t)                               # (call-site view on an abstract cell: the predicate the verified contract defines per type)
    if v is NONE:
        return z3.BoolVal(False)
    if isinstance(v, VStr):
        from contracts import C13_bounded as Bm
        return Bm.mk_strip(v.t) != z3.StringVal("")
    return z3.BoolVal(True)


def meaningful_spec(v):
    if v is NONE:
        return z3.BoolVal(False)
    if isinstance(v, VStr):
        from contracts import C13_bounded as Bm
        return z3.And(Bm.mk_strip(v.t) != z3.StringVal(""), z3.Not(z3.PrefixOf(z3.StringVal("Unnamed: "), v.t)))
    return z3.BoolVal(True)


def row_nonempty(row):
    if not isinstance(row, VSeq):
        return z3.BoolVal(False)                           # (only reached for the sheet without rows)
    j = z3.Int("j!rne")
    e = row.elem(j)
    return z3.Exists([j], z3.And(j >= 0, j < row.length, nonempty_spec(e)))


def xlsx_trim_contracts(reg):
    from contracts import C13_bounded as Bm
    Bm.install_str_models(reg)
    m = loader.module(XLSX)
    out = []

    def bool_post(spec, pname):
        def post(c):
            r = c.result
            if not isinstance(r, VBool):
                c.note = "result is not a bool"
                return z3.BoolVal(False)
            return r.t == spec(c.args[pname])
        return post
    for fn, spec, label in (("_is_cell_non_empty", nonempty_spec, "non-empty-iff-a-value-that-is-not-blank-text"),
                            ("_is_meaningful_value", meaningful_spec, "meaningful-iff-a-value-that-is-neither-blank-nor-an-Unnamed-placeholder")):
        fnode = m.functions.get(fn)
        if fnode is None or len(fnode.args.args) != 1:
            continue
        pname = fnode.args.args[0].arg
        out.append(FnContract(target=f"{XLSX}::{fn}", params=[(pname, p_xlsx_value())],
                              ensures=[(label, bool_post(spec, pname))], returns=lambda c, spec=spec, pname=pname: VBool(spec(c.args[pname])),
                              raises=[], note="VERIFIED on every cell type; at call sites on an abstract cell value (PyVal) the result is the spec predicate "
                                              "cell_non_empty(v), which this contract defines type by type"))

    # ---- _find_last_data_row: 1-based index of the last row that holds a non-empty cell, 0 when there is none (rows of EVERY length)
    fq = "_find_last_data_row"
    fnode = m.functions.get(fq)
    if fnode is not None and len(fnode.args.args) == 1:
        pname = fnode.args.args[0].arg

        def rows_of(c):
            return c.ex.as_seq(c.entry, c.args[pname])

        def post_last(c):
            t, r = rows_of(c), c.result
            if t is None or not isinstance(r, VInt):
                c.note = "result is not an int"
                return z3.BoolVal(False)
            k = z3.Int("k!last")
            res = ops.int_term(r)
            return z3.And(res >= 0, res <= t.length,
                          z3.Implies(res > 0, row_nonempty(t.elem(res - 1))),
                          z3.ForAll([k], z3.Implies(z3.And(k >= res, k < t.length), z3.Not(row_nonempty(t.elem(k))))))

        def inv_tail(lc):
            t = lc.ex.as_seq(lc.entry, lc.old(pname))
            if t is None:
                return z3.BoolVal(False)
            k = z3.Int("k!tail")
            return z3.ForAll([k], z3.Implies(z3.And(k >= t.length - lc.i, k < t.length), z3.Not(row_nonempty(t.elem(k)))))
        # the invariant belongs to a loop that walks the row indices downwards (`for .. in range(.., .., -1)`); any other loop shape gets
        # none: the postcondition is then undecided on the symbolic sheet and the native replay decides (never a false alarm)
        fors = sorted([n for n in ast.walk(fnode) if isinstance(n, (ast.For, ast.While))], key=lambda n: (n.lineno, n.col_offset))
        down = len(fors) == 1 and isinstance(fors[0], ast.For) and isinstance(fors[0].iter, ast.Call) and isinstance(fors[0].iter.func, ast.Name) \
            and fors[0].iter.func.id == "range" and len(fors[0].iter.args) == 3 and isinstance(fors[0].iter.args[2], ast.UnaryOp) \
            and isinstance(fors[0].iter.args[2].op, ast.USub) and isinstance(fors[0].iter.args[2].operand, ast.Constant) and fors[0].iter.args[2].operand.value == 1
        out.append(FnContract(target=f"{XLSX}::{fq}", params=[(pname, p_grid())],
                              ensures=[("last-row-with-a-non-empty-cell-zero-when-none", post_last)], raises=[],
                              loops={0: LoopSpec(inv=inv_tail, label="rows-from-the-end")} if down else {},
                              note="symbolic sheet: every number of rows, every row length; every row after the result is empty, the result's row is not"))
    # ---- _find_last_data_column: 1-based index of the last column that holds a non-empty cell in SOME row, 0 when there is none
    fq = "_find_last_data_column"
    fnode = m.functions.get(fq)
    lv = loop_vars(XLSX, fq)
    if fnode is not None and len(fnode.args.args) == 1 and len(lv) == 2 and lv[0]["target"]:
        pname, rowv = fnode.args.args[0].arg, lv[0]["target"]
        fors = sorted([n for n in ast.walk(fnode) if isinstance(n, (ast.For, ast.While))], key=lambda n: (n.lineno, n.col_offset))
        accs = sorted({t.id for n in ast.walk(fors[1]) if isinstance(n, ast.Assign) for t in n.targets if isinstance(t, ast.Name)})
        if len(accs) == 1 and _down_range(fors[1]):
            acc = accs[0]

            def widest(t, m_, n):
                """m_ is the last data column of the first n rows of t"""
                k, j, k2 = z3.Int("k!col"), z3.Int("j!col"), z3.Int("k!wit")
                ne = lambda kk, jj: nonempty_spec(t.elem(kk).elem(jj)) if isinstance(t.elem(kk), VSeq) else z3.BoolVal(False)
                ln = lambda kk: _rowlen(t.elem(kk))
                return z3.And(m_ >= 0,
                              z3.ForAll([k, j], z3.Implies(z3.And(k >= 0, k < n, j >= m_, j < ln(k)), z3.Not(ne(k, j)))),
                              z3.Implies(m_ > 0, z3.Exists([k2], z3.And(k2 >= 0, k2 < n, m_ <= ln(k2), ne(k2, m_ - 1)))))

            def post_col(c):
                t, r = c.ex.as_seq(c.entry, c.args[pname]), c.result
                if t is None or not isinstance(r, VInt):
                    c.note = "result is not an int"
                    return z3.BoolVal(False)
                return widest(t, ops.int_term(r), t.length)

            def inv_outer(lc):
                t, a = lc.ex.as_seq(lc.entry, lc.old(pname)), lc[acc]
                return widest(t, ops.int_term(a), lc.i) if t is not None and isinstance(a, VInt) else z3.BoolVal(False)

            def inv_inner(lc):
                row, a, a0 = lc[rowv], lc[acc], lc.old(acc)
                if not isinstance(row, VSeq) or not isinstance(a, VInt) or not isinstance(a0, VInt):
                    return z3.BoolVal(False)
                # the accumulator only grows, and when it grew it points just behind a non-empty cell of this row; no non-empty cell of
                # this row at or after max(accumulator, columns not looked at yet)   (holds with and without the `break`)
                j = z3.Int("j!tailc")
                at, at0 = ops.int_term(a), ops.int_term(a0)
                return z3.And(at >= at0,
                              z3.Or(at == at0, z3.And(at >= 1, at <= row.length, nonempty_spec(row.elem(at - 1)))),
                              z3.ForAll([j], z3.Implies(z3.And(j >= row.length - lc.i, j >= at, j < row.length), z3.Not(nonempty_spec(row.elem(j))))))
            out.append(FnContract(target=f"{XLSX}::{fq}", params=[(pname, p_grid())],
                                  ensures=[("last-column-with-a-non-empty-cell-in-some-row-zero-when-none", post_col)], raises=[],
                                  loops={0: LoopSpec(inv=inv_outer, label="rows"), 1: LoopSpec(inv=inv_inner, label="cells-from-the-end")},
                                  note="symbolic sheet, ragged rows: no row has a non-empty cell at or after the result, some row has one just before it"))
    return out


def _down_range(f):
    return isinstance(f, ast.For) and isinstance(f.iter, ast.Call) and isinstance(f.iter.func, ast.Name) and f.iter.func.id == "range" \
        and len(f.iter.args) == 3 and isinstance(f.iter.args[2], ast.UnaryOp) and isinstance(f.iter.args[2].op, ast.USub) \
        and isinstance(f.iter.args[2].operand, ast.Constant) and f.iter.args[2].operand.value == 1


# ============================================================ (b) symbolic shape ==
def pptx_contracts(reg):
    """_extract_table_from_graphic_frame on a graphic frame of SYMBOLIC shape: any number of rows, any number of cells per
    row.  Grid spec over the tree vocabulary: rows = the a:tr children of the a:tbl, cells = the a:tc children of the row,
    cell text = stripped paragraph text of the cell's a:txBody ('' without one)."""
    from contracts import C13_bounded as Bm
    Bm.install_str_models(reg)
    reg.add(Bm.assumed_text(PPTX, "_extract_text_from_paragraphs", "elem"))
    m = loader.module(PPTX)
    TAGS = {k: z3.StringVal(m.literal("A_NS") + v) for k, v in (("gd", "graphicData"), ("tbl", "tbl"), ("tr", "tr"), ("tc", "tc"), ("body", "txBody"))}
    URI = z3.StringVal(m.literal("TABLE_URI"))

    def cell_text(tc):
        return z3.If(ET.FA_N(tc, TAGS["body"]) > 0, Bm.mk_strip(Bm.PTEXT(ET.FA_AT(tc, TAGS["body"], z3.IntVal(0)))), z3.StringVal(""))

    def row_spec(tr):
        return VSeq(ET.FA_N(tr, TAGS["tc"]), lambda j, tr=tr: VStr(cell_text(ET.FA_AT(tr, TAGS["tc"], j))), "str")

    def grid(tbl):
        return VSeq(ET.FA_N(tbl, TAGS["tr"]), lambda i, tbl=tbl: row_spec(ET.FA_AT(tbl, TAGS["tr"], i)), "row")

    def frame_parts(e):
        gd = ET.D_AT(e, TAGS["gd"], z3.IntVal(0))
        is_frame = z3.And(ET.D_N(e, TAGS["gd"]) > 0, ET.HAS_ATTR(gd, z3.StringVal("uri")), ET.ATTR(gd, z3.StringVal("uri")) == URI,
                          ET.FA_N(gd, TAGS["tbl"]) > 0)
        return is_frame, ET.FA_AT(gd, TAGS["tbl"], z3.IntVal(0))

    def post(c):
        is_frame, tbl = frame_parts(c.args["elem"].t)
        if c.result is NONE:
            return z3.Not(is_frame)
        got = c.ex.as_seq(c.st, c.result)
        if got is None:
            return z3.BoolVal(False)
        return z3.And(is_frame, seq_eq(got, grid(tbl)))

    lv = loop_vars(PPTX, "_extract_table_from_graphic_frame")
    lv = lv if len(lv) == 2 and all(d["built"] and d["iter_base"] for d in lv) else [{"built": "table_data", "iter_base": "tbl"}, {"built": "row_data", "iter_base": "tr"}]
    outer, inner = lv

    def inv_rows(lc):
        return seq_eq(lc.ex.as_seq(lc.st, lc[outer["built"]]), take(grid(lc[outer["iter_base"]].t), lc.i))

    def inv_cells(lc):
        return seq_eq(lc.ex.as_seq(lc.st, lc[inner["built"]]), take(row_spec(lc[inner["iter_base"]].t), lc.i))

    return [FnContract(
        target=f"{PPTX}::_extract_table_from_graphic_frame", params=[("elem", p_ext("Elem"))],
        ensures=[("none-iff-not-a-table-frame-else-the-grid-of-direct-rows-and-cells", post)],
        raises=[],
        loops={0: LoopSpec(inv=inv_rows, havoc=((outer["built"], ("list", ("list", "str"))),), label="rows"),
               1: LoopSpec(inv=inv_cells, havoc=((inner["built"], ("list", "str")),), label="cells")},
        note="symbolic tree shape: every number of rows, every (ragged) number of cells per row")]


# ============================================================ DOCX rows / cells (symbolic shape) ==
DOCX = "sharepoint2text/parsing/extractors/ms_modern/docx_extractor.py"
CP_N = z3.Function("docx_cell_paragraphs_n", ET.ELEM, I)            # paragraphs of a cell outside tables nested in it (document order)
CP_AT = z3.Function("docx_cell_paragraph_at", ET.ELEM, I, ET.ELEM)


def docx_contracts(reg):
    """`_extract_tables_from_context` on a body of SYMBOLIC shape: every table that the two outer loops reach gets the grid of its direct
    w:tr / w:tc children (any number of rows, ragged rows), and a cell holds EVERY paragraph that `_iter_cell_paragraphs(tc)` yields,
    each exactly once, in order, joined by a newline (no paragraph filtered, whatever its children are).  `_iter_cell_paragraphs` is
    ASSUMED here to yield the cell's paragraphs outside nested tables (CP_N / CP_AT); the generator itself, the order of the tables and
    the nesting are covered by the bounded walker `w_docx`.  The two outer loops carry the invariant len(tables) == len(anchors)."""
    from contracts import C13_bounded as Bm
    m = loader.module(DOCX)
    fq = "_extract_tables_from_context"
    if fq not in m.functions:
        return []
    TR, TC = z3.StringVal(Bm.DOCX_TAGS["row"]), z3.StringVal(Bm.DOCX_TAGS["cell"])      # w:tr / w:tc of the statement (not read from the code)
    Bm.install_str_models(reg)
    reg.add(Bm.assumed_text(DOCX, "_collect_text_from_element"))

    def cp_ret(c):
        e = c.args["element"]
        if not isinstance(e, VExt):
            from pyvc.symex import Unsupported
            raise Unsupported("_iter_cell_paragraphs on a value that is not an element of the symbolic tree")
        return VSeq(CP_N(e.t), lambda k, e=e.t: ET.elem(CP_AT(e, k)), "Elem")
    reg.add(FnContract(target=f"{DOCX}::_iter_cell_paragraphs", params=[("element", p_unk())], assumed=True,
                       returns=cp_ret,
                       note="the w:p descendants of the cell that are not inside a nested table, in document order (bounded: w_docx)"))

    def cell_text(tc):
        return JOIN(NLS, VSeq(CP_N(tc), lambda k, tc=tc: VStr(Bm.PTEXT(CP_AT(tc, k))), "str"))

    def row_spec(tr):
        return VSeq(ET.FA_N(tr, TC), lambda j, tr=tr: VStr(cell_text(ET.FA_AT(tr, TC, j))), "str")

    def grid(tbl):
        return VSeq(ET.FA_N(tbl, TR), lambda i, tbl=tbl: row_spec(ET.FA_AT(tbl, TR, i)), "row")

    # loop structure read from the AST: the two outer loops (blocks of the body, tables below a block) append to the two result lists;
    # the rows / cells loops may have become comprehensions or moved into helpers (then the symbolic lists carry them, no invariant needed)
    fnode = m.functions[fq]
    fors = sorted([n for n in ast.walk(fnode) if isinstance(n, (ast.For, ast.While))], key=lambda n: (n.lineno, n.col_offset))
    lv = loop_vars(DOCX, fq)
    if len(lv) not in (2, 4) or len(fors) != len(lv) or (len(lv) == 4 and not all(d["built"] and d["iter_base"] for d in lv[2:])):
        return []                      # another loop structure: the bounded walker stays the only defence (nothing is claimed here)
    appended = [st_.value.func.value.id for st_ in fors[1].body if isinstance(st_, ast.Expr) and isinstance(st_.value, ast.Call)
                and isinstance(st_.value.func, ast.Attribute) and st_.value.func.attr == "append" and isinstance(st_.value.func.value, ast.Name)]
    if len(appended) != 2 or len(set(appended)) != 2:
        return []
    tabs, anch = appended
    rows, cells = (lv[2], lv[3]) if len(lv) == 4 else (None, None)

    def inv_len(lc):
        a, b = lc.ex.as_seq(lc.st, lc[tabs]), lc.ex.as_seq(lc.st, lc[anch])
        return z3.BoolVal(False) if a is None or b is None else a.length == b.length

    def inv_rows(lc):
        return z3.And(seq_eq(lc.ex.as_seq(lc.st, lc[rows["built"]]), take(grid(lc[rows["iter_base"]].t), lc.i)), inv_len(lc))

    def inv_cells(lc):
        return z3.And(seq_eq(lc.ex.as_seq(lc.st, lc[cells["built"]]), take(row_spec(lc[cells["iter_base"]].t), lc.i)), inv_len(lc))

    def post(c):
        r = c.result
        if not isinstance(r, VTuple) or len(r.items) != 2:
            return z3.BoolVal(False)
        a, b = c.ex.as_seq(c.st, r.items[0]), c.ex.as_seq(c.st, r.items[1])
        return z3.BoolVal(False) if a is None or b is None else a.length == b.length

    GRID3, INTS = ("list", ("list", ("list", "str"))), ("list", "int")
    loops = {0: LoopSpec(inv=inv_len, havoc=((tabs, GRID3), (anch, INTS)), label="blocks"),
             1: LoopSpec(inv=inv_len, havoc=((tabs, GRID3), (anch, INTS)), label="tables")}
    if rows is not None:
        loops[2] = LoopSpec(inv=inv_rows, havoc=((rows["built"], ("list", ("list", "str"))),), label="rows")
        loops[3] = LoopSpec(inv=inv_cells, havoc=((cells["built"], ("list", "str")),), label="cells")
    return [FnContract(
        target=f"{DOCX}::{fq}", params=[("ctx", p_obj("_DocxContext", {"document_body": p_ext("Elem")}))],
        ensures=[("one-anchor-per-table", post)], raises=[], loops=loops,
        note="symbolic tree shape: every number of rows and (ragged) cells; a cell = all its own paragraphs joined by a newline")]


NLS = z3.StringVal("\n")


# =============================================================== RTF row matching ==
RTF = "sharepoint2text/parsing/extractors/ms_legacy/rtf_extractor.py"
REGEX, MATCH = ext_sort("Regex"), ext_sort("Match")
RX_N = z3.Function("re_finditer_n", REGEX, S, I)
RX_AT = z3.Function("re_finditer_at", REGEX, S, I, MATCH)
M_START = z3.Function("match_start", MATCH, I)
M_END = z3.Function("match_end", MATCH, I)


def finditer_facts(rx, text):
    """re.Pattern.finditer (ASSUMED): the non-overlapping, non-empty matches of the pattern in ascending order of position."""
    a, b = z3.Int(fresh_name("a")), z3.Int(fresh_name("b"))
    n = RX_N(rx, text)
    st_, en = (lambda k: M_START(RX_AT(rx, text, k))), (lambda k: M_END(RX_AT(rx, text, k)))
    return z3.And(n >= 0,
                  z3.ForAll([a], z3.Implies(z3.And(a >= 0, a < n), z3.And(st_(a) >= 0, st_(a) < en(a), en(a) <= z3.Length(text)))),
                  z3.ForAll([a, b], z3.Implies(z3.And(a >= 0, a < b, b < n), en(a) <= st_(b))))


def install_regex_models(reg, names):
    for nm in names:
        reg.module_consts[(RTF, nm)] = VExt("Regex", z3.Const(f"regex!{nm}", REGEX))

    def m_finditer(ex, st, o, a, k, n):
        if len(a) != 1 or not isinstance(a[0], VStr):
            return ex.havoc_call(st, "finditer", [], n)
        st.assume(finditer_facts(o.t, a[0].t))
        return [(st, VSeq(RX_N(o.t, a[0].t), lambda i, rx=o.t, t=a[0].t: VExt("Match", RX_AT(rx, t, i)), "Match"))]
    reg.method_models[("Regex", "finditer")] = m_finditer
    reg.method_models[("Match", "start")] = lambda ex, st, o, a, k, n: [(st, VInt(M_START(o.t)))] if not a else ex.havoc_call(st, "start(group)", [], n)
    reg.method_models[("Match", "end")] = lambda ex, st, o, a, k, n: [(st, VInt(M_END(o.t)))] if not a else ex.havoc_call(st, "end(group)", [], n)

    def m_bisect(left):
        def model(ex, st, args, kwargs, node):
            """bisect.bisect_left / bisect_right on an ascending list of ints (ASSUMED, stdlib documentation): the partition point"""
            s = ex.as_seq(st, args[0]) if len(args) == 2 and not kwargs else None
            if s is None or not isinstance(args[1], VInt):
                return ex.havoc_call(st, "bisect", [], node)
            b, j = z3.Int(fresh_name("bisect")), z3.Int(fresh_name("j"))
            x = ops.int_term(args[1])
            el = lambda k: ops.int_term(s.elem(k))
            st.assume(z3.And(b >= 0, b <= s.length,
                             z3.ForAll([j], z3.Implies(z3.And(j >= 0, j < b), el(j) < x if left else el(j) <= x)),
                             z3.ForAll([j], z3.Implies(z3.And(j >= b, j < s.length), el(j) >= x if left else el(j) > x))))
            return [(st, VInt(b))]
        return model
    reg.ext_models["bisect.bisect_left"] = m_bisect(True)
    reg.ext_models["bisect.bisect_right"] = m_bisect(False)
    reg.ext_models["bisect.bisect"] = m_bisect(False)


def small_scope_refuter(pc, goal, timeout_ms):
    """DESIGN 2.5.3a: the same VC with every regex match count bounded by 2 (and, failing that, 3): a model of the bounded
    VC is a model of the VC.  Only consulted for VCs z3 left unknown; the native replayer still has to confirm."""
    seen, stack, counts = set(), list(pc) + [goal], {}
    while stack:
        x = stack.pop()
        if x.get_id() in seen:
            continue
        seen.add(x.get_id())
        if z3.is_app(x):
            if x.decl().name() == "re_finditer_n":
                counts[x.get_id()] = x
            stack.extend(x.children())
        elif z3.is_quantifier(x):
            stack.append(x.body())
    counts = [c for c in counts.values() if not any(z3.is_var(a) for a in c.children())]
    if not counts:
        return None
    for bound in (2, 3):
        sv = z3.Solver()
        sv.set("timeout", min(timeout_ms, 4000))
        sv.add(*pc)
        sv.add(z3.Not(goal))
        sv.add(*[c <= bound for c in counts])
        if sv.check() == z3.sat:
            m = sv.model()
            return f"counter-model with at most {bound} regex matches per pattern: " + ", ".join(f"{c} = {m.eval(c, model_completion=True)}" for c in counts)
    return None


def rtf_loops(repo=None):
    """(outer loop ordinal, inner loop ordinal | None, names) of the row-matching loops of _RtfParser._extract_tables, found
    structurally in the real AST: the first loop over a list of \\trowd match positions; the loop nested directly in it."""
    m = loader.module(RTF, repo)
    fnode = m.functions.get("_RtfParser._extract_tables")
    if fnode is None:
        return None
    loops = [n for n in ast.walk(fnode) if isinstance(n, (ast.For, ast.While))]
    loops.sort(key=lambda n: (n.lineno, n.col_offset))
    # the position lists: NAME = [m.start()/m.end() for m in _RE_X.finditer(text)]
    src = {}
    for n in ast.walk(fnode):
        if isinstance(n, ast.Assign) and len(n.targets) == 1 and isinstance(n.targets[0], ast.Name) and isinstance(n.value, ast.ListComp):
            g = n.value.generators[0]
            if isinstance(g.iter, ast.Call) and isinstance(g.iter.func, ast.Attribute) and g.iter.func.attr == "finditer" and isinstance(g.iter.func.value, ast.Name) \
                    and isinstance(n.value.elt, ast.Call) and isinstance(n.value.elt.func, ast.Attribute):
                src[n.targets[0].id] = (g.iter.func.value.id, n.value.elt.func.attr)
    trowd = [k for k, v in src.items() if v == ("_RE_TROWD", "start")]
    rows = [k for k, v in src.items() if v == ("_RE_ROW", "end")]
    if len(trowd) != 1 or len(rows) != 1:
        return None
    outer = [l for l in loops if isinstance(l, ast.For) and isinstance(l.iter, ast.Name) and l.iter.id == trowd[0] and isinstance(l.target, ast.Name)]
    if not outer:
        return None
    outer = outer[0]
    built = None
    for n in ast.walk(outer):
        if isinstance(n, ast.Call) and isinstance(n.func, ast.Attribute) and n.func.attr == "append" and isinstance(n.func.value, ast.Name):
            built = n.func.value.id
    inner = [l for l in outer.body if isinstance(l, ast.For) and isinstance(l.iter, ast.Name) and l.iter.id == rows[0] and isinstance(l.target, ast.Name)]
    return {"outer": loops.index(outer), "inner": loops.index(inner[0]) if inner else None, "trowd": trowd[0], "rows": rows[0], "built": built,
            "t": outer.target.id, "text": fnode.args.args[1].arg}


def rtf_helper_loop(repo=None):
    """The row-pairing loop when it lives in a HELPER that receives the two position lists and the text as parameters:
    `for t in A:` whose body appends a triple (t, r, text[t:r]) with r taken from B by an inner loop or next(<genexpr>).
    -> dict(qual, fnode, A, B, text, built, t, outer/inner ordinals, method) or None"""
    m = loader.module(RTF, repo)
    for q, fnode in m.functions.items():
        params = [a.arg for a in fnode.args.args]
        loops = [n for n in ast.walk(fnode) if isinstance(n, (ast.For, ast.While))]
        loops.sort(key=lambda n: (n.lineno, n.col_offset))
        for lp in loops:
            if not (isinstance(lp, ast.For) and isinstance(lp.iter, ast.Name) and lp.iter.id in params and isinstance(lp.target, ast.Name)):
                continue
            t = lp.target.id
            for n in ast.walk(lp):
                if isinstance(n, ast.Call) and isinstance(n.func, ast.Attribute) and n.func.attr == "append" and isinstance(n.func.value, ast.Name) \
                        and len(n.args) == 1 and isinstance(n.args[0], ast.Tuple) and len(n.args[0].elts) == 3:
                    e0, e1, e2 = n.args[0].elts
                    if isinstance(e0, ast.Name) and e0.id == t and isinstance(e2, ast.Subscript) and isinstance(e2.value, ast.Name) and e2.value.id in params \
                            and isinstance(e2.slice, ast.Slice):
                        others = [x.iter.id for x in ast.walk(lp) if isinstance(x, (ast.For, ast.comprehension)) and x is not lp
                                  and isinstance(x.iter, ast.Name) and x.iter.id in params and x.iter.id != lp.iter.id]
                        if len(set(others)) != 1:
                            continue
                        inner = [l for l in lp.body if isinstance(l, ast.For) and isinstance(l.iter, ast.Name) and l.iter.id == others[0]]
                        return {"qual": q, "fnode": fnode, "A": lp.iter.id, "B": others[0], "text": e2.value.id, "built": n.func.value.id, "t": t,
                                "outer": loops.index(lp), "inner": loops.index(inner[0]) if inner else None, "params": params,
                                "method": "." in q and params[:1] == ["self"]}
    return None


def rtf_helper_contracts(reg, H):
    """contract of the helper: for ascending position lists, the result is the list of (start, first end strictly after it,
    text[start:end]) for the starts that have a later end, in order; the caller's lists satisfy the precondition (call-pre)"""
    install_regex_models(reg, ("_RE_PAGE_BREAK", "_RE_TROWD", "_RE_ROW"))
    NTp, NRp = z3.Int("n_row_starts"), z3.Int("n_row_ends")
    TA, RB = z3.Function("row_start_at", I, I), z3.Function("row_end_at", I, I)

    def p_seq(n, f):
        return Maker(lambda ex, st, name: [(n >= 0, VSeq(n, lambda k: VInt(f(k)), "int"))], desc="ascending list of positions")

    def parts(args, st):
        ex = ENTRY_EX[0]
        A, B = ex.as_seq(st, args[H["A"]]), ex.as_seq(st, args[H["B"]])
        return A, B, args[H["text"]].t

    def spec(A, B, TXT, tag):
        NT, NR = A.length, B.length
        T, R = (lambda k: ops.int_term(A.elem(k))), (lambda k: ops.int_term(B.elem(k)))
        IDX, K = z3.Function(f"first_end_after!{tag}", I, I), z3.Int(f"paired_starts!{tag}")
        t, j, k = z3.Int("t!d"), z3.Int("j!d"), z3.Int("k!d")
        defs = z3.And(z3.ForAll([t], z3.And(IDX(t) >= 0, IDX(t) <= NR, z3.Implies(IDX(t) < NR, R(IDX(t)) > t))),
                      z3.ForAll([t, j], z3.Implies(z3.And(j >= 0, j < IDX(t)), R(j) <= t)),
                      K >= 0, K <= NT, z3.ForAll([k], z3.Implies(z3.And(k >= 0, k < NT), (k < K) == (IDX(T(k)) < NR))))
        rows = VSeq(K, lambda k: VTuple([VInt(T(k)), VInt(R(IDX(T(k)))), VStr(z3.SubString(TXT, T(k), R(IDX(T(k))) - T(k)))]), "row")
        return defs, rows, R

    def ascending(S):
        a, b = z3.Int(fresh_name("a")), z3.Int(fresh_name("b"))
        e = lambda k: ops.int_term(S.elem(k))
        return z3.And(S.length >= 0, z3.ForAll([a], z3.Implies(z3.And(a >= 0, a < S.length), e(a) >= 0)),
                      z3.ForAll([a, b], z3.Implies(z3.And(a >= 0, a < b, b < S.length), e(a) < e(b))))

    def requires(c):
        ENTRY_EX[0] = c.ex
        A, B, _t = parts(c.args, c.entry)
        if A is None or B is None:
            return z3.BoolVal(False)
        return z3.And(ascending(A), ascending(B))

    def tag_of(args):
        ids = []
        for nm in (H["A"], H["B"], H["text"]):
            v = args[nm]
            ids.append(v.t.get_id() if hasattr(v, "t") else (v.length.get_id() if isinstance(v, VSeq) else getattr(v, "ref", 0)))
        return "_".join(str(i) for i in ids)

    def ctx_tag(c):
        return tag_of(c.args)

    def hyps(c):
        A, B, TXT = parts(c.args, c.entry)
        return spec(A, B, TXT, ctx_tag(c))[0]

    def returns(c):
        A, B, TXT = parts(c.args, c.entry)
        return spec(A, B, TXT, ctx_tag(c))[1]

    def lc_spec(lc):
        args = {nm: lc.entry.lookup(nm) for nm in H["params"]}
        A, B = lc.ex.as_seq(lc.entry, args[H["A"]]), lc.ex.as_seq(lc.entry, args[H["B"]])
        return spec(A, B, args[H["text"]].t, tag_of(args))

    def lst(lc, st=None):
        st = st or lc.st
        return lc.ex.as_seq(st, st.lookup(H["built"]))

    def inv_outer(lc):
        _d, rows, _R = lc_spec(lc)
        return seq_eq(lst(lc), take(rows, z3.If(lc.i < rows.length, lc.i, rows.length)))

    def inv_inner(lc):
        _d, _rows, R = lc_spec(lc)
        j = z3.Int(fresh_name("j"))
        return z3.And(seq_eq(lst(lc), lst(lc, lc.entry)), z3.ForAll([j], z3.Implies(z3.And(j >= 0, j < lc.i), R(j) <= ops.int_term(lc[H["t"]]))))
    shape = ("list", ("tuple", ("int", "int", "str")))
    loops = {H["outer"]: LoopSpec(inv=inv_outer, havoc=((H["built"], shape),), label="row-starts")}
    if H["inner"] is not None:
        loops[H["inner"]] = LoopSpec(inv=inv_inner, havoc=((H["built"], shape),), label="first-terminator-after")
    params = []
    for nm in H["params"]:
        params.append((nm, p_seq(NTp, TA) if nm == H["A"] else p_seq(NRp, RB) if nm == H["B"] else p_str() if nm == H["text"] else p_unk()))
    if "." in H["qual"] and not H["method"]:
        params = [("self!static", p_unk())] + params        # a @staticmethod is called through the instance: the engine passes it first
    helper = FnContract(target=f"{RTF}::{H['qual']}", params=params, requires=requires, hyps=hyps, returns=returns, raises=[], loops=loops,
                        note="row start / first row end pairing for ascending position lists of any length (symbolic)")
    caller = FnContract(target=f"{RTF}::_RtfParser._extract_tables", params=[("self", p_obj("_RtfParser", {})), ("text", p_str())], raises=[Raises("Exception", sub=True)],
                        modifies=("self",), note="hands the regex match positions (ascending: call-pre) to the pairing helper")
    return [helper, caller]


ENTRY_EX = [None]


def rtf_contracts(reg):
    from pyvc import solve as _solve
    if small_scope_refuter not in _solve.EXTRA_REFUTERS:
        _solve.EXTRA_REFUTERS.append(small_scope_refuter)
    return _rtf_contracts(reg)


def _rtf_contracts(reg):
    """_RtfParser._extract_tables, first half: every \\trowd (row start) is paired with the FIRST \\row terminator that ends
    strictly after it -- also when that terminator is immediately followed by the next \\trowd -- and row starts without a
    later terminator are dropped; pairs in source order; the row's source text is text[start:end].  Symbolic text, any
    number of rows.  (The grouping of rows into tables and the cell texts are checked BOUNDED: C13_bounded.w_rtf.)"""
    install_regex_models(reg, ("_RE_PAGE_BREAK", "_RE_TROWD", "_RE_ROW"))
    L = rtf_loops()
    if L is None or not L["built"]:
        H = rtf_helper_loop()
        if H is not None:
            try:
                return rtf_helper_contracts(reg, H)
            except Exception:  # noqa  (shape recognised only partly: reported as unknown by model_invariants)
                return []
        return []      # shape not recognised: model_invariants reports it as `unknown` (the native RTF search decides)
    rxT, rxR = z3.Const("regex!_RE_TROWD", REGEX), z3.Const("regex!_RE_ROW", REGEX)
    TXT = z3.String("text")
    NT, NR = RX_N(rxT, TXT), RX_N(rxR, TXT)
    T = lambda k: M_START(RX_AT(rxT, TXT, k))
    R = lambda k: M_END(RX_AT(rxR, TXT, k))
    IDX = z3.Function("first_row_end_after", I, I)
    K = z3.Int("paired_row_starts")

    def spec_defs():
        t, j, k = z3.Int("t!d"), z3.Int("j!d"), z3.Int("k!d")
        return z3.And(
            # IDX(t): index of the first \row end > t (NR when there is none)
            z3.ForAll([t], z3.And(IDX(t) >= 0, IDX(t) <= NR, z3.Implies(IDX(t) < NR, R(IDX(t)) > t))),
            z3.ForAll([t, j], z3.Implies(z3.And(j >= 0, j < IDX(t)), R(j) <= t)),
            # K: the row starts that have a later terminator (a prefix, because positions ascend)
            K >= 0, K <= NT, z3.ForAll([k], z3.Implies(z3.And(k >= 0, k < NT), (k < K) == (IDX(T(k)) < NR))))

    def spec_rows():
        return VSeq(K, lambda k: VTuple([VInt(T(k)), VInt(R(IDX(T(k)))),
                                         VStr(z3.SubString(TXT, T(k), R(IDX(T(k))) - T(k)))]), "row")

    def lst(lc, st=None):
        st = st or lc.st
        return lc.ex.as_seq(st, st.lookup(L["built"]))

    def inv_outer(lc):
        i = lc.i
        return seq_eq(lst(lc), take(spec_rows(), z3.If(i < K, i, K)))

    def inv_inner(lc):
        j = z3.Int(fresh_name("j"))
        t = ops.int_term(lc[L["t"]])
        return z3.And(seq_eq(lst(lc), lst(lc, lc.entry)),
                      z3.ForAll([j], z3.Implies(z3.And(j >= 0, j < lc.i), R(j) <= t)))

    shape = ("list", ("tuple", ("int", "int", "str")))
    loops = {L["outer"]: LoopSpec(inv=inv_outer, havoc=((L["built"], shape),), label="row-starts")}
    if L["inner"] is not None:
        loops[L["inner"]] = LoopSpec(inv=inv_inner, havoc=((L["built"], shape),), label="first-terminator-after")
    return [FnContract(
        target=f"{RTF}::_RtfParser._extract_tables", params=[("self", p_unk()), ("text", p_str())],
        hyps=lambda c: spec_defs(),
        raises=[Raises("Exception", sub=True)], loops=loops, modifies=("self",),
        note="row start/end pairing for symbolic text; regex matches as assumed ascending non-overlapping positions")]


# ============================================================ ODS typed cell values ==
ODSX = "sharepoint2text/parsing/extractors/open_office/ods_extractor.py"
ODS_OFFICE = "{urn:oasis:names:tc:opendocument:xmlns:office:1.0}"
# the lexical space of xsd:double (ODF office:value): optional sign, digits with or without a fraction point, optional exponent
# (LibreOffice writes large / small magnitudes as 1E+020, 5E-05); one literal per combination of {sign, point, exponent, integral}
ODS_NUM_LITERALS = ("3", "2.5", "0", "-4.0", "1250.75", "0.5", "1E+020", "5E-05", "1e3", "-25E-2", "1.5E+3", "2.5e-1", "+7", "12.")
ODS_CELLS = {}       # term id of the cell -> (kind, value V)


def p_ods_cell():
    """a table:table-cell without text children, one alternative per office:value-type of the statement's typed values:
    date / time with an ARBITRARY non-empty attribute text, boolean and numeric (float, currency, percentage) literals"""
    def mk(ex, st, name):
        alts = []

        def cell(kind, vtype, attr, val, cond):
            n = ET.CNode("{urn:oasis:names:tc:opendocument:xmlns:table:1.0}table-cell",
                         attrib={ODS_OFFICE + "value-type": VStr(vtype), ODS_OFFICE + attr: val}, name=f"{name}_{kind}_{len(alts)}")
            ODS_CELLS[n.term.get_id()] = (kind, val)
            alts.append((z3.And(cond) if cond else None, n.v))
        for kind, attr in (("date", "date-value"), ("time", "time-value")):
            v = VStr(z3.String(f"{name}_{kind}_text"))
            cell(kind, kind, attr, v, [z3.Length(v.t) > 0])
        for lit in ("true", "false"):
            cell("boolean", "boolean", "boolean-value", VStr(lit), [])
        for vtype in ("float", "currency", "percentage"):
            for lit in ODS_NUM_LITERALS:
                cell("number", vtype, "value", VStr(lit), [])
        return alts
    return Maker(mk, desc="ods cell: date | time (symbolic text) | boolean | float / currency / percentage literals")


def ods_value_contracts(reg):
    def post(c):
        kind, val = ODS_CELLS[c.args["cell"].t.get_id()]
        r = c.result
        if not isinstance(r, VTuple) or len(r.items) != 2:
            return z3.BoolVal(False)
        typed = r.items[0]
        if kind in ("date", "time"):
            # the ISO text stored in the file, unchanged (a date-time at midnight stays a date-time)
            return typed.t == val.t if isinstance(typed, VStr) else z3.BoolVal(False)
        if kind == "boolean":
            return typed.t == z3.BoolVal(val.const() == "true") if isinstance(typed, VBool) else z3.BoolVal(False)
        from fractions import Fraction
        fr = Fraction(val.const())
        if fr.denominator == 1:
            return ops.int_term(typed) == int(fr) if isinstance(typed, VInt) and not isinstance(typed, VBool) else z3.BoolVal(False)
        return typed.t == z3.RealVal(f"{fr.numerator}/{fr.denominator}") if isinstance(typed, VReal) else z3.BoolVal(False)
    return [FnContract(target=f"{ODSX}::_extract_cell_value", params=[("cell", p_ods_cell())],
                       ensures=[("typed-value-per-office-value-type", post)], raises=[], inline=True,
                       note="date / time -> the stored ISO text unchanged; boolean -> bool; numbers -> int when integral else float")]


def _guarded(f, reg):
    try:
        return f(reg)
    except Exception:  # noqa  (a contract that cannot be set up claims nothing; the bounded walkers stay)
        return []


SHAPE_GATED = ("xlsx_extractor.py::_find_last_data_row", "xlsx_extractor.py::_find_last_data_column", ".iterate_tables")
LOCK_OPTIONAL_FUNCTIONS = SHAPE_GATED


def _gate(cs, reg):
    """Round-7 contracts whose invariants are tied to a loop shape are COMPLEMENTARY to the bounded walkers (w_xlsx, w_iter), which stay and
    stay locked.  Such a contract is kept only while it is decided on the present code: every obligation proved (counted as discharged)
    or some obligation refuted (a violation like any other).  When an edit takes the function out of the shape (solver unknown /
    out-of-subset / engine limitation) the contract claims nothing -- no UNDECIDED noise; the bounded walker and the native replay decide."""
    import os
    from pyvc import verify
    from pyvc.exctypes import Universe
    keep = []
    for c in cs:
        if not any(k in c.target for k in SHAPE_GATED):
            keep.append(c)
            continue
        try:
            probe = Registry()
            probe.__dict__.update({k: (dict(v) if isinstance(v, dict) else v) for k, v in reg.__dict__.items()})
            for c2 in cs:
                probe.fn.setdefault(c2.target, c2)
            rep = verify.run_contract("C13", c, probe, Universe(loader.REPO), executor_cls=C13Executor, timeout_ms=5000)
            sts = [o["status"] for o in rep.obligations]
            if rep.error is None and not rep.out_of_subset and sts and ("refuted" in sts or all(x == "proved" for x in sts)):
                keep.append(c)
        except Exception:  # noqa
            pass
    return keep


def contracts(reg):
    from contracts.symlist import register_over
    register_over()
    ET.install(reg)
    out = []
    out += dim_contracts(reg)
    out += value_contracts(reg)
    out += _gate(_guarded(xlsx_trim_contracts, reg) + _guarded(iterate_tables_contracts, reg), reg)
    out += pptx_contracts(reg)
    out += _guarded(docx_contracts, reg)
    out += rtf_contracts(reg)
    out += ods_value_contracts(reg)
    return out


# ================================================================= (b) bounded ==
def _walker_job(name, k=0, n=1):
    def job(repo, tier):
        import traceback
        from contracts import C13_bounded as Bm
        try:
            Bm.PART = (k, n)
            return getattr(Bm, name)(repo, tier)
        except Exception:  # noqa
            return {"obligations": [], "errors": [{"function": f"C13 bounded walker {name}", "error": traceback.format_exc()[-1500:]}]}
        finally:
            Bm.PART = (0, 1)
    job.__name__ = f"{name}_{k}of{n}"
    return job


def model_invariants(repo, tier):
    """facts about the real source that the assumed models rely on (ground, re-read each run)"""
    from pyvc.flow import ground_obligation
    from contracts import C13_bounded as Bm
    obls = []
    L = rtf_loops(repo) or rtf_helper_loop(repo)
    obls.append(ground_obligation("C13/rtf_extractor.py::_RtfParser._extract_tables/shape#row-matching-loop-recognised", bool(L and L["built"]),
                                  "loop over the \\trowd match positions appending (start, end, text) rows" if L else "not found: the symbolic row-matching contract is not applied",
                                  RTF, kind="shape", definite=False))
    return {"obligations": obls}


# ============================================================ call sites (dataflow) ==
def _flow_site(mod, producer, sink_kw):
    """Does the value produced by the call `producer(...)` reach the keyword argument `sink_kw=` of a constructor call (or an
    `<obj>.<sink_kw>.append(...)`) unfiltered?  Allowed on the way: binding to a name (first element of a tuple target),
    `if v:` / `if v is not None:` guards on the value itself, `L.append(v)` into a list that was created empty and is otherwise
    only read or element-attribute-assigned.  -> (ok, detail, function).  A sound under-approximation of "flows unfiltered":
    anything else is reported as not recognised (UNDECIDED, never a violation by itself)."""
    found = []
    for q, fnode in mod.functions.items():
        own = [n for n in ast.walk(fnode) if isinstance(n, ast.Call) and (getattr(n.func, "id", None) == producer or getattr(n.func, "attr", None) == producer)]
        nested = {id(n) for q2, f2 in mod.functions.items() if q2.startswith(q + ".") for n in ast.walk(f2)}
        own = [n for n in own if id(n) not in nested]
        if own:
            found.append((q, fnode, own))
    if len(found) != 1 or len(found[0][2]) != 1:
        return False, f"expected exactly one call of {producer}, found {[(q, len(c)) for q, _f, c in found]}", None
    q, fnode, (call,) = found[0]
    parent = {}
    for n in ast.walk(fnode):
        for c in ast.iter_child_nodes(n):
            parent[id(c)] = n

    def stmt_of(n):
        while not isinstance(n, ast.stmt):
            n = parent[id(n)]
        return n

    def ancestors(n):
        out = []
        while id(n) in parent:
            n = parent[id(n)]
            out.append(n)
        return out
    st0 = stmt_of(call)
    if not (isinstance(st0, ast.Assign) and st0.value is call and len(st0.targets) == 1):
        return False, f"{producer}(...) is not bound by a plain assignment (line {call.lineno})", q
    tgt = st0.targets[0]
    if isinstance(tgt, ast.Tuple) and tgt.elts and isinstance(tgt.elts[0], ast.Name):
        vals = {tgt.elts[0].id}
    elif isinstance(tgt, ast.Name):
        vals = {tgt.id}
    else:
        return False, f"unrecognised assignment target at line {st0.lineno}", q
    # aliases: x = v ; x = v[0] (the producer's result tuple, first component) ; (a, b) = (v[0], v[1])
    binds = {st0}
    changed = True
    while changed:
        changed = False
        for n in ast.walk(fnode):
            if not isinstance(n, ast.Assign) or n in binds or len(n.targets) != 1:
                continue
            pairs = []
            if isinstance(n.targets[0], ast.Name):
                pairs = [(n.targets[0], n.value)]
            elif isinstance(n.targets[0], ast.Tuple) and isinstance(n.value, ast.Tuple) and len(n.targets[0].elts) == len(n.value.elts):
                pairs = [(t, v_) for t, v_ in zip(n.targets[0].elts, n.value.elts) if isinstance(t, ast.Name)]
            for t, v_ in pairs:
                src = v_.id if isinstance(v_, ast.Name) else (v_.value.id if isinstance(v_, ast.Subscript) and isinstance(v_.value, ast.Name)
                                                              and isinstance(v_.slice, ast.Constant) and v_.slice.value == 0 and isinstance(tgt, ast.Name) else None)
                if src in vals and t.id not in vals:
                    vals.add(t.id)
                    binds.add(n)
                    changed = True

    def is_val(e):
        return isinstance(e, ast.Name) and e.id in vals

    def guard_ok(test):
        """a guard on the value itself: v / v is not None / len(v) > 0 / len(v) != 0 / len(v) >= 1"""
        if is_val(test):
            return True
        if isinstance(test, ast.Compare) and len(test.ops) == 1:
            l, o, r = test.left, test.ops[0], test.comparators[0]
            if is_val(l) and isinstance(o, ast.IsNot) and isinstance(r, ast.Constant) and r.value is None:
                return True
            if isinstance(l, ast.Call) and getattr(l.func, "id", None) == "len" and len(l.args) == 1 and is_val(l.args[0]) and isinstance(r, ast.Constant):
                return (isinstance(o, (ast.Gt, ast.NotEq)) and r.value == 0) or (isinstance(o, ast.GtE) and r.value == 1)
        return False

    def neg_guard_ok(test):
        """`not v` / `v is None` / len(v) == 0: the branch that is left when the value is empty"""
        if isinstance(test, ast.UnaryOp) and isinstance(test.op, ast.Not):
            return guard_ok(test.operand)
        if isinstance(test, ast.Compare) and len(test.ops) == 1:
            l, o, r = test.left, test.ops[0], test.comparators[0]
            if is_val(l) and isinstance(o, ast.Is) and isinstance(r, ast.Constant) and r.value is None:
                return True
            if isinstance(l, ast.Call) and getattr(l.func, "id", None) == "len" and len(l.args) == 1 and is_val(l.args[0]) and isinstance(r, ast.Constant):
                return (isinstance(o, ast.Eq) and r.value == 0) or (isinstance(o, ast.Lt) and r.value == 1)
        return False

    def extra_guards(node):
        base = {id(a) for a in ancestors(st0)}
        bad = []
        prev = node
        for a in ancestors(node):
            if id(a) in base:
                break
            if isinstance(a, ast.If):
                in_body = any(prev is x for x in a.body)
                if not ((in_body and guard_ok(a.test)) or (not in_body and neg_guard_ok(a.test))):
                    bad.append(f"line {a.lineno}: guarded by `{ast.unparse(a.test)}`")
            elif isinstance(a, (ast.While, ast.For)) or (isinstance(a, ast.Try) and not any(prev is x for x in a.body)):
                bad.append(f"line {a.lineno}: inside {type(a).__name__}")
            prev = a
        # early exits (continue / return / break / raise) on the way from the producer to the use, in EVERY block entered on
        # that way, that depend on something else than the value being empty (e.g. a "seen" set, a size or an index test)
        def exits(x):
            inner_loops = [l for l in ast.walk(x) if isinstance(l, (ast.For, ast.While)) and l is not x]
            inside = {id(y) for l in inner_loops for y in ast.walk(l) if isinstance(y, (ast.Continue, ast.Break))}
            return any(isinstance(y, (ast.Return, ast.Raise)) or (isinstance(y, (ast.Continue, ast.Break)) and id(y) not in inside) for y in ast.walk(x))
        def risky(x):
            return exits(x) and not (isinstance(x, ast.If) and neg_guard_ok(x.test) and not any(exits(y) for y in x.orelse))

        def note(x):
            bad.append(f"line {x.lineno}: early exit before the value is handed on (`{ast.unparse(x).splitlines()[0][:60]}`)")
        holds_st0 = lambda x: any(y is st0 for y in ast.walk(x))
        chain = [stmt_of(node)] + [a for a in ancestors(stmt_of(node))]
        common = None
        for child, par in zip(chain, chain[1:]):
            for field in ("body", "orelse", "finalbody"):
                seq = getattr(par, field, None)
                if not (isinstance(seq, list) and any(x is child for x in seq)):
                    continue
                start = 0
                hit = [i for i, x in enumerate(seq) if holds_st0(x)]
                if hit:
                    start, common = hit[0] + 1, seq[hit[0]]
                for x in seq[start:]:
                    if x is child:
                        break
                    if risky(x):
                        note(x)
            if common is not None:
                break
        # statements that follow the producer inside the nested blocks of the statement that holds it
        if common is not None and common is not st0:
            up = [st0] + ancestors(st0)
            for child, par in zip(up, up[1:]):
                for field in ("body", "orelse", "finalbody"):
                    seq = getattr(par, field, None)
                    if isinstance(seq, list) and any(x is child for x in seq):
                        i0 = [i for i, x in enumerate(seq) if x is child][0]
                        for x in seq[i0 + 1:]:
                            if any(y is stmt_of(node) for y in ast.walk(x)):
                                break
                            if risky(x):
                                note(x)
                if par is common:
                    break
        return bad

    def sink_uses(names):
        return [k for n in ast.walk(fnode) if isinstance(n, ast.Call) for k in n.keywords if k.arg == sink_kw and isinstance(k.value, ast.Name) and k.value.id in names]

    def adds_of(names):
        """statements that add exactly the value to a list: L.append(v) | L += [v] | L.extend([v]) | L = L + [v] -> [(node, receiver expr)]"""
        out = []
        one = lambda e: isinstance(e, ast.List) and len(e.elts) == 1 and isinstance(e.elts[0], ast.Name) and e.elts[0].id in names
        for n in ast.walk(fnode):
            if isinstance(n, ast.Call) and isinstance(n.func, ast.Attribute) and len(n.args) == 1 and not n.keywords:
                if n.func.attr == "append" and isinstance(n.args[0], ast.Name) and n.args[0].id in names:
                    out.append((n, n.func.value))
                elif n.func.attr == "extend" and one(n.args[0]):
                    out.append((n, n.func.value))
            elif isinstance(n, ast.AugAssign) and isinstance(n.op, ast.Add) and one(n.value):
                out.append((n, n.target))
            elif isinstance(n, ast.Assign) and len(n.targets) == 1 and isinstance(n.value, ast.BinOp) and isinstance(n.value.op, ast.Add) and one(n.value.right) \
                    and ast.unparse(n.value.left) == ast.unparse(n.targets[0]):
                out.append((n, n.targets[0]))
        return out

    def mutated(name, allowed):
        probs = []
        for n in ast.walk(fnode):
            if n is allowed or n in binds:
                continue
            if isinstance(n, (ast.Assign, ast.AnnAssign, ast.AugAssign)):
                tg = n.targets if isinstance(n, ast.Assign) else [n.target]
                for t in tg:
                    if isinstance(t, ast.Name) and t.id == name:
                        val = n.value
                        if not (isinstance(n, (ast.Assign, ast.AnnAssign)) and isinstance(val, ast.List) and not val.elts):
                            probs.append(f"line {n.lineno}: {name} re-bound")
                    if isinstance(t, ast.Subscript) and isinstance(t.value, ast.Name) and t.value.id == name:
                        probs.append(f"line {n.lineno}: item of {name} replaced")
            elif isinstance(n, ast.Delete):
                for t in n.targets:
                    if name in {x.id for x in ast.walk(t) if isinstance(x, ast.Name)}:
                        probs.append(f"line {n.lineno}: del on {name}")
            elif isinstance(n, ast.Call) and isinstance(n.func, ast.Attribute) and isinstance(n.func.value, ast.Name) and n.func.value.id == name \
                    and n.func.attr in ("pop", "remove", "clear", "insert", "sort", "reverse", "extend", "append", "__delitem__"):
                probs.append(f"line {n.lineno}: {name}.{n.func.attr}()")
        return probs
    # direct: sink_kw=v
    if sink_uses(vals):
        bad = [b for k in sink_uses(vals) for b in extra_guards(k.value)]
        for v in vals:
            bad += mutated(v, None)
        return (not bad), ("; ".join(map(str, bad)) or f"{producer} -> {sorted(vals)} -> {sink_kw}="), q
    adds = adds_of(vals)
    if len(adds) != 1:
        return False, f"value {sorted(vals)} of {producer} is neither passed as {sink_kw}= nor added to a list exactly once", q
    app, recv = adds[0]
    bad = extra_guards(app)
    for v in vals:
        bad += [p_ for p_ in mutated(v, None)]
    if isinstance(recv, ast.Attribute) and recv.attr == sink_kw:
        return (not bad), ("; ".join(map(str, bad)) or f"{producer} -> {sorted(vals)} -> .{sink_kw} (added)"), q
    if isinstance(recv, ast.Name):
        L = recv.id
        if not sink_uses({L}):
            return False, f"list {L} does not reach {sink_kw}=", q
        bad += mutated(L, app)
        return (not bad), ("; ".join(map(str, bad)) or f"{producer} -> {sorted(vals)} -> {L} (added) -> {sink_kw}="), q
    return False, "unrecognised receiver of the list addition", q


def call_sites(repo, tier):
    """Every walker / sheet builder verified above hands its result to the content object unfiltered (AST dataflow).  A site
    that is not recognised is UNDECIDED; the native replayer then runs the public reader end to end."""
    from pyvc.flow import ground_obligation
    from contracts import C13_bounded as Bm
    sites = [(Bm.DOCX, "_extract_tables_from_context", "tables"), (Bm.ODT, "_extract_tables", "tables"), (Bm.ODP, "_extract_table", "tables"),
             (Bm.PPTX, "_extract_table_from_graphic_frame", "tables"), (Bm.EPUB, "get_tables", "tables"),
             (Bm.XLSX, "_read_content_from_workbook", "sheets"), (Bm.XLS, "_read_content", "sheets"), (Bm.ODS, "_extract_sheet", "sheets"),
             # the units that carry the tables reach the content object (slides, chapters)
             (Bm.PPTX, "_process_slide_from_context", "slides"), (Bm.ODP, "_extract_slide", "slides"), (Bm.EPUB, "_extract_chapter", "chapters")]
    obls, fns = [], []
    for rel, producer, kw in sites:
        m = loader.module(rel, repo)
        short = rel.split("/")[-1]
        if short == "xlsx_extractor.py":
            # two readers call it (_read_content and read_xlsx): each is checked
            res = []
            for q, fnode in m.functions.items():
                if any(isinstance(n, ast.Call) and getattr(n.func, "id", None) == producer for n in ast.walk(fnode)) and "." not in q:
                    sub = type("M", (), {"functions": {q: fnode}})()
                    res.append(_flow_site(sub, producer, kw if q.startswith("read_") else "sheets") if q.startswith("read_") else (True, "helper", q))
            ok = bool(res) and all(r[0] for r in res)
            detail, q = "; ".join(r[1] for r in res), "read_xlsx"
        else:
            ok, detail, q = _flow_site(m, producer, kw)
        obls.append(ground_obligation(f"C13/{short}::{q or producer}/call-site#{producer}-result-reaches-{kw}-unfiltered", ok, detail, rel, definite=False))
        if q and q in m.functions:
            fns.append(dict(m.fn_info(q), obligations=1))
    # html / rtf: the extractor object's own list is passed on
    for rel, q, expr in ((Bm.HTML, "read_html", "extractor.tables"), (Bm.RTF, "_RtfParser.parse", "self.tables")):
        m = loader.module(rel, repo)
        f = m.functions.get(q)
        vals = [ast.unparse(k.value) for n in ast.walk(f) if isinstance(n, ast.Call) for k in n.keywords if k.arg == "tables"] if f is not None else []
        calls = [n for n in ast.walk(f) if isinstance(n, ast.Call) and getattr(n.func, "attr", None) in ("extract", "_extract_tables")] if f is not None else []
        obls.append(ground_obligation(f"C13/{rel.split('/')[-1]}::{q}/call-site#extractor-tables-reach-the-content-object", bool(vals) and all(v == expr for v in vals) and len(calls) >= 1,
                                      f"tables= {vals}; extraction calls: {len(calls)}", rel, definite=False))
        if f is not None:
            fns.append(dict(m.fn_info(q), obligations=1))
    return {"obligations": obls, "functions": fns}


SPLIT = {"w_xlsx": 5, "w_epub": 2, "w_html": 2, "w_xls": 2}     # long walkers are split over the process pool (same obligation ids, merged)
EXTRA = [_walker_job(w, k, SPLIT.get(w, 1)) for w in ("w_xlsx", "w_epub", "w_html", "w_xls", "w_ods", "w_docx", "w_odt", "w_odp", "w_odp_slide", "w_pptx", "w_iter", "w_rtf")
         for k in range(SPLIT.get(w, 1))] + [model_invariants, call_sites]


def known_findings(kf, violations, repo, tier):
    """Recorded genuine defects.  Every witness is replayed natively (one subprocess for all); a finding that still
    reproduces prints KNOWN-FINDING.  A violated obligation is covered only if (a) symbolic obligation: a reproducing
    finding lists it; (b) BOUNDED obligation: EVERY failing shape has a feature excluded by a reproducing finding that
    lists the obligation -- any failing shape outside the recorded exclusions stays a new violation (exit 1), and the
    obligation's witness is moved to the smallest such shape."""
    import json
    import os
    import subprocess
    root = os.path.dirname(os.path.dirname(os.path.abspath(__file__)))
    batch = [{"obligation": f["obligation"], "known_finding": f["id"], "witness": f.get("witness")} for f in kf]
    try:
        p = subprocess.run(["/venv/bin/python", os.path.join(root, "replay", "run.py")], input=json.dumps({"property": "C13", "batch": batch, "repo": repo}),
                           capture_output=True, text=True, timeout=900, env=dict(os.environ, VERIF_REPO=repo))
        lines = [l for l in p.stdout.splitlines() if l.startswith("{")]
        res = json.loads(lines[-1]).get("results", []) if lines else []
    except Exception as e:  # noqa
        res = []
    res = res + [{"reproduced": False, "note": "replay failed"}] * (len(kf) - len(res))
    still = {f["id"]: bool(r.get("reproduced")) for f, r in zip(kf, res)}
    vio = {v["id"]: v for v in violations}
    covered_by = {}
    for oid, o in vio.items():
        fs = [f for f in kf if oid in f.get("covers", [f["obligation"]]) and still[f["id"]]]
        if not fs:
            continue
        if o.get("bounded"):
            excl = set()
            for f in fs:
                excl |= set(f.get("exclusion", []))
            outside = [x for x in o.get("failing", []) if not (set(x["features"]) & excl)]
            if outside:
                o["witness"] = outside[0]
                o["reason"] = f"{len(outside)} failing shape(s) outside the recorded exclusions {sorted(excl)}; smallest: {json.dumps(outside[0]['shape'])}"
                continue
        covered_by[oid] = fs[0]["id"]
    out = []
    for f, r in zip(kf, res):
        out.append({"finding": f["id"], "still_fails": still[f["id"]], "line": f"{f['id']}: {f['what']}",
                    "covers": [oid for oid, fid in covered_by.items() if fid == f["id"]],
                    "exclusion": f.get("exclusion", []), "witness_replay": str(r.get("detail") or r.get("observed") or r.get("note", ""))[:400]})
    return out


TRUSTED = ["statement-level grid specification (contracts/C13.py xls_table_spec / pptx grid, contracts/C13_bounded.py expected_grids / expected_sheet)",
           "the mapping abstract shape -> element tree / event sequence / workbook of contracts/C13_bounded.py (validated natively: replay/C13.py builds real files from the same shapes)",
           "parsers (ElementTree, html.parser, openpyxl, xlrd) present the source faithfully"]
ASSUMED_MODELS = ["xml.etree.ElementTree.Element (contracts/etree_model.py): tag, text, get, find, findall (child steps), iter (pre-order), list()/for/len, next(iter, default)",
                  "dict with string keys: keys() in insertion order, get(k)",
                  "paragraph-text helpers (C02): docx _collect_text_from_element, odf _get_text_recursive, pptx _extract_text_from_paragraphs return the text of the element",
                  "str.strip (idempotent), re '\\s+' -> ' ' , ' '.join(s.split()) = strip + collapse whitespace runs",
                  "memo caches keyed by id(node) (html _node_cache): a hit equals a recomputation",
                  "html.parser.HTMLParser.__init__ does not touch subclass fields; events of a well-formed document are start/data/end in document order",
                  "openpyxl Worksheet.iter_rows(values_only=True): the rows of cell values; xlrd Book.sheets()/Sheet.nrows/ncols/cell(r,c)/Cell.ctype/value, XL_CELL_* = 0..6, xldate_as_tuple",
                  "datetime/date/time.isoformat() is the ISO 8601 text; str(timedelta) is the duration's text",
                  "html.parser.HTMLParser.feed: handler calls in document order; a self-closed element goes to handle_startendtag, whose inherited default is "
                  "handle_starttag + handle_endtag (contracts/C13_bounded.py::feed_events)",
                  "re.Pattern.finditer: non-overlapping non-empty matches in ascending order (symbolic text); on CONCRETE strings re / bisect / str methods are "
                  "evaluated by the real library; bisect_left/right on an ascending list = partition point",
                  "text renderers _format_sheet_as_text / _format_table_as_text, ods _extract_annotations / _extract_images (not part of the grid)"]
ASSUMPTIONS = ["PY-COMP: a comprehension / generator expression with a total effect-free element over a sequence is the element-wise image",
               "PY-GEN-SEQ: the values a generator yields, in order, are what a consumer of iterate_tables() receives (ghost sequence c13!yielded; "
               "`yield from seq` yields every element of seq in order); a fresh TableData(data=g) stands for the stored grid g",
               "PY-ANY: any(it) / all(it) over a sequence of bools = exists / for all elements; range(a, b, -1) = a, a-1, .., b+1; bool(v) of an abstract cell value "
               "is an unconstrained predicate (independent of the cell being empty: 0 / False are data, ' ' is not)",
               "PY-MAX: max(it, default=d) is d for an empty iterable, else an upper bound that is attained",
               "PY-FLOAT-REAL (finite floats as reals; float('<literal>') exact)", "TREE-FINITE",
               "ISO text = ISO 8601 / RFC 3339 profile (date and time separated by 'T' or a space)",
               "XL_CELL_BLANK cells do not occur (the reader opens workbooks without formatting_info)",
               "sheet extent = used range (trailing empty rows / columns are not part of the source table)",
               "cell text excludes the content of a table nested in the cell (that table is a table of its own: DESIGN 3 C13)",
               "HTML / EPUB cell rule: block children separated by white space, inline pieces run together, white space normalised",
               "NOT decided: RTF ragged rows (padded by design) and nested RTF tables, merged / covered cells, ODS repeat counts > 100 (C12), row-group wrappers other than header rows, "
               "docx tables inside content controls or text boxes, PDF tables (heuristic by design)"]
BOUNDED = ["walkers docx _extract_tables_from_context, odt _extract_tables, odp _extract_table, pptx _extract_table_from_graphic_frame, html _process_node(+_extract_table,_find_nodes), "
           "epub table state machine: every document of the grammar in contracts/C13_bounded.py (1..2 tables, <= 2 x 2 ragged, cells with 0..2 paragraphs, one nested table of depth 1, "
           "header-rows wrapper), paragraph texts symbolic",
           "sheet builders xlsx _read_content_from_workbook(+_read_sheet_data,_is_table_name_row; its callees _is_cell_non_empty, _is_meaningful_value, "
           "_find_last_data_row, _find_last_data_column are ALSO under a discharged symbolic contract since round 7), xls _read_content + XlsSheet.get_table, ods _extract_sheet: sheets of 1..3 rows x 1..2 columns "
           "over the cell kinds empty/text/int/float/bool/date, duplicate and empty first-row names; values symbolic (xls/xlsx first-row names and ods typed literals concrete)",
           "iterate_tables of every content class: 0..3 stored tables on 0..3 units (since round 7 the classes that store their tables in one list -- doc, docx, html, "
           "odt, rtf, xls, xlsx, ods -- are ALSO under a discharged contract for any number of tables; the unit-structured ones pptx / odp / pdf / epub only here)",
           "rtf _RtfParser._extract_tables (+ _extract_table_cells, _save_table, _strip_rtf_simple, _remove_ignorable_groups): concrete RTF sources -- rectangular tables "
           "up to 3 x 2, empty / two-paragraph cells, two tables separated by running text, rows newline-separated or back to back (quick: 2 layouts, thorough: 4)",
           "html / epub documents are fed as parser events through the real handlers (_HtmlTreeBuilder, _XhtmlTextExtractor), including empty cells in self-closed form"]

REPLAY_UNKNOWN = True    # undecided / out-of-subset items are searched natively (replay) before being reported UNDECIDED
# Loop-invariant obligations exist only while the function has the loop: when it is moved into a helper (which then carries them under
# its own contract, e.g. the RTF pairing loop) or becomes a comprehension, they may disappear as long as the function still generates
# its other obligations (postcondition / raises / bounded walker); an unrecognised loop shape is reported by a `shape#` obligation.
LOCK_OPTIONAL_KINDS = ("inv-init", "inv-preserve")
