"""C11 -- locals of validate_zipfile bound by ROLE from the real AST.

The loop invariant of `validate_zipfile` talks about "the running total of the uncompressed sizes" and "the running total of
the compressed sizes".  Which local holds which total is read off the data flow of the real function: an accumulator is a name
that the entry loop updates additively (`x += e`, `x = x + e`, `x = e + x`, `x = sum((x, e))`), and its role is the ZipInfo field
its increments derive from (`file_size` / `compress_size`), followed through local assignments, tuple unpacking, walrus
bindings, conversions (`int(...)`, `x or 0`), `getattr(info, "<field>", d)` and the return values of module-local helpers.
Nothing here is trusted: the invariant built from the binding is proved by the solver against the real code; a wrong or
missing binding can only make the proof fail (`Unsupported` -> out-of-subset -> native replay decides).
"""
import ast

FIELDS = ("file_size", "compress_size")


def _fn_stmts(fn):
    """All nodes of a function body, nested function / lambda / class bodies excluded."""
    out, stack = [], list(fn.body)
    while stack:
        n = stack.pop()
        out.append(n)
        for ch in ast.iter_child_nodes(n):
            if isinstance(ch, (ast.FunctionDef, ast.AsyncFunctionDef, ast.Lambda, ast.ClassDef)):
                continue
            stack.append(ch)
    return out


def _bindings(fn):
    """name -> [(value expr, index or None)] for every binding of a local in `fn` (index: position in a tuple unpacking)."""
    b = {}

    def bind(target, value, idx=None):
        if isinstance(target, ast.Name):
            b.setdefault(target.id, []).append((value, idx))
        elif isinstance(target, (ast.Tuple, ast.List)) and idx is None:
            for k, t in enumerate(target.elts):
                if isinstance(value, (ast.Tuple, ast.List)) and len(value.elts) == len(target.elts) \
                        and not any(isinstance(e, ast.Starred) for e in value.elts):
                    bind(t, value.elts[k])
                else:
                    bind(t, value, k)
    for n in _fn_stmts(fn):
        if isinstance(n, ast.Assign):
            for t in n.targets:
                bind(t, n.value)
        elif isinstance(n, ast.AnnAssign) and n.value is not None:
            bind(n.target, n.value)
        elif isinstance(n, ast.NamedExpr):
            bind(n.target, n.value)
    return b


class Deriver:
    """fields(e): the set of ZipInfo field names the value of expression `e` is computed from (None = something unrecognised)."""

    def __init__(self, module, fn):
        self.module, self.fn = module, fn
        self.bind = {id(fn): _bindings(fn)}
        self.params = {id(fn): {a.arg for a in fn.args.args + fn.args.kwonlyargs + fn.args.posonlyargs}}

    def _scope(self, fn):
        if id(fn) not in self.bind:
            self.bind[id(fn)] = _bindings(fn)
            self.params[id(fn)] = {a.arg for a in fn.args.args + fn.args.kwonlyargs + fn.args.posonlyargs}
        return self.bind[id(fn)]

    def fields(self, e, fn=None, idx=None, depth=0, seen=frozenset(), skip=frozenset()):
        fn = fn or self.fn
        if depth > 40:
            return None
        if isinstance(e, ast.Constant):
            return set()
        if isinstance(e, ast.Attribute):
            return {e.attr} if e.attr in FIELDS else None
        if isinstance(e, ast.Name):
            if (id(fn), e.id) in seen:
                return set()
            bs = [x for x in self._scope(fn).get(e.id, []) if id(x[0]) not in skip]
            if not bs:
                return None          # a parameter, a loop target, a global: not a size
            out = set()
            for (v, k) in bs:
                r = self.fields(v, fn, k, depth + 1, seen | {(id(fn), e.id)}, skip)
                if r is None:
                    return None
                out |= r
            return out
        if isinstance(e, ast.NamedExpr):
            return self.fields(e.value, fn, idx, depth + 1, seen, skip)
        if isinstance(e, ast.BoolOp):
            return self._union(e.values, fn, depth, seen, skip)
        if isinstance(e, ast.BinOp):
            return self._union([e.left, e.right], fn, depth, seen, skip)
        if isinstance(e, ast.UnaryOp):
            return self.fields(e.operand, fn, None, depth + 1, seen, skip)
        if isinstance(e, ast.IfExp):
            return self._union([e.body, e.orelse], fn, depth, seen, skip)
        if isinstance(e, (ast.Tuple, ast.List)):
            if idx is not None and idx < len(e.elts):
                return self.fields(e.elts[idx], fn, None, depth + 1, seen, skip)
            return self._union(e.elts, fn, depth, seen, skip)
        if isinstance(e, ast.Subscript) and isinstance(e.slice, ast.Constant) and isinstance(e.slice.value, int):
            return self.fields(e.value, fn, e.slice.value, depth + 1, seen, skip)
        if isinstance(e, ast.Call):
            f = e.func
            if isinstance(f, ast.Name) and f.id == "getattr" and len(e.args) >= 2 and isinstance(e.args[1], ast.Constant):
                rest = self._union(e.args[2:], fn, depth, seen, skip)
                if rest is None or e.args[1].value not in FIELDS:
                    return None
                return {e.args[1].value} | rest
            if isinstance(f, ast.Name) and f.id in ("int", "abs", "max", "min", "float", "round", "sum") and not e.keywords:
                return self._union(e.args, fn, depth, seen, skip)
            if isinstance(f, ast.Name) and f.id in self.module.functions:
                callee = self.module.functions[f.id]
                rets = [n for n in _fn_stmts(callee) if isinstance(n, ast.Return) and n.value is not None]
                if not rets:
                    return None
                out = set()
                for r in rets:
                    x = self.fields(r.value, callee, idx, depth + 1, seen, skip)
                    if x is None:
                        return None
                    out |= x
                return out
        return None

    def _union(self, es, fn, depth, seen, skip):
        out = set()
        for x in es:
            r = self.fields(x, fn, None, depth + 1, seen, skip)
            if r is None:
                return None
            out |= r
        return out


def _increment(stmt):
    """(accumulator name, increment expr) if `stmt` is an additive update of a plain local."""
    if isinstance(stmt, ast.AugAssign) and isinstance(stmt.op, ast.Add) and isinstance(stmt.target, ast.Name):
        return stmt.target.id, stmt.value
    if isinstance(stmt, ast.Assign) and len(stmt.targets) == 1 and isinstance(stmt.targets[0], ast.Name):
        x, v = stmt.targets[0].id, stmt.value
        if isinstance(v, ast.BinOp) and isinstance(v.op, ast.Add):
            if isinstance(v.left, ast.Name) and v.left.id == x:
                return x, v.right
            if isinstance(v.right, ast.Name) and v.right.id == x:
                return x, v.left
        if isinstance(v, ast.Call) and isinstance(v.func, ast.Name) and v.func.id == "sum" and len(v.args) == 1 \
                and isinstance(v.args[0], (ast.Tuple, ast.List)) and len(v.args[0].elts) == 2:
            a, b = v.args[0].elts
            if isinstance(a, ast.Name) and a.id == x:
                return x, b
            if isinstance(b, ast.Name) and b.id == x:
                return x, a
    return None


def accumulators(module, fn, loop):
    """{"file_size": name, "compress_size": name} for the entry loop `loop` of `fn`; raises LookupError with a reason when the
    roles cannot be read off the code."""
    incs = {}
    for n in [x for b in loop.body for x in _walk_stmts(b)]:
        r = _increment(n)
        if r is not None:
            incs.setdefault(r[0], []).append((n, r[1]))
    if not incs:
        raise LookupError("no additive accumulator in the entry loop")
    roles = {}
    for name, lst in incs.items():
        d = Deriver(module, fn)
        got = set()
        ok = True
        for (stmt, inc) in lst:
            r = d.fields(inc, skip=frozenset({id(stmt.value)}))
            if r is None:
                ok = False
                break
            got |= r
        if not ok or len(got) != 1:
            continue
        field = next(iter(got))
        if field in roles:
            raise LookupError(f"two accumulators of `{field}`: `{roles[field]}` and `{name}`")
        roles[field] = name
    missing = [f for f in FIELDS if f not in roles]
    if missing:
        raise LookupError(f"no accumulator whose increments derive from `{'` / `'.join(missing)}` alone "
                          f"(additive locals of the loop: {sorted(incs)})")
    return roles


def _walk_stmts(node):
    yield node
    for ch in ast.iter_child_nodes(node):
        if isinstance(ch, (ast.FunctionDef, ast.AsyncFunctionDef, ast.Lambda, ast.ClassDef)):
            continue
        yield from _walk_stmts(ch)


def loops_of(fn):
    """The for/while loops of `fn` in source order (the engine's loop ordinals)."""
    return sorted((n for n in _fn_stmts(fn) if isinstance(n, (ast.For, ast.While))), key=lambda n: (n.lineno, n.col_offset))


def loop_ordinal_and_roles(module, qual):
    fn = module.functions.get(qual)
    if fn is None:
        raise LookupError(f"{qual} missing")
    loops = loops_of(fn)
    errs = []
    for k, lp in enumerate(loops):
        try:
            return k, lp, accumulators(module, fn, lp)
        except LookupError as e:
            errs.append(f"loop {k}: {e}")
    raise LookupError("; ".join(errs) or "no loop")
