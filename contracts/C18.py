"""C18 -- SharePoint listing is complete, exact and fault-contained.

Contracts on sharepoint2text/sharepoint_io/client.py (real AST, re-read each run).

Part A (filter): `FileFilter.matches` returns <=> the predicate written from the
statement: date bounds inclusive-after / exclusive-before **on instants**,
extension match case-insensitive, patterns on the full path.  Datetimes are
modelled abstractly as (microseconds, aware?) pairs; the instant denoted by an
ISO-8601 string is a *real* number of microseconds (`SEM_US`), `fnmatch` and
`str.lower` are uninterpreted.
Part B (transport): `_send` closes every response object it obtained before it
returns or raises (ghost set `open`), maps HTTPError/URLError to the request
error carrying status/url, rejects non-2xx; `_get_json`.
Part C (listing): `_list_items_paginated`, `_get_folders_from_url` (loop
invariants over an abstract page chain), `_walk_drive_items` (modular
recursion), `_walk_and_filter`, `list_all_files`, `list_files_filtered`.
Part D (caches): `_access_token` / `_site_id` are assigned only after a
successful response (dataflow obligations + "unchanged on every raise" clauses).

Findings on the pristine tree (both replayed natively, repair in proposed_fixes/C18.diff):
* F17  `_parse_iso_datetime` drops the fractional seconds, so bounds are decided at whole seconds
  (created 10:30:00.5Z, created_after 10:30:00.25 -> excluded; created_before 10:30:00.25 -> included).
* F25  a token response that is not valid UTF-8 escapes `fetch_access_token` as UnicodeDecodeError (outside the
  client family; the Graph requests already decode with errors="replace").

Round 5: dict comprehensions / tuple targets over symbolic sequences; `datetime.tzinfo`, `replace(tzinfo=None)` (wall-clock
reading: instant + unconstrained offset) and `astimezone` (same instant) on the (instant, aware) abstraction, so timestamp
normalisation helpers in front of the bound comparisons are decided instead of havoc'd; path pruning resets the solver core
per query (`C18Executor.feasible`).  The replayer's fake library serves hidden (trimmed) children: short / empty non-final pages.

Round 6: Part E (exceptions.py): `SharePointRequestError.__init__` stores the status and URL it is given (the engine's exception
values assume exactly that at every raise site).  Executed as the code they stand for: `with suppress(..)`, `with` over a
single-yield @contextmanager generator (`s_With`), `for` / list comprehension over an uncontracted generator helper (`loop_over_helper`,
push form), invariant-less search loops over a symbolic sequence (`search_loop`, exact), `f(**dict_of_known_keys)`, zero-argument
`super().__init__` in exception classes.  Each falls back to out-of-subset / the tagged havoc cut on any other shape.

Round 7 (deepening): `_build_children_url` VERIFIED (Graph path of exactly the folder asked for + optional query, a function of
its three arguments, no effect) -- it was an assumed abstraction; callers keep the opaque name CU / CUROOT of it.  New contracts
on functions that used to be executed in place inside every caller: `_ensure_token` (cached token reused without a request,
absent one fetched once and cached, failure leaves the cache as it was), `_get_headers` (`Authorization: Bearer <cached token>`),
and `_get_json` now proves that the request it hands to `_send` carries that header.  Part F: `SharePointRestClient.__init__`
(caches start empty, transport / credentials are the ones given) -- the deductive counterpart of the syntactic
`caches-start-empty` typestate.  Executor: a pure boolean case split inside a comprehension element is one If-term
(`merge_bool_forks`; exhaustiveness of the branch conditions is proved), `item["key"]` on parsed JSON (TypeError / KeyError /
member): the causes of seeds C18_11 and C18_2 are now refuted by `FileFilter.matches/returns` and
`_get_folders_from_url/inv-preserve#items` instead of `out-of-subset`.
"""
import z3

from pyvc import ops
from pyvc.contracts import FnContract, LoopSpec, Raises
from pyvc.symex import Executor, LoopCtx, Outcome
from pyvc.state import HeapObj
from pyvc.values import (NONE, V, VBool, VExc, VExt, VFunc, VInt, VNoneT, VRef, VSeq, VStr, VTuple,
                         VUnk, ext_sort, fresh_name)
from pyvc.verify import Maker, p_obj, p_opt, p_str, p_unk, p_int, p_bool

CLIENT = "sharepoint2text/sharepoint_io/client.py"
S, I, R, B = z3.StringSort(), z3.IntSort(), z3.RealSort(), z3.BoolSort()


def sv(x):
    return z3.StringVal(x)


# =============================================================== datetimes ==
# A datetime is abstracted to the pair (us, aware): for an aware datetime `us`
# is the instant in microseconds since the epoch (UTC), for a naive one the
# wall-clock reading.  Ordering comparisons of a naive with an aware datetime
# raise TypeError (Python semantics), == is False.
DT = z3.Datatype("DateTime")
DT.declare("mkdt", ("us", I), ("aware", B))
DT = DT.create()


def dt_val(us, aware):
    return VExt("datetime", DT.mkdt(us, aware))


def p_dt():
    """An arbitrary datetime object."""
    def mk(ex, st, name):
        return VExt("datetime", DT.mkdt(z3.Int(name + ".us"), z3.Bool(name + ".aware")))
    return Maker(mk, desc="datetime (microsecond instant, aware flag)")


# ---- ISO-8601 semantics (spec side) and datetime.fromisoformat (library side)
SEM_OK = z3.Function("iso_denotes", S, B)        # the string is an ISO-8601 timestamp
SEM_US = z3.Function("iso_instant_us", S, R)     # the instant it denotes, in microseconds (a real: any precision)
SEM_AWARE = z3.Function("iso_has_offset", S, B)  # it carries a UTC designator / offset
PY_OK = z3.Function("fromisoformat_ok", S, B)    # datetime.fromisoformat accepts the string
PY_US = z3.Function("fromisoformat_us", S, I)
PY_AWARE = z3.Function("fromisoformat_aware", S, B)
FRAC_US = z3.Function("fraction_us", S, R)       # value of a digit string read as decimal fraction of a second, in us
INTVAL = z3.Function("digits_value", S, I)       # value of a digit string read as integer
LJUST0 = z3.Function("ljust_zero", S, I, S)      # s.ljust(n, "0")
LOWER = z3.Function("str_lower", S, S)
FNMATCH = z3.Function("fnmatch", S, S, B)

DIGITS = z3.Plus(z3.Range("0", "9"))
TZ_ALTS = ("none", "Z", "+", "-")


def tz_norm(tz_kind, tz):
    return sv("+00:00") if tz_kind == "Z" else tz


def iso_axioms_undotted(s, tz_kind):
    """ASSUMED (ISO-SEM, instance for a timestamp without fractional part): 'Z' means +00:00 and
    datetime.fromisoformat is exact on whole-second timestamps with an explicit offset or none."""
    x = z3.Concat(s.arg(0), sv("+00:00")) if tz_kind == "Z" else s
    return z3.And(SEM_OK(s) == PY_OK(x), SEM_US(s) == z3.ToReal(PY_US(x)), SEM_AWARE(s) == PY_AWARE(x))


def iso_axioms_dotted(base, frac, tz_kind, tz):
    """ASSUMED (ISO-SEM, instance for `base.frac tz`, frac a non-empty digit string): the timestamp denotes the
    whole-second timestamp `base tz` plus the fraction; fromisoformat is exact on six-digit fractions; the first six
    digits of the fraction, right-padded with zeros, are the floor of the fraction in microseconds."""
    tzn = tz_norm(tz_kind, tz)
    s = z3.Concat(base, sv("."), frac, tz)
    whole = z3.Concat(base, tzn)
    f6 = LJUST0(z3.SubString(frac, 0, 6), 6)
    six = z3.Concat(base, sv("."), f6, tzn)
    return z3.And(
        SEM_OK(s) == PY_OK(whole), SEM_US(s) == z3.ToReal(PY_US(whole)) + FRAC_US(frac), SEM_AWARE(s) == PY_AWARE(whole),
        FRAC_US(frac) >= 0, FRAC_US(frac) < 1000000, z3.ToInt(FRAC_US(frac)) == INTVAL(f6),
        PY_OK(six) == PY_OK(whole), PY_US(six) == PY_US(whole) + INTVAL(f6), PY_AWARE(six) == PY_AWARE(whole),
        z3.Length(f6) == 6,
    )


OFFSET = z3.Star(z3.Union(z3.Range("0", "9"), z3.Re(":")))


def dotted_structure(base, frac, tz_kind, tz):
    """Shape of `base.frac tz`: no dot before the fraction, fraction = digits, offset = digits and colons."""
    conds = [z3.Not(z3.Contains(base, sv("."))), z3.InRe(frac, DIGITS)]
    if tz_kind in ("+", "-"):
        conds.append(z3.InRe(tz.arg(1), OFFSET))
    return conds


_ISO_FORMS: dict = {}     # term id of the parameter -> description of the structured form


def p_iso_string():
    """`dt_string` of _parse_iso_datetime: structured alternatives `base [. frac] tz` (tz: none | Z | +.. | -..)
    carrying the ISO-SEM axiom instances, plus an unstructured arbitrary string (totality only)."""
    def mk(ex, st, name):
        alts = []
        for k in TZ_ALTS:
            # no fractional part
            body = z3.String(f"{name}!u{k}")
            conds = [z3.Not(z3.Contains(body, sv(".")))]
            if k == "Z":
                s = z3.Concat(body, sv("Z"))
            else:
                s = body
                conds.append(z3.Not(z3.SuffixOf(sv("Z"), s)))
            conds.append(iso_axioms_undotted(s, k))
            _ISO_FORMS[s.get_id()] = ("undotted", k)
            alts.append((z3.And(conds), VStr(s)))
        for k in TZ_ALTS:
            base, frac = z3.String(f"{name}!base{k}"), z3.String(f"{name}!frac{k}")
            if k == "none":
                tz = sv("")
            elif k == "Z":
                tz = sv("Z")
            else:
                tz = z3.Concat(sv(k), z3.String(f"{name}!off{k}"))
            s = z3.Concat(base, sv("."), frac, tz)
            conds = dotted_structure(base, frac, k, tz)
            conds.append(iso_axioms_dotted(base, frac, k, tz))
            _ISO_FORMS[s.get_id()] = ("dotted", k)
            ex.__dict__.setdefault("witness_terms", {})[f"{name}@dotted:{k}"] = {"base": base, "frac": frac, "tz": tz}
            alts.append((z3.And(conds), VStr(s)))
        free = z3.String(f"{name}!any")
        _ISO_FORMS[free.get_id()] = ("any", "")
        alts.append((None, VStr(free)))
        return alts
    return Maker(mk, desc="ISO-8601 timestamp string `base[.frac][tz]` | arbitrary string")


def parsed(s):
    """Spec: what parsing must return for a denoting string: the instant at datetime resolution (microseconds;
    exact w.r.t. every comparison with a datetime bound because bounds lie on the microsecond grid)."""
    return dt_val(z3.ToInt(SEM_US(s)), SEM_AWARE(s))


# =========================================================== library models ==
def m_lower(ex, st, args, kwargs, node):
    s = args[0]
    c = s.const()
    if c is not None:
        return [(st, VStr(c.lower()))]
    return [(st, VStr(LOWER(s.t)))]


def m_fnmatch(ex, st, args, kwargs, node):
    """fnmatch.fnmatch(name, pattern): ASSUMED total and deterministic on strings (uninterpreted)."""
    a, b = args
    if not (isinstance(a, VStr) and isinstance(b, VStr)):
        return ex.havoc_call(st, "fnmatch.fnmatch", args, node)
    return [(st, VBool(FNMATCH(a.t, b.t)))]


def m_fromisoformat(ex, st, args, kwargs, node):
    """datetime.fromisoformat(x): ASSUMED -- ValueError when it does not accept x, else the datetime
    (PY_US(x), PY_AWARE(x)); TypeError for a non-string."""
    x = args[0]
    if not isinstance(x, VStr):
        ex.raise_in(st, ex.mk_exc("TypeError"))
        return []
    st2 = ex.fork_raise(st, z3.Not(PY_OK(x.t)), "ValueError")
    if st2 is None:
        return []
    return [(st2, dt_val(PY_US(x.t), PY_AWARE(x.t)))]


# ---- structural string reasoning -------------------------------------------
# z3's sequence solver does not find `indexof(base ++ "." ++ x, ".") = |base|` inside a larger VC (measured: unknown
# at 10 s; cvc5 proves the isolated lemma at once).  The executor therefore resolves find / split / slices on
# concatenations structurally.  Every step is justified by a solver query against the current path condition
# (`proves`), so this is eager lemma application, not an assumption; when a step cannot be justified the plain
# z3 term (IndexOf / SubString) is used.
def str_parts(t):
    if z3.is_app(t) and t.decl().kind() == z3.Z3_OP_SEQ_CONCAT:
        out = []
        for ch in t.children():
            out.extend(str_parts(ch))
        return out
    if z3.is_string_value(t) and t.as_string() == "":
        return []
    return [t]


def part_len(p):
    return z3.IntVal(len(p.as_string())) if z3.is_string_value(p) else z3.Length(p)


def mk_concat(parts):
    parts = [p for p in parts if not (z3.is_string_value(p) and p.as_string() == "")]
    merged = []
    for p in parts:
        if merged and z3.is_string_value(p) and z3.is_string_value(merged[-1]):
            merged[-1] = sv(merged[-1].as_string() + p.as_string())
        else:
            merged.append(p)
    if not merged:
        return sv("")
    if len(merged) == 1:
        return merged[0]
    return z3.Concat(*merged)


def proves(ex, st, fact, timeout_ms=1500):
    sol = z3.Solver()
    sol.set("timeout", timeout_ms)
    sol.add(*[c for c in st.pc])
    sol.add(z3.Not(fact))
    return sol.check() == z3.unsat


def struct_index_of(ex, st, t, sep: str):
    """Int term equal to t.find(sep) (sep a constant), or None if the structure does not decide it."""
    parts = str_parts(t)
    pos = z3.IntVal(0)
    for p in parts:
        if z3.is_string_value(p):
            lit = p.as_string()
            k = lit.find(sep)
            if k >= 0:
                return z3.simplify(pos + k)
            if len(sep) > 1 and any(lit.endswith(sep[:j]) for j in range(1, len(sep))):
                return None
        else:
            if len(sep) != 1 or not proves(ex, st, z3.Not(z3.Contains(p, sv(sep)))):
                return None
        pos = pos + part_len(p)
    return z3.IntVal(-1)


def struct_cut(ex, st, parts, pos):
    """Split `parts` at character position `pos` (Int term): (left parts, right parts) or None."""
    acc = z3.IntVal(0)
    for k in range(len(parts) + 1):
        d = z3.simplify(pos - acc)
        if z3.is_int_value(d):
            dv = d.as_long()
            if dv == 0:
                return parts[:k], parts[k:]
            if k < len(parts) and z3.is_string_value(parts[k]) and 0 < dv < len(parts[k].as_string()):
                lit = parts[k].as_string()
                return parts[:k] + [sv(lit[:dv])], [sv(lit[dv:])] + parts[k + 1:]
        if k < len(parts):
            acc = acc + part_len(parts[k])
    acc = z3.IntVal(0)
    for k in range(len(parts) + 1):
        if proves(ex, st, pos == acc, 500):
            return parts[:k], parts[k:]
        if k < len(parts):
            acc = acc + part_len(parts[k])
    return None


def struct_substr(ex, st, t, lo, hi):
    """t[lo:hi] for in-range positions lo <= hi given as Int terms (None = end): term or None."""
    parts = str_parts(t)
    c1 = struct_cut(ex, st, parts, lo)
    if c1 is None:
        return None
    if hi is None:
        return mk_concat(c1[1])
    c2 = struct_cut(ex, st, c1[1], z3.simplify(hi - lo))
    if c2 is None:
        return None
    return mk_concat(c2[0])


def struct_endswith(ex, st, parts, ch: str):
    """Bool term equal to `concat(parts).endswith(ch)` for a single character ch (exact case split on the last part)."""
    if not parts:
        return z3.BoolVal(False)
    p = parts[-1]
    if z3.is_string_value(p):
        return z3.BoolVal(p.as_string().endswith(ch))
    rest = struct_endswith(ex, st, parts[:-1], ch)
    if proves(ex, st, z3.Not(z3.SuffixOf(sv(ch), p)), 500):
        if z3.is_false(rest) or proves(ex, st, z3.Length(p) > 0, 500):
            return z3.BoolVal(False)
        return z3.And(z3.Length(p) == 0, rest)
    return z3.Or(z3.SuffixOf(sv(ch), p), z3.And(z3.Length(p) == 0, rest))


def m_split(ex, st, args, kwargs, node):
    """str.split(sep, 1) with a constant separator: one part if sep does not occur, else the text before the
    first occurrence and the text after it."""
    s = args[0]
    if len(args) == 3 and isinstance(args[1], VStr) and args[1].const() and isinstance(args[2], VInt) and args[2].const() == 1:
        sepc = args[1].const()
        sep = args[1].t
        idx = struct_index_of(ex, st, s.t, sepc)
        if idx is not None:
            if z3.is_int_value(idx) and idx.as_long() == -1:
                return [(st, ex.new_list(st, [s]))]
            head = struct_substr(ex, st, s.t, z3.IntVal(0), idx)
            tail = struct_substr(ex, st, s.t, z3.simplify(idx + len(sepc)), None)
            if head is not None and tail is not None:
                return [(st, ex.new_list(st, [VStr(head), VStr(tail)]))]
        idx = z3.IndexOf(s.t, sep, 0)
        out = []
        has = z3.Contains(s.t, sep)
        if ex.feasible(st.pc, has):
            s1 = st.fork().assume(has)
            head = z3.SubString(s.t, 0, idx)
            tail = z3.SubString(s.t, idx + z3.Length(sep), z3.Length(s.t) - idx - z3.Length(sep))
            out.append((s1, ex.new_list(s1, [VStr(head), VStr(tail)])))
        if ex.feasible(st.pc, z3.Not(has)):
            s2 = st.fork().assume(z3.Not(has))
            out.append((s2, ex.new_list(s2, [s])))
        return out
    return ex.havoc_call(st, "str.split", list(args[1:]), node)      # tagged: a VC failing on this path is `unknown`


def m_ljust(ex, st, args, kwargs, node):
    s = args[0]
    if len(args) == 3 and isinstance(args[1], VInt) and isinstance(args[2], VStr) and args[2].const() == "0":
        n = ops.int_term(args[1])
        c, k = s.const(), args[1].const()
        if c is not None and k is not None:
            return [(st, VStr(c.ljust(k, "0")))]
        return [(st, VStr(LJUST0(s.t, n)))]
    return ex.havoc_call(st, "str.ljust", list(args[1:]), node)


SPLIT_ROOT = z3.Function("splitext_root", S, S)
SPLIT_EXT = z3.Function("splitext_ext", S, S)


def m_splitext(ex, st, args, kwargs, node):
    """os.path.splitext(p) -> (root, ext): ASSUMED axioms: root + ext == p; ext is empty or starts with '.', has no
    further '.', no '/'; a dot found this way is not the leading dot of the last component (root non-empty then)."""
    if not (args and isinstance(args[0], VStr)):
        return ex.havoc_call(st, "os.path.splitext", args, node)
    p = args[0].t
    e, r = SPLIT_EXT(p), SPLIT_ROOT(p)
    st.assume(z3.And(z3.Concat(r, e) == p,
                     z3.Or(e == sv(""), z3.And(z3.PrefixOf(sv("."), e), z3.Length(r) > 0)),
                     z3.Not(z3.Contains(z3.SubString(e, 1, z3.Length(e)), sv("."))),
                     z3.Not(z3.Contains(e, sv("/")))))
    return [(st, VTuple([VStr(r), VStr(e)]))]


STRIPS = z3.Function("strip_slashes", S, S)            # s.strip("/")


def m_strip(ex, st, args, kwargs, node):
    s0 = args[0]
    if len(args) == 2 and isinstance(args[1], VStr) and args[1].const() == "/":
        c = s0.const()
        return [(st, VStr(c.strip("/")) if c is not None else VStr(STRIPS(s0.t)))]
    return [(st, VStr(z3.String(fresh_name("strip"))))]


RSTRIPS = z3.Function("rstrip_slashes", S, S)          # s.rstrip("/") (uninterpreted name of the library function; round 7)


def m_rstrip(ex, st, args, kwargs, node):
    s0 = args[0]
    if len(args) == 2 and isinstance(args[1], VStr) and args[1].const() == "/":
        c = s0.const()
        return [(st, VStr(c.rstrip("/")) if c is not None else VStr(RSTRIPS(s0.t)))]
    return [(st, VStr(z3.String(fresh_name("rstrip"))))]


DAY_US = 86400 * 1000000


def _split_aware(ex, st, t):
    """The two cases of a datetime: [(state assuming aware, True), (state assuming naive, False)] (feasible ones only)."""
    out = []
    for flag in (True, False):
        cond = DT.aware(t) if flag else z3.Not(DT.aware(t))
        if ex.feasible(st.pc, cond):
            out.append((st.fork().assume(cond), flag))
    return out


def m_dt_replace(ex, st, obj, args, kwargs, node):
    """datetime.replace(tzinfo=None): a naive datetime stays as it is; an aware one becomes its WALL-CLOCK reading in its
    own zone = instant + utcoffset (the offset is not part of the abstraction: any value with |offset| < 24 h), naive.
    Every other use of replace is unmodelled (tagged)."""
    if args or set(kwargs) != {"tzinfo"} or not isinstance(kwargs["tzinfo"], VNoneT):
        return ex.havoc_call(st, "datetime.replace", list(args) + list(kwargs.values()), node)
    out = []
    for (s2, aware) in _split_aware(ex, st, obj.t):
        if not aware:
            out.append((s2, obj))
            continue
        wall = z3.Int(fresh_name("wallclock_us"))
        s2.assume(z3.And(wall - DT.us(obj.t) > -DAY_US, wall - DT.us(obj.t) < DAY_US))
        out.append((s2, dt_val(wall, z3.BoolVal(False))))
    return out


def m_dt_astimezone(ex, st, obj, args, kwargs, node):
    """datetime.astimezone([tz]) of an aware datetime: the same instant in another zone (aware).  A naive one is read in
    the system's local zone: unmodelled (tagged)."""
    out = []
    for (s2, aware) in _split_aware(ex, st, obj.t):
        if aware:
            out.append((s2, dt_val(DT.us(obj.t), z3.BoolVal(True))))
        else:
            out.extend(ex.havoc_call(s2, "datetime.astimezone of a naive datetime (system local zone)", list(args) + list(kwargs.values()), node))
    return out


def install_string_models(reg):
    reg.ext_models["os.path.splitext"] = m_splitext
    reg.ext_models["str.strip"] = m_strip
    reg.ext_models["str.rstrip"] = m_rstrip
    reg.ext_models["str.lower"] = m_lower
    reg.ext_models["str.split"] = m_split
    reg.ext_models["str.ljust"] = m_ljust
    reg.ext_models["fnmatch.fnmatch"] = m_fnmatch
    reg.ext_models["datetime.datetime.fromisoformat"] = m_fromisoformat
    reg.method_models[("datetime", "replace")] = m_dt_replace
    reg.method_models[("datetime", "astimezone")] = m_dt_astimezone


# sorts of the listing layer (functions over them are declared in Part B / C below)
JsonS, BytesS, RespS, ReqS = ext_sort("Json"), ext_sort("Bytes"), ext_sort("Response"), ext_sort("Request")
FMS = ext_sort("FileMeta")
SQF, SQJ = z3.SeqSort(FMS), z3.SeqSort(JsonS)
SEQ_ELEM_KIND = {"Json": "Json", "FileMeta": "FileMeta"}


# ---- second attempts for VCs z3 leaves `unknown` -------------------------------------------------------------
# The listing VCs (sequences + recursive spec functions + a few quantified lemmas) are easy but z3's search is
# sensitive to assertion order and load: the same VC is proved in 10 ms or times out.  A timed-out VC is retried
# with other random seeds and short budgets; only an `unsat` counts.
def _retry_prover(pc, goal, timeout_ms):
    pcs = [p for p in pc if not z3.is_true(p)]
    for seed in (0, 1, 7):
        sol = z3.SolverFor("ALL") if seed == 7 else z3.Solver()
        sol.set("timeout", 2500)
        if seed == 0:
            sol.set("smt.mbqi", False)      # every quantified hypothesis of this pack carries patterns: E-matching only
        else:
            sol.set("random_seed", seed)
            sol.set("smt.random_seed", seed)
        sol.add(*(pcs if seed != 7 else list(reversed(pcs))))
        sol.add(z3.Not(goal))
        if sol.check() == z3.unsat:
            return True
    return False


# z3 5.1 answers `sat` on some VALID listing VCs (recursive spec functions over sequences): measured on the step
# `Y ++ WALK(..) == files ++ WF(.., i+1)` -- the model it returns satisfies the goal it is supposed to falsify, and a
# second run of the same query answers `unsat`.  A `sat` on a VC that mentions a recursive spec function is therefore
# not a counter-model by itself: it becomes `unknown` (retried by _retry_prover, then decided by the native replayer).
RECURSIVE_SPEC = frozenset({"walk", "walk_subfolders", "chain_files", "page_files", "page_folders", "chain_folders", "filter_prefix",
                            "filtered_over_targets", "take", "page_url"})


def _mentions_recursive_spec(pc, goal):
    seen, stack = set(), list(pc) + [goal]
    while stack:
        x = stack.pop()
        if x.get_id() in seen:
            continue
        seen.add(x.get_id())
        if z3.is_app(x):
            if x.decl().name() in RECURSIVE_SPEC:
                return True
            stack.extend(x.children())
        elif z3.is_quantifier(x):
            stack.append(x.body())
    return False


from pyvc import solve as _solve  # noqa: E402
# C18's VCs are proved in well under a second each; on a changed tree dozens may be undecided, so the per-VC budget (z3, then the
# retries above, then cvc5) is kept at 5 s instead of 10 s -- it only bounds how long an UNDECIDED answer takes
_solve.QUICK_TIMEOUT_MS = min(_solve.QUICK_TIMEOUT_MS, 5000)
if _mentions_recursive_spec.__name__ not in [getattr(f, "__name__", "") for f in _solve.SAT_UNTRUSTED]:
    _solve.SAT_UNTRUSTED.append(_mentions_recursive_spec)
if _retry_prover.__name__ not in [getattr(f, "__name__", "") for f in _solve.EXTRA_PROVERS]:
    _solve.EXTRA_PROVERS.append(_retry_prover)


# ================================================================ executor ==
def subst_v(v: V, i, j):
    """v with the Int constant i replaced by the term j."""
    if isinstance(v, VBool):
        return VBool(z3.substitute(v.t, (i, j)))
    if isinstance(v, VStr):
        return VStr(z3.substitute(v.t, (i, j)))
    if isinstance(v, VInt):
        return VInt(z3.substitute(v.t, (i, j)))
    if isinstance(v, VExt):
        return VExt(v.sort, z3.substitute(v.t, (i, j)))
    raise ops.Unsupported(f"element kind {v.kind} in symbolic comprehension")


class VSymBag(V):
    """Elements `elem(j)` for the indices j < length with keep(j): the value of a filtered list / generator / set
    comprehension over a symbolic sequence.  Only membership, `any` and truthiness are defined on it."""
    kind = "symbag"

    def __init__(self, length, elem, keep, is_set=False):
        self.length, self.elem, self.keep, self.is_set = length, elem, keep, is_set

    def member(self, item: V):
        j = z3.Int(fresh_name("m"))
        return z3.Exists([j], z3.And(j >= 0, j < self.length, self.keep(j), ops.eq_term(self.elem(j), item)))

    def nonempty(self):
        j = z3.Int(fresh_name("m"))
        return z3.Exists([j], z3.And(j >= 0, j < self.length, self.keep(j)))


class CLoop(LoopSpec):
    """Loop spec with a ghost iteration counter (while loops: lc.i) and lists abstracted to sequences."""

    def __init__(self, inv=None, label="", acc_sort=None):
        super().__init__(inv=inv, label=label)
        self.acc_sort = acc_sort      # element sort of the list the loop accumulates into (found semantically: `accumulator`)


def fn_arg(lc, name):
    """Entry value of a parameter of the function under verification (independent of the frame a loop runs in)."""
    return lc.ex.entry_ctx.args[name]


def cursor(lc):
    """Current value of the page loop's cursor variable (the variable the `while` test reads)."""
    name = lc.st.ghost.get("cursor")
    v = lc.st.lookup(name) if name else None
    if v is None or not isinstance(v, (VStr, VNoneT)):
        raise ops.Unsupported("page cursor is not an optional string variable")
    return v


def page_url(lc):
    """URL of the page the current iteration of the page loop works on (the cursor's value when the iteration began);
    independent of the frame an item loop runs in (it may sit in an extracted helper)."""
    v = lc.st.ghost.get("page")
    if not isinstance(v, VStr):
        raise ops.Unsupported("item loop outside a page loop")
    return v


def acc_list(lc):
    """The list the loop accumulates into, by identity (a helper may know it under another name)."""
    ref = lc.st.ghost.get("acc")
    if ref is None or ref not in lc.st.heap:
        raise ops.Unsupported("no accumulator list in this loop")
    return VRef(ref)


def ghost_y(st):
    y = st.ghost.get("Y")
    return y if y is not None else z3.Empty(SQF)


def seq_of(st, v, sort):
    """Sequence term of a list value: a concrete heap list, a 'seqlist', or the value of a call under contract
    (`list(gen)` of a generator whose contract gives the yielded sequence); None if the shape is not recognised."""
    if isinstance(v, VSeq):
        if isinstance(v.tag, tuple) and v.tag[0] == "seq" and v.tag[1].sort() == z3.SeqSort(sort):
            return v.tag[1]
        return None
    if not isinstance(v, VRef):
        return None
    o = st.obj(v.ref)
    if o.kind == "seqlist":
        return o.data
    if o.kind == "list" and o.data is not None and all(isinstance(x, VExt) for x in o.data):
        if not o.data:
            return z3.Empty(z3.SeqSort(sort))
        units = [z3.Unit(x.t) for x in o.data]
        return units[0] if len(units) == 1 else z3.Concat(*units)
    return None


class C18Executor(Executor):
    """Pack-local extensions: datetime comparison, generator expressions over
    symbolic sequences (`any(f(x) for x in seq)` becomes an existential)."""

    # -- datetime ------------------------------------------------------------
    def compare(self, st, op, a, b, node):
        if isinstance(a, VExt) and isinstance(b, VExt) and a.sort == b.sort == "datetime":
            ua, ub = DT.us(a.t), DT.us(b.t)
            aa, ab = DT.aware(a.t), DT.aware(b.t)
            if op in ("Eq", "NotEq"):
                t = z3.And(aa == ab, ua == ub)
                return [(st, VBool(t if op == "Eq" else z3.Not(t)))]
            if op in ("Lt", "LtE", "Gt", "GtE"):
                st2 = self.fork_raise(st, aa != ab, "TypeError")   # can't compare offset-naive and offset-aware
                if st2 is None:
                    return []
                return [(st2, VBool({"Lt": ua < ub, "LtE": ua <= ub, "Gt": ua > ub, "GtE": ua >= ub}[op]))]
        return super().compare(st, op, a, b, node)

    # -- strings: structural find / slices (see str_parts) ----------------------
    def str_method(self, st, s, name, args, kwargs, node):
        if name == "find" and len(args) == 1 and isinstance(args[0], VStr) and args[0].const():
            idx = struct_index_of(self, st, s.t, args[0].const())
            if idx is not None:
                return [(st, VInt(idx))]
        if name == "endswith" and len(args) == 1 and isinstance(args[0], VStr) and args[0].const() and len(args[0].const()) == 1:
            return [(st, VBool(z3.simplify(struct_endswith(self, st, str_parts(s.t), args[0].const()))))]
        if name in ("endswith", "startswith") and len(args) == 1 and isinstance(args[0], (VSeq, VSymBag)):
            fn = z3.SuffixOf if name == "endswith" else z3.PrefixOf
            a, j = args[0], z3.Int(fresh_name("m"))
            e = a.elem(j)
            if not isinstance(e, VStr):
                return self.havoc_call(st, f"str.{name}", list(args), node)
            keep = a.keep(j) if isinstance(a, VSymBag) else z3.BoolVal(True)
            return [(st, VBool(z3.Exists([j], z3.And(j >= 0, j < a.length, keep, fn(e.t, s.t)))))]
        if name == "partition" and len(args) == 1 and isinstance(args[0], VStr) and args[0].const():
            sepc = args[0].const()
            idx = struct_index_of(self, st, s.t, sepc)
            if idx is not None:
                if z3.is_int_value(idx) and idx.as_long() == -1:
                    return [(st, VTuple([s, VStr(""), VStr("")]))]
                head = struct_substr(self, st, s.t, z3.IntVal(0), idx)
                tail = struct_substr(self, st, s.t, z3.simplify(idx + len(sepc)), None)
                if head is not None and tail is not None:
                    return [(st, VTuple([VStr(head), VStr(sepc), VStr(tail)]))]
            sep = args[0].t
            has = z3.Contains(s.t, sep)
            i0 = z3.IndexOf(s.t, sep, 0)
            out = []
            if self.feasible(st.pc, has):
                s1 = st.fork().assume(has)
                out.append((s1, VTuple([VStr(z3.SubString(s.t, 0, i0)), VStr(sepc),
                                        VStr(z3.SubString(s.t, i0 + len(sepc), z3.Length(s.t) - i0 - len(sepc)))])))
            if self.feasible(st.pc, z3.Not(has)):
                out.append((st.fork().assume(z3.Not(has)), VTuple([s, VStr(""), VStr("")])))
            return out
        if name in ("split", "rsplit", "splitlines", "partition", "rpartition") and s.const() is None \
                and f"str.{name}" not in self.reg.ext_models:
            return self.havoc_call(st, f"str.{name}", list(args), node)      # tagged: a VC failing on this path is `unknown`
        if name == "encode":
            return self.str_method_encode(st, s)
        return super().str_method(st, s, name, args, kwargs, node)

    def contains(self, st, container, item, node):
        if isinstance(container, VSymBag):
            return [(st, VBool(container.member(item)))]
        if isinstance(container, VSeq) and isinstance(item, (VStr, VInt, VBool)):
            j = z3.Int(fresh_name("m"))
            return [(st, VBool(z3.Exists([j], z3.And(j >= 0, j < container.length, ops.eq_term(container.elem(j), item)))))]
        if isinstance(container, VExt) and container.sort == "Json" and isinstance(item, VStr):
            # `key in obj` on a parsed JSON object (callers test isinstance(obj, dict) first; TypeError otherwise)
            st2 = self.fork_raise(st, z3.Not(J_ISDICT(container.t)), "TypeError")
            if st2 is None:
                return []
            return [(st2, VBool(J_HAS(container.t, item.t)))]
        if isinstance(container, VStr) and isinstance(item, VStr) and item.const() and len(item.const()) == 1:
            ch = item.const()
            terms = []
            for p in str_parts(container.t):
                if z3.is_string_value(p):
                    if ch in p.as_string():
                        return [(st, VBool(True))]
                elif not proves(self, st, z3.Not(z3.Contains(p, sv(ch))), 500):
                    terms.append(z3.Contains(p, sv(ch)))
            return [(st, VBool(z3.Or(terms) if terms else z3.BoolVal(False)))]
        return super().contains(st, container, item, node)

    def str_slice(self, st, base, sl, node):
        if sl.step is None:
            ln = z3.simplify(z3.Length(base.t))

            def pos(e, dflt):
                if e is None:
                    return dflt
                t = self._ev_int1(e, st, node)
                tc = z3.simplify(t)
                if z3.is_int_value(tc):
                    c = tc.as_long()
                    if c < 0:
                        return z3.simplify(ln + c) if proves(self, st, ln + c >= 0, 500) else None
                    return tc if (c == 0 or proves(self, st, ln >= c, 500)) else None
                return tc if proves(self, st, z3.And(tc >= 0, tc <= ln), 500) else None
            lo, hi = pos(sl.lower, z3.IntVal(0)), pos(sl.upper, "end")
            if lo is not None and hi is not None:
                if isinstance(hi, str) or proves(self, st, lo <= hi, 500):
                    r = struct_substr(self, st, base.t, lo, None if isinstance(hi, str) else hi)
                    if r is not None:
                        return [(st, VStr(r))]
        return super().str_slice(st, base, sl, node)

    # -- transport, abstract library objects ----------------------------------
    def __init__(self, *a, unshaped_keys=(), **kw):
        super().__init__(*a, **kw)
        self.unshaped_keys = tuple(unshaped_keys)

    def feasible(self, pc, extra=None):
        """Path pruning starts from a clean solver core for every query (`reset` keeps the timeout parameter).  Measured on a
        `matches` whose date bounds go through an unmodelled helper (hundreds of prunings with havoc'd comparisons): z3's
        sequence theory, carrying internal state over from earlier push/pop rounds, sat for minutes inside one trivially
        satisfiable pruning query without honouring the 2 s timeout (0.02 s on a fresh solver).  The answer to a pruning
        query now depends on that query alone, not on the history of the path exploration."""
        self.feas.reset()
        return super().feasible(pc, extra)

    def get_attr(self, st, base, attr, node):
        if isinstance(base, VExt) and base.sort == "datetime" and attr == "tzinfo":
            # None exactly for a naive datetime; otherwise some tzinfo object (opaque)
            return [(s2, VExt("tzinfo") if aware else NONE) for (s2, aware) in _split_aware(self, st, base.t)]
        return super().get_attr(st, base, attr, node)

    def get_index(self, st, base, idx, node):
        """round 7: `item["key"]` on a parsed JSON value -- TypeError unless it is an object, KeyError when the key is absent,
        else the member exactly as `item.get("key")` gives it."""
        if isinstance(base, VExt) and base.sort == "Json" and isinstance(idx, VStr) and idx.const() is not None:
            st = self.fork_raise(st, z3.Not(J_ISDICT(base.t)), "TypeError")
            if st is None:
                return []
            st = self.fork_raise(st, z3.Not(J_HAS(base.t, sv(idx.const()))), "KeyError")
            if st is None:
                return []
            return m_json_get(self, st, base, [idx], {}, node)
        return super().get_index(st, base, idx, node)

    def apply_contract(self, st, c, args, kwargs, node):
        if c.target.endswith("::SharePointRestClient._get_json") and len(args) >= 2 and self.inline_depth == 0:
            st.ghost["requested"] = st.ghost.get("requested", ()) + (args[1],)      # which URLs this activation asks the server for
        if c.target.endswith("::SharePointRestClient.list_files_filtered") and len(args) >= 2 and isinstance(args[1], VRef) \
                and st.obj(args[1].ref).kind == "obj" and st.obj(args[1].ref).cls == "FileFilter":
            return self.delegate_filtered(st, c, args, kwargs, node)
        if c.target.endswith("::SharePointRestClient.fetch_access_token") and self.inline_depth == 0:
            st.ghost["token_fetches"] = st.ghost.get("token_fetches", 0) + 1            # round 7: `_ensure_token` fetches only when needed
        if c.target.endswith("::SharePointRestClient._send") and self.inline_depth == 0:
            rq = kwargs.get("request", args[1] if len(args) > 1 else None)
            st.ghost["sent"] = st.ghost.get("sent", ()) + (rq,)                          # round 7: requests handed to the transport wrapper
        self.applying = getattr(self, "applying", 0) + 1
        try:
            return super().apply_contract(st, c, args, kwargs, node)
        finally:
            self.applying -= 1

    def delegate_filtered(self, st, c, args, kwargs, node):
        """A convenience wrapper hands a FileFilter it built itself to list_files_filtered: the delegation is recorded
        (filter fields as they are at the call, drive id) and the delegate's yielded sequence is an opaque value D;
        list_files_filtered's own contract says what D is for that filter."""
        fobj = st.obj(args[1].ref)
        for k in FAMILY:
            s2 = st.fork()
            self.raise_in(s2, self.mk_exc(k))
        d = z3.Const(fresh_name("delegated"), SQF)
        st.ghost["delegations"] = st.ghost.get("delegations", ()) + ((dict(fobj.data), kwargs.get("drive_id", args[2] if len(args) > 2 else NONE), d, st.heap),)
        return [(st, seq_value(d, "FileMeta"))]

    def call(self, st, f, args, kwargs, node):
        if isinstance(f, VExt) and f.sort == "Transport":
            return transport_call(self, st, f, args, kwargs, node)
        if isinstance(f, VFunc) and f.how == "classattr" and f.b == "__init__" and isinstance(f.a, str) \
                and args and isinstance(args[0], VRef) and not kwargs:
            # `Exception.__init__(self, msg)` / (round 8) `Base.__init__(self, msg)` for a class of the module that, like all of
            # its ancestors, defines no constructor of its own: BaseException's -- stores `args`, touches no named attribute
            import builtins
            bt = None if f.a in self.module.classes else getattr(builtins, f.a.split(".")[-1], None)
            if (isinstance(bt, type) and issubclass(bt, BaseException)) or \
                    (f.a in self.module.classes and self.plain_exception_ancestry(f.a, own_too=True)):
                return [(st, NONE)]
        return super().call(st, f, args, kwargs, node)

    def plain_exception_ancestry(self, cname, own_too):
        """True when construction of class `cname` is left to BaseException: every ancestor (with `own_too` the class itself as
        well) is a class of the module without __init__ / __new__ / __setattr__ and without class keywords, or a built-in
        exception class."""
        import builtins
        todo, seen, first = [cname], set(), not own_too
        while todo:
            cname = todo.pop()
            if cname in seen:
                continue
            seen.add(cname)
            cd = self.module.classes.get(cname)
            if cd is None:
                b = getattr(builtins, cname, None)
                if not (isinstance(b, type) and issubclass(b, BaseException)):
                    return False
                continue
            if not first and any(isinstance(x, (_ast.FunctionDef, _ast.AsyncFunctionDef)) and x.name in ("__init__", "__new__", "__setattr__")
                                 for x in cd.body):
                return False
            if cd.keywords:
                return False
            first = False
            todo.extend(_ast.unparse(b) for b in cd.bases)
        return True

    # -- zero-argument super() inside an exception class (round 6) ---------------------
    def b_super(self, st, args, kwargs, node):
        """`super()` in a method of a class whose ancestors -- inside the module none with an __init__ / __new__ / __setattr__
        of its own, outside it only built-in exception classes -- leave construction to BaseException: the proxy's __init__
        stores its positional arguments in `args` and touches no named attribute.  Any other class: unmodelled call."""
        import builtins
        fnode = self.cur_fn_stack[-1] if self.cur_fn_stack else None
        q = next((k for k, n_ in self.module.functions.items() if n_ is fnode), None)
        if args or kwargs or q is None or "." not in q:
            return self.havoc_call(st, "super", args, node)
        if not self.plain_exception_ancestry(q.rsplit(".", 1)[0], own_too=False):
            return self.havoc_call(st, "super", args, node)
        return [(st, VExt("ExceptionSuper"))]

    # -- `f(**d)` with a dict whose keys are known (round 6) -------------------------
    def e_Call(self, n, st):
        if not any(k.arg is None for k in n.keywords) or self.is_logger_call(n):
            return super().e_Call(n, st)
        out = []
        for (s, f) in self.ev(n.func, st):
            for (s2, args) in self.ev_list(n.args, s):
                for (s3, kwvals) in self.ev_list([k.value for k in n.keywords], s2):
                    kwargs = {}
                    for k, v in zip(n.keywords, kwvals):
                        if k.arg is not None:
                            items = {k.arg: v}
                        else:
                            o = s3.obj(v.ref) if isinstance(v, VRef) else None
                            if o is None or o.kind != "dict" or o.data is None or not all(isinstance(x, str) for x in o.data):
                                self.unsupported(n, "**kwargs call")
                            items = o.data
                        for name, val in items.items():
                            if name in kwargs:
                                self.unsupported(n, f"keyword argument {name} given twice")
                            kwargs[name] = val
                    out.extend(self.call(s3, f, args, kwargs, n))
        return out

    # -- context managers (round 6) ----------------------------------------------
    def canonical_name(self, e):
        """Dotted origin of a Name / Attribute chain through the module's imports (None when not an imported name)."""
        parts = []
        while isinstance(e, _ast.Attribute):
            parts.append(e.attr)
            e = e.value
        if not isinstance(e, _ast.Name) or e.id not in self.module.imports:
            return None
        return ".".join([self.module.imports[e.id]] + parts[::-1])

    def contextmanager_generator(self, call, st):
        """`with helper(..)` where helper is a module-level / method generator decorated with @contextlib.contextmanager."""
        if not isinstance(call, _ast.Call):
            return None
        f = call.func
        if isinstance(f, _ast.Name) and st.lookup(f.id) is None and f.id in self.module.functions:
            fnode, self_val = self.module.functions[f.id], None
        elif isinstance(f, _ast.Attribute) and isinstance(f.value, _ast.Name) and f.value.id == "self" and st.lookup("self") is not None \
                and self.cur_fn_stack:
            owner = next((q for q, n in self.module.functions.items() if n is self.cur_fn_stack[-1]), None)
            cls = owner.rsplit(".", 1)[0] if owner and "." in owner else None
            fnode = self.module.functions.get(f"{cls}.{f.attr}") if cls else None
            self_val = st.lookup("self")
            if fnode is not None and any(_ast.unparse(d) == "staticmethod" for d in fnode.decorator_list):
                self_val = None
        else:
            return None
        if fnode is None or any(fnode is x for x in self.cur_fn_stack):
            return None
        if not any(self.canonical_name(d) == "contextlib.contextmanager" for d in fnode.decorator_list):
            return None
        return fnode, self_val

    @staticmethod
    def _single_yield(fnode):
        """(yield statement, code-follows-the-yield?) of a context-manager generator with exactly one `yield` statement
        outside loops / nested functions; None for any other shape."""
        found = []

        def walk(block, tail_clean, in_loop):
            for k, stmt in enumerate(block):
                clean = tail_clean and k == len(block) - 1
                if isinstance(stmt, _ast.Expr) and isinstance(stmt.value, _ast.Yield):
                    found.append((stmt, not clean, in_loop))
                    continue
                if isinstance(stmt, (_ast.FunctionDef, _ast.AsyncFunctionDef, _ast.ClassDef)):
                    continue
                if any(isinstance(x, (_ast.Yield, _ast.YieldFrom)) for sub in _ast.iter_child_nodes(stmt)
                       if not isinstance(sub, _ast.stmt) and not isinstance(sub, _ast.ExceptHandler) for x in _ast.walk(sub)):
                    found.append((None, True, True))       # a yield in expression position
                if isinstance(stmt, _ast.Try):
                    walk(stmt.body, clean and not stmt.orelse, in_loop)
                    for h in stmt.handlers:
                        walk(h.body, clean, in_loop)
                    walk(stmt.orelse, clean, in_loop)
                    walk(stmt.finalbody, False, in_loop)
                elif isinstance(stmt, _ast.If):
                    walk(stmt.body, clean, in_loop)
                    walk(stmt.orelse, clean, in_loop)
                elif isinstance(stmt, (_ast.With,)):
                    walk(stmt.body, False, in_loop)
                elif isinstance(stmt, (_ast.For, _ast.While)):
                    walk(stmt.body, False, True)
                    walk(stmt.orelse, False, True)
                elif hasattr(stmt, "body") and isinstance(getattr(stmt, "body"), list):
                    walk(stmt.body, False, True)
        walk(fnode.body, True, False)
        if len(found) != 1 or found[0][0] is None or found[0][2]:
            return None
        return found[0][0], found[0][1]

    def s_With(self, s, st):
        """Two context managers are executed as the code they stand for (anything else: the engine's rule).
        * `with contextlib.suppress(E..): B`  ==  `try: B  except (E..): pass`;
        * `with cm(args) [as v]: B`, cm a @contextlib.contextmanager generator of this module with a single `yield`
          statement outside loops: the generator's body runs in its own frame and B runs, in the caller's frame, at the yield
          (an exception of B is raised at the yield: generator.throw; what the generator does not catch or raises itself
          propagates; handled and finished = suppressed).  A `return` / `break` / `continue` leaving B while code follows the
          yield, a generator that finishes without reaching its yield: out of subset."""
        if len(s.items) != 1:
            if any(self._with_kind(it.context_expr, st) for it in s.items):
                inner = _ast.With(items=s.items[1:], body=s.body, type_comment=None)
                outer = _ast.With(items=s.items[:1], body=[_ast.copy_location(inner, s)], type_comment=None)
                return self.s_With(_ast.copy_location(outer, s), st)
            return super().s_With(s, st)
        item = s.items[0]
        kind = self._with_kind(item.context_expr, st)
        if kind == "suppress":
            if item.context_expr.keywords or any(isinstance(a, _ast.Starred) for a in item.context_expr.args):
                self.unsupported(s, "suppress(..) with starred / keyword arguments")
            if not item.context_expr.args:
                return self.exec_block(s.body, st)
            h = _ast.ExceptHandler(type=_ast.Tuple(elts=list(item.context_expr.args), ctx=_ast.Load()), name=None, body=[_ast.Pass()])
            t = _ast.Try(body=s.body, handlers=[h], orelse=[], finalbody=[])
            _ast.copy_location(t, s)
            _ast.fix_missing_locations(t)
            return self.s_Try(t, st)
        if kind == "closing":
            res = item.context_expr.args[0]
            pre = [] if item.optional_vars is None else [_ast.Assign(targets=[item.optional_vars], value=res)]
            fin = _ast.Expr(value=_ast.Call(func=_ast.Attribute(value=res, attr="close", ctx=_ast.Load()), args=[], keywords=[]))
            t = _ast.Try(body=s.body, handlers=[], orelse=[], finalbody=[fin])
            stmts = pre + [t]
            for x in stmts:
                _ast.fix_missing_locations(_ast.copy_location(x, s))
            return self.exec_block(stmts, st)
        if kind == "generator":
            return self.with_generator(s, st, item)
        return super().s_With(s, st)

    def _with_kind(self, e, st):
        if isinstance(e, _ast.Call) and self.canonical_name(e.func) == "contextlib.suppress":
            return "suppress"
        if isinstance(e, _ast.Call) and self.canonical_name(e.func) == "contextlib.closing" and len(e.args) == 1 and not e.keywords \
                and isinstance(e.args[0], _ast.Name):
            return "closing"       # `with closing(x) [as v]: B` == `[v = x]; try: B finally: x.close()` (x a plain name)
        if self.contextmanager_generator(e, st) is not None:
            return "generator"
        return None

    def with_generator(self, s, st, item):
        from pyvc.state import Frame
        call = item.context_expr
        fnode, self_val = self.contextmanager_generator(call, st)
        shape = self._single_yield(fnode)
        if shape is None:
            self.unsupported(s, f"context manager {fnode.name}: not a single `yield` statement outside loops")
        ystmt, code_follows = shape
        if any(k.arg is None for k in call.keywords) or any(isinstance(a, _ast.Starred) for a in call.args):
            self.unsupported(s, "**kwargs call")
        outs = []
        key = f"cm-entered@{id(s)}"
        for (s1, args) in self.ev_list(call.args, st):
            for (s2, kwvals) in self.ev_list([k.value for k in call.keywords], s1):
                env = self.bind_params(fnode, args, {k.arg: v for k, v in zip(call.keywords, kwvals)}, call, self_val=self_val)
                s2.frames.append(Frame(env, None, fnode))
                s2.ghost.pop(key, None)
                self.cur_fn_stack.append(fnode)
                self._cm_sites = getattr(self, "_cm_sites", [])
                self._cm_sites.append((ystmt, s, item, key, code_follows))
                try:
                    res = self.exec_block(fnode.body, s2)
                finally:
                    self.cur_fn_stack.pop()
                    self._cm_sites.pop()
                for o in res:
                    o.st.frames.pop()
                    if o.kind == "raise":
                        outs.append(o)
                    elif o.kind == "cm-exit":
                        outs.append(Outcome(o.val[0], o.st, o.val[1]))
                    elif o.kind in ("fall", "return"):
                        if not o.st.ghost.get(key):
                            self.unsupported(s, f"context manager {fnode.name} can finish without reaching its yield")
                        outs.append(Outcome("fall", o.st))
                    else:
                        self.unsupported(s, f"{o.kind} leaving a context-manager generator")
        return outs

    def cm_yield(self, ystmt, st):
        """The single yield of a context-manager generator: the body of the `with` statement runs here, in the caller's frame."""
        _y, w, item, key, code_follows = self._cm_sites[-1]
        outs = []
        vals = self.ev(ystmt.value.value, st) if ystmt.value.value is not None else [(st, NONE)]
        for (s1, v) in vals:
            gframe = s1.frames.pop()
            gfn = self.cur_fn_stack.pop()
            sites = self._cm_sites
            self._cm_sites = sites[:-1]
            try:
                s1.ghost[key] = True
                starts = self.assign(item.optional_vars, v, s1) if item.optional_vars is not None else [s1]
                res = [o for s2 in starts for o in self.exec_block(w.body, s2)]
            finally:
                self.cur_fn_stack.append(gfn)
                self._cm_sites = sites
            for o in res:
                o.st.frames.append(gframe.copy())
                if o.kind in ("fall", "raise"):
                    outs.append(o)
                elif code_follows:
                    self.unsupported(w, f"{o.kind} leaves the with-body while the context manager has code after its yield")
                else:
                    outs.append(Outcome("cm-exit", o.st, (o.kind, o.val)))
        return outs

    def handler_classes(self, h, st):
        # urllib.error.X / json.JSONDecodeError and their short aliases are one class each
        return [n.split(".")[-1] if n.split(".")[0] in ("urllib", "json") else n for n in super().handler_classes(h, st)]

    def mk_exc(self, cls, **attrs):
        if cls == "SharePointRequestError" and "status_code" not in attrs:
            attrs["status_code"] = VInt(z3.Int(fresh_name("status_code")))   # None behaves like a non-matching int under ==
        return super().mk_exc(cls, **attrs)

    def truth(self, st, v):
        if isinstance(v, VSymBag):
            return VBool(v.nonempty())
        if isinstance(v, VExt) and v.sort == "Bytes":
            return VBool(BLEN(v.t) > 0)
        if isinstance(v, VExt) and v.sort == "Json":
            return VBool(J_TRUTHY(v.t))
        return super().truth(st, v)

    def str_method_encode(self, st, s):
        return [(st, VExt("Bytes", ENC(s.t)))]

    def b_getattr(self, st, args, kwargs, node):
        if len(args) == 3 and isinstance(args[0], VExt) and args[0].sort == "Response" and isinstance(args[1], VStr) \
                and args[1].const() == "status":
            r = args[0].t
            a = st.fork().assume(z3.Not(R_HAS_STATUS(r)))
            b = st.fork().assume(z3.And(R_HAS_STATUS(r), R_STATUS_NONE(r)))
            c = st.assume(z3.And(R_HAS_STATUS(r), z3.Not(R_STATUS_NONE(r))))
            return [(a, args[2]), (b, NONE), (c, VInt(R_STATUS(r)))]
        return super().b_getattr(st, args, kwargs, node)

    def b_isinstance(self, st, args, kwargs, node):
        v, t = args
        if isinstance(v, VExt) and v.sort == "Json":
            names = [x.name for x in (t.items if isinstance(t, VTuple) else [t])]
            if names == ["dict"]:
                return [(st, VBool(J_ISDICT(v.t)))]
            if names == ["str"]:
                return [(st, VBool(J_ISSTR(v.t)))]
        return super().b_isinstance(st, args, kwargs, node)

    # -- loop specifications are chosen by the ROLE of a loop (what it iterates over), never by its position or by
    #    the names of its locals: `while <cursor>` | for over JSON items | for over file records | for over strings.
    #    The cursor of a while loop is the variable its test reads; the accumulator is the one list the body appends to.
    def loop_role(self, node, it, st):
        if isinstance(node, _ast.While):
            return "while"
        view = None
        try:
            view = self.seq_view(st, it)
        except ops.Unsupported:
            view = None
        if view is None:
            return None
        probe = view[1](z3.Int("probe!role"))
        if isinstance(probe, VExt) and probe.sort in ("Json", "FileMeta"):
            return "for-json" if probe.sort == "Json" else "for-records"
        if isinstance(probe, VStr):
            return "for-strings"
        return None

    def loop_spec(self, node):
        c = self.contract
        if c is None or not any(isinstance(k, str) for k in c.loops):
            return super().loop_spec(node)
        it = self._iter_stack[-1] if getattr(self, "_iter_stack", None) and not isinstance(node, _ast.While) else None
        st = self._iter_state[-1] if getattr(self, "_iter_state", None) and not isinstance(node, _ast.While) else None
        role = self.loop_role(node, it, st)
        return c.loops.get(role)

    def symbolic_for(self, s, st, it):
        self.__dict__.setdefault("_iter_stack", []).append(it)
        self.__dict__.setdefault("_iter_state", []).append(st)
        try:
            spec = self.loop_spec(s)
            if (spec is None or spec.inv is None) and isinstance(it, VSeq):
                summary = self.search_loop(s, st, it)
                if summary is not None:
                    return summary
            if spec is None or spec.inv is None:
                # a symbolic loop without an invariant is cut with `True` (everything it assigns is forgotten): an
                # over-approximation, so a VC that fails afterwards is `unknown`, never a counterexample by itself
                st.assume(z3.Bool(f"__havoc__@{self.loc(s)} loop over a symbolic sequence without an invariant"[:120]))
            if spec is not None and self.loop_role(s, it, st) == "for-records":
                st.assume(take_all())     # proved lemma (lemmas(): take-all.*), added only where a loop walks a record sequence
            if getattr(spec, "acc_sort", None) is not None:
                acc = self.accumulator(st, s.body)
                if acc is None:
                    self.unsupported(s, "loop with an accumulator invariant: no unique list the body appends to")
                st.ghost["acc"] = st.lookup(acc).ref
            return super().symbolic_for(s, st, it)
        finally:
            self._iter_stack.pop()
            self._iter_state.pop()

    def search_loop(self, s, st, it):
        """A `for` over a symbolic sequence whose iterations change nothing unless they leave the loop (`for x in xs: if p(x):
        return / break / raise`) needs no invariant: it is summarised exactly.  The body is run once at an arbitrary index i;
        with stay(i) = the condition under which iteration i falls through (state untouched),
          * leaving at i (return / raise / break) happens under  0 <= i < n  and  forall k < i. stay(k);
          * the loop ends normally under  forall k < n. stay(k)  (then the `else` block runs).
        Returns None (caller falls back to the havoc cut) when an iteration that stays has any effect, or when its condition
        mentions a value created inside the body."""
        view = self.seq_view(st, it)
        if view is None or self._has_yield(s.body):
            return None
        n, elem = view
        mark = int(fresh_name("search").rsplit("!", 1)[1])
        i = z3.Int(fresh_name("i"))
        probe = st.fork()
        base_len = len(probe.pc)
        probe.assume(z3.And(i >= 0, i < n))
        targets = {x.id for x in _ast.walk(s.target) if isinstance(x, _ast.Name)}
        n_obls = getattr(self, "_vc_count", 0)
        starts = self.assign(s.target, elem(i), probe)
        if len(starts) != 1:
            return None
        ref = starts[0]
        snap_env = [dict(f.env) for f in ref.frames]
        snap_heap, snap_ghost, snap_y, snap_pc = dict(ref.heap), dict(ref.ghost), len(ref.yielded), len(ref.pc)
        outs = self.exec_block(s.body, ref.fork())
        if getattr(self, "_vc_count", 0) != n_obls:
            self.unsupported(s, "verification condition generated inside an invariant-less loop over a symbolic sequence")

        def same(a, b):
            if a is b:
                return True
            ta, tb = getattr(a, "t", None), getattr(b, "t", None)
            return type(a) is type(b) and ta is not None and tb is not None and z3.is_expr(ta) and z3.is_expr(tb) and ta.eq(tb)

        def untouched(o):
            if len(o.st.frames) != len(snap_env) or o.st.yielded.__len__() != snap_y:
                return False
            for fr, env in zip(o.st.frames, snap_env):
                if set(fr.env) - targets != set(env) - targets:
                    return False
                if any(not same(fr.env[k], env[k]) for k in env if k not in targets):
                    return False
            if set(o.st.heap) != set(snap_heap) or any(o.st.heap[r] is not snap_heap[r] for r in snap_heap):
                return False
            return set(o.st.ghost) == set(snap_ghost) and all(o.st.ghost[k] is snap_ghost[k] or o.st.ghost[k] == snap_ghost[k] for k in snap_ghost)

        def local_consts(t, seen):
            todo = [t]
            while todo:
                x = todo.pop()
                if x.get_id() in seen:
                    continue
                seen.add(x.get_id())
                if z3.is_quantifier(x):
                    todo.append(x.body())
                elif z3.is_app(x):
                    if x.num_args() == 0 and x.decl().kind() == z3.Z3_OP_UNINTERPRETED and not x.eq(i):
                        nm = x.decl().name()
                        if "!" in nm and nm.rsplit("!", 1)[1].isdigit() and int(nm.rsplit("!", 1)[1]) > mark:
                            return True
                    todo.extend(x.children())
            return False

        stay, exits = [], []
        for o in outs:
            if o.kind in ("fall", "continue"):
                try:
                    ok = untouched(o)
                except Exception:      # values without structural equality
                    ok = False
                delta = o.st.pc[snap_pc:]
                if not ok or any(local_consts(d, set()) for d in delta):
                    return None
                stay.append(z3.And(delta) if delta else z3.BoolVal(True))
            elif o.kind in ("return", "raise", "break"):
                exits.append(o)
            else:
                return None
        stay_i = z3.simplify(z3.Or(stay)) if stay else z3.BoolVal(False)
        k = z3.Int(fresh_name("k"))
        stay_k = z3.substitute(stay_i, (i, k))
        res = []
        for o in exits:
            if not z3.is_true(stay_i):
                o.st.assume(z3.ForAll([k], z3.Implies(z3.And(k >= 0, k < i), stay_k)))
            res.append(Outcome("fall", o.st) if o.kind == "break" else o)
        if not z3.is_false(stay_i):
            done = st
            if not z3.is_true(stay_i):
                done.assume(z3.ForAll([k], z3.Implies(z3.And(k >= 0, k < n), stay_k)))
            if s.orelse:
                res.extend(self.exec_block(s.orelse, done))
            else:
                res.append(Outcome("fall", done))
        return res

    def _exec_stmt(self, s, st):
        # a Python exception inside the engine / the pack's models on an unforeseen code shape is a gap of the model, not a
        # fact about the code: the function leaves the verifiable subset (obligations `unknown`, native replayer decides)
        try:
            return super()._exec_stmt(s, st)
        except (AttributeError, TypeError, KeyError, IndexError, z3.Z3Exception) as e:
            import traceback
            where = traceback.extract_tb(e.__traceback__)[-1]
            raise ops.Unsupported(f"{self.loc(s)} model does not cover this shape: {type(e).__name__}: {e} @ {where.name}:{where.lineno}")

    def add_vc(self, kind, label, pc, goal, note="", loc=""):
        self._vc_count = getattr(self, "_vc_count", 0) + 1
        g = goal.t if isinstance(goal, VBool) else (z3.BoolVal(goal) if isinstance(goal, bool) else goal)
        pc = list(pc)
        super().add_vc(kind, label, pc + unfold_instances(pc + [g]), g, note, loc)

    def assign(self, tgt, v, st):
        if isinstance(v, VExt) and v.sort == "Json" and z3.is_app(v.t) and v.t.decl().kind() == z3.Z3_OP_SEQ_NTH:
            seq_t, idx = v.t.arg(0), v.t.arg(1)
            if ("all-folders", seq_t.get_id()) in st.ghost:
                # instance of members-by-index (lemmas()) for the folder list returned by _get_folders_from_url
                st.assume(z3.Implies(z3.And(idx >= 0, idx < z3.Length(seq_t)), is_folder(v.t)))
        return super().assign(tgt, v, st)

    def accumulator(self, st, body):
        """Name of the one local list the loop body mutates (None if there is not exactly one)."""
        names = []
        cur = st.ghost.get("acc")
        if cur is not None:
            for name, v in st.frame.env.items():
                if isinstance(v, VRef) and v.ref == cur and cur in self.mutated_refs(body, st):
                    return name
        fr = st.frame
        for name, v in fr.env.items():
            if isinstance(v, VRef) and v.ref in st.heap and st.heap[v.ref].kind in ("list", "seqlist") and v.ref in self.mutated_refs(body, st):
                names.append(name)
        return names[0] if len(names) == 1 else None

    # -- comprehension == loop: `yield from (e for x in S if c)`, `L.extend([e for x in S if c])`, `[e for x in S if c]`
    #    over a symbolic sequence are executed as the equivalent for-loop (so the same invariant applies)
    def comp_as_loop(self, comp, body_stmt):
        g = comp.generators[0]
        inner = body_stmt
        for cnd in reversed(g.ifs):
            inner = _ast.If(test=cnd, body=[inner], orelse=[])
        loop = _ast.For(target=g.target, iter=g.iter, body=[inner], orelse=[], type_comment=None)
        _ast.copy_location(loop, comp)
        _ast.fix_missing_locations(loop)
        return loop

    def run_desugared(self, stmts, st, node):
        out = []
        for o in self.exec_block(stmts, st):
            if o.kind == "fall":
                out.append(o.st)
            elif o.kind == "raise":
                self.raise_in(o.st, o.val)
            else:
                self.unsupported(node, f"{o.kind} leaving a comprehension")
        return out

    def single_symbolic_comp(self, e, st):
        if not isinstance(e, (_ast.GeneratorExp, _ast.ListComp)) or len(e.generators) != 1 or e.generators[0].is_async:
            return False
        mark = len(self.sinks[-1])
        try:
            its = self.ev(e.generators[0].iter, st.fork())
        except ops.Unsupported:
            its = []
        del self.sinks[-1][mark:]
        return bool(its) and any(self.concrete_items(s2, it) is None for (s2, it) in its)

    def on_yield(self, st, v, node):
        if isinstance(v, VExt) and v.sort == "FileMeta" and self.inline_depth == 0:
            st.ghost["Y"] = z3.Concat(ghost_y(st), z3.Unit(v.t))
        else:
            st.ghost["Y_unknown"] = True

    def generator_helper(self, st, call):
        """`yield from helper(...)` where helper is a generator of this module without a contract: (fnode, self value)."""
        if not isinstance(call, _ast.Call):
            return None
        f = call.func
        if isinstance(f, _ast.Attribute) and isinstance(f.value, _ast.Name) and f.value.id == "self":
            obj = st.lookup("self")
            if not (isinstance(obj, VRef) and st.obj(obj.ref).kind == "obj"):
                return None
            q = f"{st.obj(obj.ref).cls}.{f.attr}"
            if self.reg.get(f"{self.module.rel}::{q}") is not None:
                return None
            fnode = self.module.functions.get(q)
            static = fnode is not None and any(_ast.unparse(d) == "staticmethod" for d in fnode.decorator_list)
            self_val = None if static else obj
        elif isinstance(f, _ast.Name) and st.lookup(f.id) is None and f.id in self.module.functions \
                and self.reg.get(f"{self.module.rel}::{f.id}") is None:
            fnode, self_val = self.module.functions[f.id], None
        else:
            return None
        if fnode is None or any(fnode is x for x in self.cur_fn_stack):
            return None
        if not any(isinstance(x, (_ast.Yield, _ast.YieldFrom)) for x in _ast.walk(fnode)):
            return None
        return fnode, self_val

    def yield_from_helper(self, n, st, fnode, self_val):
        """PEP 380: `yield from g(...)` runs g's body as part of this generator: what it yields is yielded here."""
        from pyvc.state import Frame
        out = []
        call = n.value
        for (s1, args) in self.ev_list(call.args, st):
            for (s2, kwvals) in self.ev_list([k.value for k in call.keywords], s1):
                if any(k.arg is None for k in call.keywords):
                    self.unsupported(n, "**kwargs call")
                env = self.bind_params(fnode, args, {k.arg: v for k, v in zip(call.keywords, kwvals)}, call, self_val=self_val)
                s2.frames.append(Frame(env, None, fnode))
                self.cur_fn_stack.append(fnode)
                try:
                    res = self.exec_block(fnode.body, s2)
                finally:
                    self.cur_fn_stack.pop()
                for o in res:
                    o.st.frames.pop()
                    if o.kind in ("fall", "return"):
                        out.append((o.st, NONE))
                    elif o.kind == "raise":
                        self.raise_in(o.st, o.val)
                    else:
                        self.unsupported(n, f"{o.kind} leaving a generator helper")
        return out

    # -- `for x in helper(..): BODY` over an uncontracted generator of the module (round 6) ------------------------
    def loop_over_helper(self, s, st):
        """The loop is executed as the helper's body with every `yield v` replaced by `for x in (v,): BODY` and every
        `yield from E` by `for x in E: BODY` (push form of the same iteration; the helper's locals are renamed apart, its
        parameters are assigned from the call's arguments).  That is the code the loop runs when nothing leaves it early, so
        the shapes where something could are out of subset: `break` in BODY, `return` in the helper, a yield inside try / with
        (generator close would run handlers), yields in expression position, nested functions.  -> statements or None."""
        h = self.generator_helper(st, s.iter) if isinstance(s.iter, _ast.Call) else None
        if h is None:
            return None
        fnode, self_val = h
        call = s.iter
        cached = self.__dict__.setdefault("_helper_loops", {}).get(id(s))
        if cached is not None:
            return cached

        def breaks(stmts):
            for x in stmts:
                if isinstance(x, _ast.Break):
                    return True
                if isinstance(x, (_ast.For, _ast.While, _ast.FunctionDef, _ast.AsyncFunctionDef, _ast.ClassDef)):
                    if isinstance(x, (_ast.For, _ast.While)) and breaks(x.orelse):
                        return True
                    continue
                for fld in ("body", "orelse", "finalbody"):
                    if breaks(getattr(x, fld, []) or []):
                        return True
                if any(breaks(hd.body) for hd in getattr(x, "handlers", [])):
                    return True
            return False
        if breaks(s.body) or any(isinstance(k, _ast.Starred) for k in call.args) or any(k.arg is None for k in call.keywords):
            self.unsupported(s, "loop over a generator helper: break in the body / starred arguments")
        # round 7: a bare `return` directly inside the helper's LAST statement, when that is a loop without `else`, ends the
        # generator exactly like `break` of that loop (nothing of the helper runs after it); such returns are executed as the
        # break they stand for.  Not below a nested loop (break would leave the wrong loop) nor try / with (kept out of subset).
        real = [x for x in fnode.body if not (isinstance(x, _ast.Expr) and isinstance(x.value, _ast.Constant))]
        as_break = set()
        if real and isinstance(real[-1], (_ast.While, _ast.For)) and not real[-1].orelse:
            def tail_returns(stmts):
                for x in stmts:
                    if isinstance(x, _ast.Return) and (x.value is None or (isinstance(x.value, _ast.Constant) and x.value.value is None)):
                        as_break.add((x.lineno, x.col_offset))
                    elif isinstance(x, _ast.If):
                        tail_returns(x.body)
                        tail_returns(x.orelse)
            tail_returns(real[-1].body)
        for x in _ast.walk(fnode):
            if isinstance(x, _ast.Return) and (x.lineno, x.col_offset) in as_break:
                continue
            if x is not fnode and isinstance(x, (_ast.FunctionDef, _ast.AsyncFunctionDef, _ast.Lambda, _ast.ClassDef, _ast.Return, _ast.Global,
                                                 _ast.Nonlocal, _ast.Await)):
                self.unsupported(s, f"loop over generator helper {fnode.name}: {type(x).__name__} inside the helper")
        a = fnode.args
        if a.vararg or a.kwarg or a.posonlyargs:
            self.unsupported(s, f"loop over generator helper {fnode.name}: variadic parameters")
        params = [p.arg for p in a.args]
        if self_val is not None:
            params = params[1:]
        pre = f"_g{s.lineno}_{s.col_offset}_"
        given = dict(zip(params, call.args))
        if len(call.args) > len(params):
            self.unsupported(s, "too many positional args")
        for k in call.keywords:
            if k.arg in given or k.arg not in params + [p.arg for p in a.kwonlyargs]:
                self.unsupported(s, f"unexpected keyword {k.arg}")
            given[k.arg] = k.value
        dflt = dict(zip([p.arg for p in a.args][len(a.args) - len(a.defaults):], a.defaults))
        dflt.update({p.arg: d for p, d in zip(a.kwonlyargs, a.kw_defaults) if d is not None})
        local = set(params) | {p.arg for p in a.kwonlyargs}
        for x in _ast.walk(fnode):
            if isinstance(x, _ast.Name) and isinstance(x.ctx, (_ast.Store, _ast.Del)):
                local.add(x.id)
            elif isinstance(x, _ast.ExceptHandler) and x.name:
                self.unsupported(s, "named exception handler inside a generator helper")
        keep_self = a.args[0].arg if self_val is not None and a.args else None
        if keep_self is not None and keep_self != "self":
            self.unsupported(s, "generator helper whose first parameter is not called self")
        local.discard(keep_self)
        binds = []
        for pname in params + [p.arg for p in a.kwonlyargs]:
            src = given.get(pname, dflt.get(pname))
            if src is None or (pname not in given and not isinstance(src, _ast.Constant)):
                self.unsupported(s, f"loop over generator helper {fnode.name}: argument {pname}")
            binds.append(_ast.Assign(targets=[_ast.Name(id=pre + pname, ctx=_ast.Store())], value=src))
        import copy

        class Ren(_ast.NodeTransformer):
            def visit_Name(self, node):
                return _ast.copy_location(_ast.Name(id=pre + node.id, ctx=node.ctx), node) if node.id in local else node

            def visit_Return(self, node):
                return _ast.copy_location(_ast.Break(), node) if (node.lineno, node.col_offset) in as_break else node
        outer = self

        def rewrite(stmts, guarded):
            out = []
            for x in stmts:
                if isinstance(x, _ast.Expr) and isinstance(x.value, (_ast.Yield, _ast.YieldFrom)):
                    if guarded:
                        outer.unsupported(s, "yield inside try / with of a generator helper")
                    v = x.value.value
                    if isinstance(x.value, _ast.Yield):
                        v = _ast.Tuple(elts=[v if v is not None else _ast.Constant(value=None)], ctx=_ast.Load())
                    if any(isinstance(y, (_ast.Yield, _ast.YieldFrom)) for y in _ast.walk(v)):
                        outer.unsupported(s, "nested yield")
                    out.append(_ast.copy_location(_ast.For(target=s.target, iter=v, body=s.body, orelse=[], type_comment=None), x))
                    continue
                for sub in _ast.iter_child_nodes(x):
                    if not isinstance(sub, (_ast.stmt, _ast.ExceptHandler)) and any(isinstance(y, (_ast.Yield, _ast.YieldFrom)) for y in _ast.walk(sub)):
                        outer.unsupported(s, "yield in expression position inside a generator helper")
                g2 = guarded or isinstance(x, (_ast.Try, _ast.With))
                for fld in ("body", "orelse", "finalbody"):
                    if isinstance(getattr(x, fld, None), list):
                        setattr(x, fld, rewrite(getattr(x, fld), g2))
                for hd in getattr(x, "handlers", []):
                    hd.body = rewrite(hd.body, True)
                out.append(x)
            return out
        body = [Ren().visit(copy.deepcopy(x)) for x in fnode.body
                if not (isinstance(x, _ast.Expr) and isinstance(x.value, _ast.Constant))]
        stmts = binds + rewrite(body, False) + list(s.orelse)
        for x in stmts:
            _ast.fix_missing_locations(_ast.copy_location(x, s) if not hasattr(x, "lineno") else x)
        self._helper_loops[id(s)] = stmts
        self.__dict__.setdefault("_helper_keep", []).append(s)
        return stmts

    def s_For(self, s, st):
        if self.inline_depth == 0:
            stmts = self.loop_over_helper(s, st)
            if stmts is not None:
                return self.exec_block(stmts, st)
            if self.is_reyield_loop(s, st):
                # round 8: `for x in E: yield x` == `yield from E` (same yields in the same order, same exceptions and effects;
                # only send()/throw() delegation differs, which no clause observes)
                y = _ast.Expr(value=_ast.YieldFrom(value=s.iter))
                _ast.copy_location(y, s)
                _ast.fix_missing_locations(y)
                return self.exec_block([y], st)
        return super().s_For(s, st)

    def is_reyield_loop(self, s, st):
        """`for x in E: yield x` with nothing else in the body, no `else`, x a plain name that the function reads nowhere else
        (after a `yield from` it would stay unbound), in a function whose contract has no loop specification for the role of
        this loop (a loop that has its invariant keeps it)."""
        if s.orelse or len(s.body) != 1 or not isinstance(s.target, ast_Name) or not isinstance(s, _ast.For):
            return False
        b = s.body[0]
        if not (isinstance(b, _ast.Expr) and isinstance(b.value, _ast.Yield) and isinstance(b.value.value, ast_Name)
                and b.value.value.id == s.target.id):
            return False
        fnode = self.cur_fn_stack[-1] if self.cur_fn_stack else None
        if fnode is None or any(isinstance(x, ast_Name) and x.id == s.target.id and x is not b.value.value and x is not s.target
                                for x in _ast.walk(fnode)):
            return False
        c = self.contract
        if c is None or not any(isinstance(k, str) for k in c.loops):
            return False
        role = self.role_of_iter(s.iter, st)
        return role is not None and role not in c.loops

    def e_YieldFrom(self, n, st):
        if self.inline_depth == 0:
            h = self.generator_helper(st, n.value)
            if h is not None:
                return self.yield_from_helper(n, st, *h)
        if self.inline_depth == 0 and self.single_symbolic_comp(n.value, st):
            y = _ast.Expr(value=_ast.Yield(value=n.value.elt))
            loop = self.comp_as_loop(n.value, y)
            return [(s2, NONE) for s2 in self.run_desugared([loop], st, n)]
        out = []
        for (s, v) in self.ev(n.value, st):
            if isinstance(v, VSeq) and isinstance(v.tag, tuple) and v.tag[0] == "seq" and self.inline_depth == 0:
                s.ghost["Y"] = z3.Concat(ghost_y(s), v.tag[1])
                out.append((s, NONE))
            else:
                s.ghost["Y_unknown"] = True
                out.extend(super().e_YieldFrom(n, s))
        return out

    def s_Expr(self, s, st):
        v = s.value
        if getattr(self, "_cm_sites", None) and s is self._cm_sites[-1][0]:
            return self.cm_yield(s, st)
        if isinstance(v, _ast.Call) and isinstance(v.func, _ast.Attribute) and v.func.attr == "extend" and len(v.args) == 1 \
                and not v.keywords and isinstance(v.func.value, _ast.Name) and self.single_symbolic_comp(v.args[0], st):
            app = _ast.Expr(value=_ast.Call(func=_ast.Attribute(value=v.func.value, attr="append", ctx=_ast.Load()),
                                            args=[v.args[0].elt], keywords=[]))
            loop = self.comp_as_loop(v.args[0], app)
            return [Outcome("fall", s2) for s2 in self.run_desugared([loop], st, s)]
        return super().s_Expr(s, st)

    def e_ListComp(self, n, st):
        over_helper = self.inline_depth == 0 and len(n.generators) == 1 and not n.generators[0].is_async \
            and isinstance(n.generators[0].iter, _ast.Call) and self.generator_helper(st, n.generators[0].iter) is not None
        if over_helper or self.inline_depth == 0 and self.single_symbolic_comp(n, st) and self.contract is not None \
                and any(isinstance(k, str) for k in self.contract.loops) and isinstance(n.generators[0].target, ast_Name) \
                and self.role_of_iter(n.generators[0].iter, st) in self.contract.loops:
            tmp = f"_comp{n.lineno}_{n.col_offset}"
            init = _ast.Assign(targets=[_ast.Name(id=tmp, ctx=_ast.Store())], value=_ast.List(elts=[], ctx=_ast.Load()))
            app = _ast.Expr(value=_ast.Call(func=_ast.Attribute(value=_ast.Name(id=tmp, ctx=_ast.Load()), attr="append", ctx=_ast.Load()),
                                            args=[n.elt], keywords=[]))
            loop = self.comp_as_loop(n, app)
            _ast.copy_location(init, n)
            _ast.fix_missing_locations(init)
            return [(s2, s2.lookup(tmp)) for s2 in self.run_desugared([init, loop], st, n)]
        return self.e_ListComp_sym(n, st)

    def role_of_iter(self, e, st):
        mark = len(self.sinks[-1])
        try:
            its = self.ev(e, st.fork())
        except ops.Unsupported:
            its = []
        del self.sinks[-1][mark:]
        roles = {self.loop_role(_ast.For(), it, s2) for (s2, it) in its if self.concrete_items(s2, it) is None}
        return roles.pop() if len(roles) == 1 else None

    # -- lists built by append inside symbolic loops: heap kind 'seqlist' (data = z3 Seq term) --
    def havoc_loop_state(self, st, body, spec, extra_names=()):
        keep = {}
        acc_sort = getattr(spec, "acc_sort", None)
        if acc_sort is not None:
            name = self.accumulator(st, body)
            if name is None:
                self.unsupported(body[0] if body else None, "loop with an accumulator invariant: no unique list the body appends to")
            st.ghost["acc"] = st.lookup(name).ref
            keep[st.lookup(name).ref] = (name, acc_sort)
        # the client object: callee contracts' frames only touch `_access_token` (token_frame); a loop body without
        # direct attribute stores therefore leaves every other field as it is
        clients = {}
        if not any(isinstance(n, _ast.Attribute) and isinstance(n.ctx, _ast.Store) for b in body for n in _ast.walk(b)):
            for ref in self.mutated_refs(body, st):
                o = st.heap.get(ref)
                if o is not None and o.kind == "obj" and o.cls == "SharePointRestClient" and o.data is not None:
                    clients[ref] = o
        super().havoc_loop_state(st, body, spec, extra_names)
        for ref, o in clients.items():
            st.heap[ref] = HeapObj("obj", dict(o.data, _access_token=VUnk("token-maybe-fetched")), o.cls, o.fresh)
        for ref, (name, sort) in keep.items():
            st.heap[ref] = HeapObj("seqlist", z3.Const(fresh_name(name), z3.SeqSort(sort)), SEQ_ELEM_KIND[sort.name()], True)
        if self._has_yield(body):
            st.ghost["Y"] = z3.Const(fresh_name("Y"), SQF)

    def list_method(self, st, obj, name, args, kwargs, node):
        o = st.obj(obj.ref)
        if name == "extend" and len(args) == 1 and isinstance(args[0], VSeq) and isinstance(args[0].tag, tuple) and args[0].tag[0] == "seq" \
                and o.kind in ("list", "seqlist"):
            # extending by the value of a call under contract (a generator's yielded sequence / a returned list)
            term = args[0].tag[1]
            cur = seq_of(st, obj, term.sort().basis())
            if cur is not None:
                st.heap[obj.ref] = HeapObj("seqlist", z3.Concat(cur, term), SEQ_ELEM_KIND[term.sort().basis().name()], o.fresh)
                return [(st, NONE)]
        if o.kind == "seqlist":
            if name == "append" and isinstance(args[0], VExt) and args[0].sort == o.cls:
                st.wobj(obj.ref).data = z3.Concat(o.data, z3.Unit(args[0].t))
                return [(st, NONE)]
            self.unsupported(node, f"list.{name} on a list built in a symbolic loop")
        return super().list_method(st, obj, name, args, kwargs, node)

    def call_method(self, st, obj, name, args, kwargs, node):
        if isinstance(obj, VRef) and st.obj(obj.ref).kind == "seqlist":
            return self.list_method(st, obj, name, args, kwargs, node)
        return super().call_method(st, obj, name, args, kwargs, node)

    def seq_view(self, st, it):
        if isinstance(it, VRef) and st.obj(it.ref).kind == "seqlist":
            o = st.obj(it.ref)
            return z3.Length(o.data), (lambda i, o=o: VExt(o.cls, o.data[i]))
        return super().seq_view(st, it)

    # -- while loops with a ghost iteration counter (CLoop) ----------------------
    def s_While(self, s, st):
        spec = self.loop_spec(s)
        if not isinstance(spec, CLoop):
            return super().s_While(s, st)
        # `while True: if not X: break; ...`  ==  `while X: ...`
        if isinstance(s.test, _ast.Constant) and s.test.value is True and s.body and isinstance(s.body[0], _ast.If) \
                and isinstance(s.body[0].test, _ast.UnaryOp) and isinstance(s.body[0].test.op, _ast.Not) \
                and isinstance(s.body[0].test.operand, _ast.Name) and not s.body[0].orelse \
                and len(s.body[0].body) == 1 and isinstance(s.body[0].body[0], _ast.Break) and not s.orelse:
            s2 = _ast.While(test=s.body[0].test.operand, body=s.body[1:] or [_ast.Pass()], orelse=[])
            _ast.copy_location(s2, s)
            _ast.fix_missing_locations(s2)
            s = s2
        label = spec.label or f"L{s.lineno}"
        if not isinstance(s.test, _ast.Name):
            self.unsupported(s, "page loop whose test is not a plain cursor variable")
        st.ghost["cursor"] = s.test.id
        if spec.acc_sort is not None:
            acc = self.accumulator(st, s.body)
            if acc is None:
                self.unsupported(s, "page loop: no unique list the body appends to")
            st.ghost["acc"] = st.lookup(acc).ref
        entry = st.fork()
        outs = []
        self.add_vc("inv-init", label, st.pc, spec.inv(LoopCtx(self, st, z3.IntVal(0), entry)), loc=self.loc(s))
        body_st = st.fork()
        self.havoc_loop_state(body_st, s.body, spec)
        k = z3.Int(fresh_name("k"))
        body_st.assume(k >= 0)
        body_st.ghost["k"] = k
        body_st.assume(self._b(spec.inv(LoopCtx(self, body_st, k, entry))))
        after0 = body_st.fork()
        body_st.ghost["page"] = body_st.lookup(s.test.id)
        for (s2, g) in self.ev(s.test, body_st):
            for (s3, b) in self.fork_truth(s2, g):
                if not b:
                    continue
                for o in self.exec_block(s.body, s3):
                    if o.kind in ("fall", "continue"):
                        self.add_vc("inv-preserve", label, o.st.pc, spec.inv(LoopCtx(self, o.st, k + 1, entry)), loc=self.loc(s))
                    elif o.kind == "break":
                        outs.append(Outcome("fall", o.st))
                    else:
                        outs.append(o)
        for (s2, g) in self.ev(s.test, after0):
            for (s3, b) in self.fork_truth(s2, g):
                if b:
                    continue
                if s.orelse:
                    outs.extend(self.exec_block(s.orelse, s3))
                else:
                    outs.append(Outcome("fall", s3))
        return outs

    # -- comprehensions over symbolic sequences ------------------------------
    def sym_comp(self, n, elt, st):
        """Comprehension `elt for x in SEQ [if c ...]` over a symbolic sequence -> (state, seq, elem(j), keep(j)) or None.
        The element and the conditions must evaluate without forking or raising."""
        if len(n.generators) != 1:
            return None
        g = n.generators[0]
        its = self.ev(g.iter, st.fork())
        if len(its) != 1 or not isinstance(its[0][1], VSeq):
            return None
        its = self.ev(g.iter, st)
        s2, seq = its[0]
        i = z3.Int(fresh_name("ci"))
        from pyvc.state import Frame
        fr = Frame({}, len(s2.frames) - 1, s2.frame.fnode)
        s2.frames.append(fr)
        mark = len(self.sinks[-1])
        pclen = len(s2.pc)
        bound = self.assign(g.target, seq.elem(i), s2)       # plain name or tuple target (`for k, v in d.items()`)
        if len(bound) != 1 or len(self.sinks[-1]) != mark:
            self.unsupported(n, "comprehension target does not bind uniquely")
        s2 = bound[0]
        keep = []
        for cnd in g.ifs:
            rc = self.ev(cnd, s2)
            if len(rc) != 1 or len(self.sinks[-1]) != mark or len(rc[0][0].pc) != pclen:
                self.unsupported(n, "forking / raising condition in comprehension over a symbolic sequence")
            s2 = rc[0][0]
            keep.append(self.truth(s2, rc[0][1]).t)
        base = s2.fork()
        res = self.ev(elt, s2)
        if len(res) > 1 and len(self.sinks[-1]) == mark:
            res = self.merge_bool_forks(base, res, pclen)       # round 7: a pure case split inside the element is one If-term
        if len(res) != 1 or len(self.sinks[-1]) != mark or len(res[0][0].pc) != pclen:
            self.unsupported(n, "forking / raising element expression in comprehension over a symbolic sequence")
        s3, val = res[0]
        s3.frames.pop()
        kc = z3.And(keep) if keep else None
        return (s3, seq, (lambda j, val=val, i=i: subst_v(val, i, j)),
                (lambda j, kc=kc, i=i: z3.BoolVal(True) if kc is None else z3.substitute(kc, (i, j))), val.kind, bool(keep))

    def merge_bool_forks(self, base, res, pclen):
        """Element expression of a comprehension that forked (e.g. a helper with `if c: return a` / `return b`): when every
        outcome is a bool, left heap / ghost / yields / frames as they were and only added branch conditions, and those
        conditions are proved exhaustive under the path condition (so nothing was *assumed* on the way), the element is the
        single term If(c1, v1, If(c2, v2, ..)).  Anything else: returned unchanged (-> out of subset)."""
        conds = []
        for (s_k, v_k) in res:
            if not isinstance(v_k, VBool) or len(s_k.pc) < pclen or any(a is not b for a, b in zip(s_k.pc[:pclen], base.pc)):
                return res
            if len(s_k.frames) != len(base.frames) or len(s_k.yielded) != len(base.yielded):
                return res
            if set(s_k.heap) != set(base.heap) or any(s_k.heap[r] is not base.heap[r] for r in base.heap):
                return res
            if set(s_k.ghost) != set(base.ghost) or any(not (s_k.ghost[g] is base.ghost[g] or s_k.ghost[g] == base.ghost[g]) for g in base.ghost):
                return res
            for fa, fb in zip(s_k.frames, base.frames):
                if set(fa.env) != set(fb.env) or any(fa.env[x] is not fb.env[x] for x in fb.env):
                    return res
            conds.append(z3.And(*s_k.pc[pclen:]) if len(s_k.pc) > pclen else z3.BoolVal(True))
        if not proves(self, base, z3.Or(conds), timeout_ms=1000):
            return res
        term = res[-1][1].t
        for c_k, (_, v_k) in zip(reversed(conds[:-1]), reversed(res[:-1])):
            term = z3.If(c_k, v_k.t, term)
        return [(base, VBool(term))]

    def e_GeneratorExp(self, n, st):
        r = self.sym_comp(n, n.elt, st)
        if r is not None:
            s3, seq, elem, keep, kind, filtered = r
            if not filtered:
                return [(s3, VSeq(seq.length, elem, kind))]
            return [(s3, VSymBag(seq.length, elem, keep))]
        return super().e_GeneratorExp(n, st)

    def e_ListComp_sym(self, n, st):
        r = self.sym_comp(n, n.elt, st)
        if r is not None:
            s3, seq, elem, keep, kind, filtered = r
            if not filtered:
                return [(s3, VSeq(seq.length, elem, kind))]
            return [(s3, VSymBag(seq.length, elem, keep))]
        return super().e_ListComp(n, st)

    def e_DictComp(self, n, st):
        """{k: v for ... in SEQ if c} over a symbolic sequence: key, value and conditions are evaluated (they must neither fork
        nor raise); the result is a fresh dict whose content is not tracked (heap kind `unk`: reading from it is an unmodelled,
        tagged operation).  The listing contracts never look into such dicts (custom columns)."""
        pair = _ast.Tuple(elts=[n.key, n.value], ctx=_ast.Load())
        _ast.copy_location(pair, n)
        _ast.fix_missing_locations(pair)
        r = self.sym_comp(n, pair, st)
        if r is not None:
            s3 = r[0]
            return [(s3, VRef(s3.alloc(HeapObj("unk", None, "dict", True), self.refs)))]
        return super().e_DictComp(n, st)

    def e_SetComp(self, n, st):
        r = self.sym_comp(n, n.elt, st)
        if r is not None:
            s3, seq, elem, keep, kind, filtered = r
            return [(s3, VSymBag(seq.length, elem, keep, is_set=True))]
        return super().e_SetComp(n, st)

    def b_any(self, st, args, kwargs, node):
        v = args[0]
        if isinstance(v, VSymBag):
            j = z3.Int(fresh_name("j"))
            return [(st, VBool(z3.Exists([j], z3.And(j >= 0, j < v.length, v.keep(j), self.truth(st, v.elem(j)).t))))]
        if isinstance(v, VSeq):
            j = z3.Int(fresh_name("j"))
            return [(st, VBool(z3.Exists([j], z3.And(j >= 0, j < v.length, self.truth(st, v.elem(j)).t))))]
        return super().b_any(st, args, kwargs, node)


import ast as _ast  # noqa: E402
ast_Name = _ast.Name

EXECUTOR = C18Executor


# ================================================================== Part A ==
def p_seq_str(fname):
    """A list of strings of any length (immutable view)."""
    def mk(ex, st, name):
        n = z3.Int(f"{fname}.len")
        at = z3.Function(f"{fname}.at", I, S)
        ex.__dict__.setdefault("witness_terms", {})[fname] = {"len": n, "first": [at(0), at(1), at(2)]}
        return [(n >= 0, VSeq(n, lambda i: VStr(at(i)), "str", tag=fname))]
    return Maker(mk, desc="list[str] of any length")


P_META = p_obj("SharePointFileMetadata", {
    "name": p_str(), "id": p_str(), "web_url": p_str(), "download_url": p_unk(), "size": p_unk(), "mime_type": p_unk(),
    "last_modified": p_opt(p_str()), "created": p_opt(p_str()), "parent_path": p_opt(p_str()), "custom_fields": p_unk()})

P_FILTER = p_obj("FileFilter", {
    "created_after": p_opt(p_dt()), "created_before": p_opt(p_dt()),
    "modified_after": p_opt(p_dt()), "modified_before": p_opt(p_dt()),
    "folder_paths": p_unk(), "path_patterns": p_seq_str("path_patterns"), "extensions": p_seq_str("extensions")})


def fields(c, pname, st=None):
    st = st or c.entry
    return st.obj(c.args[pname].ref).data


def full_path_spec(meta_fields):
    """Statement: the full path = parent path and name joined by '/', or the name alone at the root."""
    pp, name = meta_fields["parent_path"], meta_fields["name"]
    if isinstance(pp, VNoneT):
        return name.t
    return z3.If(z3.Length(pp.t) > 0, z3.Concat(pp.t, sv("/"), name.t), name.t)


def date_ok(s, after, before):
    """Statement: inclusive-after and exclusive-before, on the instant the file's timestamp denotes."""
    if isinstance(after, VNoneT) and isinstance(before, VNoneT):
        return z3.BoolVal(True)
    if isinstance(s, VNoneT):
        return z3.BoolVal(False)
    t = SEM_US(s.t)
    cs = [z3.Length(s.t) > 0, SEM_OK(s.t)]
    if not isinstance(after, VNoneT):
        cs.append(t >= z3.ToReal(DT.us(after.t)))
    if not isinstance(before, VNoneT):
        cs.append(t < z3.ToReal(DT.us(before.t)))
    return z3.And(cs)


def any_of(seq: VSeq, pred):
    j = z3.Int(fresh_name("k!spec"))
    return z3.Exists([j], z3.And(j >= 0, j < seq.length, pred(seq.elem(j).t)))


def matches_spec(c):
    f, m = fields(c, "self"), fields(c, "file_meta")
    name = m["name"].t
    exts, pats = f["extensions"], f["path_patterns"]
    fp = full_path_spec(m)
    ext_ok = z3.Or(exts.length == 0, any_of(exts, lambda e: z3.SuffixOf(LOWER(e), LOWER(name))))
    pat_ok = z3.Or(pats.length == 0, any_of(pats, lambda p: FNMATCH(fp, p)))
    return z3.And(date_ok(m["created"], f["created_after"], f["created_before"]),
                  date_ok(m["last_modified"], f["modified_after"], f["modified_before"]),
                  ext_ok, pat_ok)


def matches_requires(c):
    """Bounds are instants (aware datetimes); timestamps sent by the server carry a UTC designator / offset."""
    f, m = fields(c, "self"), fields(c, "file_meta")
    cs = []
    for k in ("created_after", "created_before", "modified_after", "modified_before"):
        if not isinstance(f[k], VNoneT):
            cs.append(DT.aware(f[k].t))
    for k in ("created", "last_modified"):
        if not isinstance(m[k], VNoneT):
            cs.append(z3.Implies(SEM_OK(m[k].t), SEM_AWARE(m[k].t)))
    return z3.And(cs + [z3.BoolVal(True)])


def parse_returns(c):
    s = c.args["dt_string"].t
    form = _ISO_FORMS.get(s.get_id(), ("call-site", ""))
    if form[0] == "any":
        # arbitrary string: totality only (None or some datetime)
        if c.result is None or isinstance(c.result, VNoneT):
            return NONE
        return c.result
    return [(z3.Not(SEM_OK(s)), NONE), (SEM_OK(s), parsed(s))]


# ---- which folders a filter searches (FileFilter.get_target_folders) ----------------------------------------
P_FILTER_T = p_obj("FileFilter", {
    "created_after": p_unk(), "created_before": p_unk(), "modified_after": p_unk(), "modified_before": p_unk(),
    "folder_paths": p_seq_str("folder_paths"), "path_patterns": p_unk(), "extensions": p_unk()})


def covers(t, p):
    """Statement ("every matching file ... of the requested folders"): walking target t also lists the files of the
    requested folder p iff p is t or lies below t -- compared component-wise, i.e. at a '/' boundary."""
    a, b = STRIPS(p), STRIPS(t)
    return z3.Or(a == b, b == sv(""), z3.PrefixOf(z3.Concat(b, sv("/")), a))


def str_view(st, v):
    """(length, elem(j) -> String term) of a list of strings of symbolic length."""
    if isinstance(v, VSeq):
        probe = v.elem(z3.Int("probe!view"))
        if isinstance(probe, VStr):
            return v.length, (lambda j: v.elem(j).t)
    raise ops.Unsupported("result of get_target_folders is not a symbolic list of strings")


def targets_clauses(c):
    q = fields(c, "self")["folder_paths"]
    nq, qa = q.length, (lambda j: q.elem(j).t)
    nr, ra = str_view(c.st, c.result)
    i, j, k = z3.Int(fresh_name("i!t")), z3.Int(fresh_name("j!t")), z3.Int(fresh_name("k!t"))

    def rng(x, n):
        return z3.And(x >= 0, x < n)
    e1 = z3.ForAll([j], z3.Implies(rng(j, nr), z3.Exists([i], z3.And(rng(i, nq), ra(j) == qa(i)))))
    e2 = z3.ForAll([i], z3.Implies(rng(i, nq), z3.Exists([j], z3.And(rng(j, nr), covers(ra(j), qa(i))))))

    def disjoint(n, at):
        return z3.ForAll([i, k], z3.Implies(z3.And(rng(i, n), rng(k, n), i != k), z3.Not(covers(at(i), at(k)))))
    e3 = z3.Implies(disjoint(nq, qa), disjoint(nr, ra))
    return e1, e2, e3


def part_a(reg):
    out = []
    out.append(FnContract(
        target=f"{CLIENT}::FileFilter.get_target_folders",
        params=[("self", P_FILTER_T)],
        ensures=[("every-target-is-a-requested-folder-path", body_only(lambda c: targets_clauses(c)[0])),
                 ("every-requested-folder-is-covered-by-a-target-(component-wise)", body_only(lambda c: targets_clauses(c)[1])),
                 ("targets-do-not-overlap-when-the-requested-folders-do-not", body_only(lambda c: targets_clauses(c)[2]))],
        raises=[],
        note="the folders searched cover exactly the requested folder paths (no requested folder lost, nothing else added); "
             "overlapping requests (a folder and one of its descendants) are listed twice by the listing: known finding "
             "C18-overlapping-targets, excluded by the hypothesis of the third clause",
    ))
    out.append(FnContract(
        target=f"{CLIENT}::SharePointFileMetadata.get_full_path",
        params=[("self", P_META)],
        returns=lambda c: VStr(full_path_spec(fields(c, "self"))),
        note="full path = parent_path/name, or name at the root",
    ))
    out.append(FnContract(
        target=f"{CLIENT}::_parse_iso_datetime",
        params=[("dt_string", p_iso_string())],
        returns=parse_returns,
        raises=[],
        note="returns the instant denoted by the ISO-8601 string at datetime (microsecond) resolution, None if it denotes none",
    ))
    out.append(FnContract(
        target=f"{CLIENT}::FileFilter.matches",
        params=[("self", P_FILTER), ("file_meta", P_META)],
        requires=matches_requires,
        returns=lambda c: VBool(matches_spec(c)),
        raises=[],
        note="matches <=> date bounds (inclusive-after, exclusive-before, on instants) and case-insensitive extension "
             "and some pattern fnmatches the full path",
    ))
    return out


# ================================================================== Part B ==
# ---- abstract library objects ------------------------------------------------
JsonS, BytesS, RespS, ReqS = ext_sort("Json"), ext_sort("Bytes"), ext_sort("Response"), ext_sort("Request")
J_ISDICT = z3.Function("json_is_object", JsonS, B)
J_HAS = z3.Function("json_has_key", JsonS, S, B)
J_GET = z3.Function("json_member", JsonS, S, JsonS)
J_ISSTR = z3.Function("json_is_string", JsonS, B)
J_STR = z3.Function("json_string", JsonS, S)
J_LEN = z3.Function("json_array_len", JsonS, I)
J_AT = z3.Function("json_array_item", JsonS, I, JsonS)
J_TRUTHY = z3.Function("json_truthy", JsonS, B)
JSON_OK = z3.Function("json_parses", S, B)
LOADS = z3.Function("json_loads", S, JsonS)
DUMPS = z3.Function("json_dumps", JsonS, S)
BLEN = z3.Function("bytes_len", BytesS, I)
BSTRIP = z3.Function("bytes_strip", BytesS, BytesS)
DEC_OK = z3.Function("utf8_decodes", BytesS, B)
DEC = z3.Function("utf8_decode", BytesS, S)
DEC_REPL = z3.Function("utf8_decode_replace", BytesS, S)
ENC = z3.Function("utf8_encode", S, BytesS)
FULL_URL = z3.Function("request_full_url", ReqS, S)
R_HAS_STATUS = z3.Function("response_has_status_attr", RespS, B)
R_STATUS = z3.Function("response_status", RespS, I)
R_STATUS_NONE = z3.Function("response_status_is_none", RespS, B)
R_CODE = z3.Function("response_getcode", RespS, I)
R_CODE_NONE = z3.Function("response_getcode_is_none", RespS, B)
R_BODY = z3.Function("response_body", RespS, BytesS)
JSON_OF = z3.Function("server_json", S, JsonS)     # T-DET: what a healthy server answers to GET url (parsed)

# keys whose value, when present, is ASSUMED to be a string (GRAPH-SHAPE); "value" is ASSUMED to be an array
SHAPE_STR_KEYS = frozenset({"name", "id", "@odata.nextLink", "access_token"})
SHAPE_LIST_KEYS = frozenset({"value"})
# members that are only copied into the metadata record: modelled as one opaque value (no case split)
OPAQUE_KEYS = frozenset({"webUrl", "@microsoft.graph.downloadUrl", "size", "mimeType"})


def json_seq(arr):
    return VSeq(J_LEN(arr), lambda i: VExt("Json", J_AT(arr, i)), "Json")


def m_json_get(ex, st, obj, args, kwargs, node):
    """dict.get on a parsed JSON value: AttributeError unless it is an object; the default when the key is absent;
    the member otherwise (strings / arrays per GRAPH-SHAPE, else an opaque JSON value)."""
    key = args[0].const() if args and isinstance(args[0], VStr) else None
    if key is None:
        return ex.havoc_call(st, "Json.get", args, node)
    default = args[1] if len(args) > 1 else NONE
    j = obj.t
    st = ex.fork_raise(st, z3.Not(J_ISDICT(j)), "AttributeError")
    if st is None:
        return []
    if key in OPAQUE_KEYS:
        return [(st, VUnk(f"json member {key}"))]
    has = J_HAS(j, sv(key))
    mem = J_GET(j, sv(key))
    out = []
    if ex.feasible(st.pc, z3.Not(has)):
        out.append((st.fork().assume(z3.Not(has)), default))
    if ex.feasible(st.pc, has):
        s1 = st.fork().assume(has)
        strict = key in getattr(ex, "unshaped_keys", ())
        if key in SHAPE_LIST_KEYS:
            s1.assume(J_LEN(mem) >= 0)
            out.append((s1, json_seq(mem)))
        elif key in SHAPE_STR_KEYS and not strict:
            out.append((s1, VStr(J_STR(mem))))
        elif key in SHAPE_STR_KEYS:
            s2 = s1.fork().assume(z3.Not(J_ISSTR(mem)))
            out.append((s1.assume(J_ISSTR(mem)), VStr(J_STR(mem))))
            out.append((s2, VExt("Json", mem)))
        else:
            out.append((s1, VExt("Json", mem)))
    return out


def m_json_loads(ex, st, args, kwargs, node):
    """json.loads(text): ASSUMED -- JSONDecodeError iff the text is not JSON, else the parsed value."""
    x = args[0]
    if not isinstance(x, VStr):
        return ex.havoc_call(st, "json.loads", args, node)
    st2 = ex.fork_raise(st, z3.Not(JSON_OK(x.t)), "JSONDecodeError")
    if st2 is None:
        return []
    st2.assume(J_ISDICT(LOADS(x.t)))      # GRAPH-SHAPE: a body that is JSON at all is a JSON object
    return [(st2, VExt("Json", LOADS(x.t)))]


def m_json_dumps(ex, st, args, kwargs, node):
    if args and isinstance(args[0], VExt) and args[0].sort == "Json":
        return [(st, VStr(DUMPS(args[0].t)))]
    return ex.havoc_call(st, "json.dumps", args, node)


def m_bytes_decode(ex, st, obj, args, kwargs, node):
    """bytes.decode('utf-8'[, errors='replace']): strict decoding raises UnicodeDecodeError on invalid UTF-8."""
    errs = kwargs.get("errors", args[1] if len(args) > 1 else None)
    if isinstance(errs, VStr) and errs.const() == "replace":
        return [(st, VStr(DEC_REPL(obj.t)))]
    st2 = ex.fork_raise(st, z3.Not(DEC_OK(obj.t)), "UnicodeDecodeError")
    if st2 is None:
        return []
    return [(st2, VStr(DEC(obj.t)))]


def m_new_request(ex, st, args, kwargs, node):
    """urllib.request.Request(url, ...): ASSUMED to succeed for the URLs built here; full_url is the URL given."""
    url = args[0] if args else kwargs.get("url")
    r = VExt("Request")
    if isinstance(url, VStr):
        st.assume(FULL_URL(r.t) == url.t)
    h = kwargs.get("headers", args[2] if len(args) > 2 else None)
    auth = None
    if isinstance(h, VRef) and st.obj(h.ref).kind == "dict" and st.obj(h.ref).data is not None:
        auth = st.obj(h.ref).data.get("Authorization")
    # the Authorization header of the new request object, when it is given as a dict with that key (definition on a fresh object)
    st.ghost[("auth", r.t.get_id())] = auth if isinstance(auth, VStr) else None
    return [(st, r)]


NETLOC = z3.Function("url_netloc", S, S)
UPATH = z3.Function("url_path", S, S)


def m_urlparse(ex, st, args, kwargs, node):
    """urllib.parse.urlparse(s): ASSUMED total on strings (uninterpreted netloc / path)."""
    if not (args and isinstance(args[0], VStr)):
        return ex.havoc_call(st, "urlparse", args, node)
    r = VExt("ParseResult")
    st.ghost[("parsed", r.t.get_id())] = args[0].t
    return [(st, r)]


QUOTE = z3.Function("url_quote", S, S)


QUOTE2 = z3.Function("url_quote_safe", S, S, S)          # urllib.parse.quote(s, safe=...)
UNQUOTE = z3.Function("percent_decode", S, S)           # what a server does once with the request path
HAS_ESC = z3.Function("has_percent_escape", S, B)       # the string contains '%' followed by two hex digits


def m_quote(ex, st, args, kwargs, node):
    """urllib.parse.quote(s, safe): ASSUMED total on str, with the library fact that decides whether the server sees
    the string again: if '%' is not declared safe, percent-decoding the result gives s back; if '%' is declared safe,
    it does so exactly when s contains no '%XX' escape (an existing escape is passed through and decoded by the server)."""
    safe = kwargs.get("safe", args[1] if len(args) > 1 else VStr("/"))
    if args and isinstance(args[0], VStr) and isinstance(safe, VStr) and safe.const() is not None:
        x = args[0].t
        q = QUOTE2(x, sv(safe.const()))
        back = UNQUOTE(q) == x
        st.assume(back if "%" not in safe.const() else (back == z3.Not(HAS_ESC(x))))
        return [(st, VStr(q))]
    return ex.havoc_call(st, "quote", args, node)


def m_urlencode(ex, st, args, kwargs, node):
    return [(st, VStr(z3.String(fresh_name("urlencoded"))))]


def _flag_misbehaviour(ex, st, site):
    """A path on which the transport / response object raises something the stated assumptions exclude."""
    bad = st.fork()
    bad.ghost["misbehaved"] = True
    ex.exc_any(bad, site)


def open_set(st):
    return st.ghost.get("open", frozenset())


def transport_call(ex, st, f, args, kwargs, node):
    """self._request(request, timeout=...): the transport.
    T-ONLY (assumed for the family claim): it raises only HTTPError / URLError or returns a response object.
    Every other exception is modelled too (ghost `misbehaved`) so that closing is proved for those paths as well."""
    out = []
    code = z3.Int(fresh_name("http_code"))
    e1 = st.fork()
    e1.ghost["transport"] = ("http", code)
    ex.raise_in(e1, VExc(z3.IntVal(ex.uni.index["HTTPError"]),
                         {"code": VInt(code), "reason": VStr(z3.String(fresh_name("reason"))),
                          "read": VFunc("ext", "C18.http_error_read")}))
    e2 = st.fork()
    e2.ghost["transport"] = ("url",)
    ex.raise_in(e2, VExc(z3.IntVal(ex.uni.index["URLError"]), {"reason": VStr(z3.String(fresh_name("reason")))}))
    _flag_misbehaviour(ex, st, f"{ex.loc(node)} transport raises something else")
    r = VExt("Response")
    st.ghost["transport"] = ("resp", r)
    st.ghost["open"] = open_set(st) | {r.t.get_id()}
    st.ghost["obtained"] = st.ghost.get("obtained", 0) + 1
    return [(st, r)]


def m_http_error_read(ex, st, args, kwargs, node):
    _flag_misbehaviour(ex, st, f"{ex.loc(node)} HTTPError.read raises")
    return [(st, VExt("Bytes"))]


def m_resp_getcode(ex, st, obj, args, kwargs, node):
    _flag_misbehaviour(ex, st, f"{ex.loc(node)} response.getcode raises")
    a = st.fork().assume(R_CODE_NONE(obj.t))
    return [(a, NONE), (st.assume(z3.Not(R_CODE_NONE(obj.t))), VInt(R_CODE(obj.t)))]


def m_resp_read(ex, st, obj, args, kwargs, node):
    _flag_misbehaviour(ex, st, f"{ex.loc(node)} response.read raises")
    return [(st, VExt("Bytes", R_BODY(obj.t)))]


def m_resp_close(ex, st, obj, args, kwargs, node):
    """close(): the response counts as closed once close() has been called; it may still raise."""
    st.ghost["open"] = open_set(st) - {obj.t.get_id()}
    ex.exc_any(st.fork(), f"{ex.loc(node)} response.close raises")
    return [(st, NONE)]


def install_transport_models(reg):
    reg.method_models[("Json", "get")] = m_json_get
    reg.ext_models["json.loads"] = m_json_loads
    reg.ext_models["json.dumps"] = m_json_dumps
    reg.method_models[("Bytes", "decode")] = m_bytes_decode
    reg.method_models[("Bytes", "strip")] = lambda ex, st, obj, args, kwargs, node: [(st, VExt("Bytes", BSTRIP(obj.t)))]
    reg.ext_models[("new", "urllib.request.Request")] = m_new_request
    reg.ext_models["urllib.parse.urlencode"] = m_urlencode
    reg.ext_models["urllib.parse.urlparse"] = m_urlparse
    reg.ext_models["urllib.parse.quote"] = m_quote
    reg.attr_models[("ParseResult", "netloc")] = lambda ex, st, o: VStr(NETLOC(st.ghost[("parsed", o.t.get_id())]))
    reg.attr_models[("ParseResult", "path")] = lambda ex, st, o: VStr(UPATH(st.ghost[("parsed", o.t.get_id())]))
    reg.ext_models["C18.http_error_read"] = m_http_error_read
    reg.method_models[("Response", "getcode")] = m_resp_getcode
    reg.method_models[("Response", "read")] = m_resp_read
    reg.method_models[("Response", "close")] = m_resp_close
    reg.attr_models[("Request", "full_url")] = lambda ex, st, o: VStr(FULL_URL(o.t))


CREDS = p_obj("EntraIDAppCredentials", {"tenant_id": p_str(), "client_id": p_str(), "client_secret": p_str(), "scope": p_str()})


def p_transport():
    return Maker(lambda ex, st, name: VExt("Transport"), desc="transport callable (request_func / urlopen)")


def p_client(token=None, site=None):
    return p_obj("SharePointRestClient", {
        "_site_url": p_str(), "_credentials": CREDS, "_request": p_transport(), "_timeout": p_unk(),
        "_access_token": token or p_opt(p_str()), "_site_id": site or p_opt(p_str())})


def p_req():
    return Maker(lambda ex, st, name: VExt("Request", z3.Const(name, ReqS)), desc="urllib Request")


def self_field(c, f, st=None):
    st = st or c.st
    o = st.obj(c.args["self"].ref)
    return o.data[f] if o.data is not None else VUnk("havocked")


def same_value(a, b):
    if a is b:
        return z3.BoolVal(True)
    try:
        return ops.eq_term(a, b)
    except ops.Unsupported:
        return z3.BoolVal(False)


def closed(c):
    return z3.BoolVal(not open_set(c.st))


def caches_unchanged(c):
    return z3.And(same_value(self_field(c, "_access_token"), self_field(c, "_access_token", c.entry)),
                  same_value(self_field(c, "_site_id"), self_field(c, "_site_id", c.entry)))


def at_call_site(c):
    """Contract clauses are evaluated both when the body is verified (c.exc / c.result set) and when a caller
    uses the contract (neither set): there they describe what the caller may assume."""
    return getattr(c.ex, "applying", 0) > 0


def body_only(fn):
    """A postcondition that inspects the concrete result of the verified body; callers get the abstract value
    built by the contract's result_maker instead (which is defined to satisfy it)."""
    def w(c):
        return z3.BoolVal(True) if at_call_site(c) else fn(c)
    return w


def send_raise_when(c):
    """Statement: HTTP / network failures and non-2xx answers give the request error carrying status and URL."""
    if at_call_site(c):
        return z3.BoolVal(True)
    g = c.st.ghost
    kind = g.get("transport")
    if kind is None or g.get("misbehaved"):
        return z3.BoolVal(False)
    a = c.exc.attrs
    if "status_code" not in a or "url" not in a or not isinstance(a["url"], VStr):
        return z3.BoolVal(False)
    url_ok = a["url"].t == FULL_URL(c.args["request"].t)
    sc = a["status_code"]
    if kind[0] == "http":
        st_ok = same_value(sc, VInt(kind[1]))
    elif kind[0] == "url":
        st_ok = z3.BoolVal(isinstance(sc, VNoneT))
    else:
        none, eff = eff_status(kind[1].t)
        if isinstance(sc, VNoneT):
            st_ok = none
        elif isinstance(sc, VInt):
            st_ok = z3.And(z3.Not(none), ops.int_term(sc) == eff, z3.Or(eff < 200, eff >= 300))
        else:
            st_ok = z3.BoolVal(False)
    return z3.And(url_ok, st_ok, closed(c))


def eff_status(r):
    """The status a response object reports: its `status` attribute, else getcode() (urllib convention).
    -> (is None, value)"""
    has = z3.And(R_HAS_STATUS(r), z3.Not(R_STATUS_NONE(r)))
    return z3.And(z3.Not(has), R_CODE_NONE(r)), z3.If(has, R_STATUS(r), R_CODE(r))


def send_result(ex, st, ctx):
    s = z3.Int(fresh_name("status"))
    st.assume(z3.And(s >= 200, s < 300))
    return VTuple([VInt(s), VExt("Bytes")])


def token_frame(ex, st, amap):
    """Call-site frame of everything that may fetch a token: only `_access_token` may change."""
    ref = amap["self"].ref
    w = st.wobj(ref)
    w.data["_access_token"] = VUnk("token-maybe-fetched")


def token_after_success(ex, st, ctx):
    """After a successful authorised request the token is cached: the old one, or a fresh non-empty string."""
    ref = ctx.args["self"].ref
    old = ctx.entry.obj(ref).data["_access_token"]
    w = st.wobj(ref)
    if isinstance(old, VStr):
        w.data["_access_token"] = old
    else:
        t = z3.String(fresh_name("token"))
        st.assume(z3.Length(t) > 0)
        w.data["_access_token"] = VStr(t)
    return w.data["_access_token"]


def get_json_result(ex, st, ctx):
    token_after_success(ex, st, ctx)
    j = JSON_OF(ctx.args["url"].t)
    st.assume(J_ISDICT(j))        # GRAPH-SHAPE: a healthy answer is a JSON object
    return VExt("Json", j)


FAMILY = ("SharePointRequestError", "SharePointAuthError")


def part_b(reg):
    out = []

    def send_ensures_2xx(c):
        r = c.result
        if not (isinstance(r, VTuple) and len(r.items) == 2 and isinstance(r.items[0], VInt)):
            return z3.BoolVal(False)
        s = ops.int_term(r.items[0])
        ok = z3.And(s >= 200, s < 300)
        kind = c.st.ghost.get("transport")
        if kind is not None:     # verification of the body: it is the status reported by the response obtained
            if kind[0] != "resp":
                return z3.BoolVal(False)
            none, eff = eff_status(kind[1].t)
            ok = z3.And(ok, z3.Not(none), s == eff)
        return ok

    out.append(FnContract(
        target=f"{CLIENT}::SharePointRestClient._send",
        params=[("self", p_client()), ("request", p_req()), ("request_kind", p_str())],
        ensures=[("every-response-obtained-is-closed", closed), ("returns-only-2xx-with-the-response-status", send_ensures_2xx),
                 ("caches-untouched", caches_unchanged)],
        raises=[Raises("SharePointRequestError", when=lambda c: z3.And(send_raise_when(c), caches_unchanged(c)),
                       label="HTTPError/URLError/non-2xx -> request error with status and url, responses closed"),
                Raises("Exception", sub=True, when=lambda c: z3.And(z3.BoolVal(bool(c.st.ghost.get("misbehaved")) and not at_call_site(c)), closed(c)),
                       label="outside T-ONLY/R-OK: other transport / response exceptions escape unchanged, responses closed")],
        result_maker=send_result,
        note="transport wrapper: closes what it opened on every path; only the request error escapes under T-ONLY, R-OK",
    ))

    def family_raises(extra=None):
        def w(c):
            if at_call_site(c):
                # the caller keeps what it knew about the caches: a cached token stays; an absent one is absent or fresh
                ref = c.args["self"].ref
                old = c.entry.obj(ref).data["_access_token"]
                if isinstance(old, VStr) or extra is token_unchanged:
                    c.st.wobj(ref).data["_access_token"] = old
                return z3.BoolVal(True)
            cs = [closed(c), same_value(self_field(c, "_site_id"), self_field(c, "_site_id", c.entry))]
            if extra is not None:
                cs.append(extra(c))
            return z3.And(cs)
        return [Raises(k, when=w) for k in FAMILY]

    def token_unchanged(c):
        return same_value(self_field(c, "_access_token"), self_field(c, "_access_token", c.entry))

    def token_cached(c):
        t = self_field(c, "_access_token")
        if not isinstance(t, VStr) or not isinstance(c.result, VStr):
            return z3.BoolVal(False)
        return z3.And(t.t == c.result.t, z3.Length(t.t) > 0)

    out.append(FnContract(
        target=f"{CLIENT}::SharePointRestClient.fetch_access_token",
        params=[("self", p_client())],
        ensures=[("token-cached-is-the-non-empty-token-returned", token_cached), ("responses-closed", closed),
                 ("site-id-untouched", lambda c: same_value(self_field(c, "_site_id"), self_field(c, "_site_id", c.entry)))],
        raises=family_raises(token_unchanged),
        modifies=("self",), frame=token_frame,
        result_maker=lambda ex, st, ctx: _fresh_token(ex, st, ctx),
        note="token cached only after a successful, well-formed token response; any failure is of the client family",
    ))

    # -- _ensure_token / _get_headers (round 7: own contracts; until now they were executed in place inside every caller) ------
    def token_is_result(c):
        t = self_field(c, "_access_token")
        return z3.And(z3.BoolVal(isinstance(t, VStr) and isinstance(c.result, VStr)), same_value(t, c.result))

    def cached_token_reused(c):
        """With a token cached at entry no token request is made and the cache keeps it; without one exactly one is made
        and the cache holds its (non-empty) answer."""
        old, new = self_field(c, "_access_token", c.entry), self_field(c, "_access_token")
        n = c.st.ghost.get("token_fetches", 0)
        if isinstance(old, VStr):
            return z3.And(z3.BoolVal(n == 0), same_value(old, new))
        return z3.And(z3.BoolVal(n == 1 and isinstance(new, VStr)), z3.Length(new.t) > 0 if isinstance(new, VStr) else z3.BoolVal(False))

    site_same = ("site-id-untouched", lambda c: same_value(self_field(c, "_site_id"), self_field(c, "_site_id", c.entry)))

    out.append(FnContract(
        target=f"{CLIENT}::SharePointRestClient._ensure_token",
        params=[("self", p_client())],
        ensures=[("returns-the-token-held-in-the-cache-afterwards", body_only(token_is_result)),
                 ("a-cached-token-is-reused-without-a-request,-an-absent-one-is-fetched-once", body_only(cached_token_reused)),
                 ("responses-closed", closed), site_same],
        raises=family_raises(token_unchanged),
        modifies=("self",), frame=token_frame,
        result_maker=token_after_success,
        note="token on demand: the cached one, else one fetch whose answer is cached; a failed fetch leaves the cache empty",
    ))

    def headers_authorise(c):
        r, t = c.result, self_field(c, "_access_token")
        if not (isinstance(r, VRef) and c.st.obj(r.ref).kind == "dict" and c.st.obj(r.ref).data is not None and isinstance(t, VStr)):
            return z3.BoolVal(False)
        a = c.st.obj(r.ref).data.get("Authorization")
        if not isinstance(a, VStr):
            return z3.BoolVal(False)
        return a.t == z3.Concat(sv("Bearer "), t.t)

    def headers_result(ex, st, ctx):
        t = token_after_success(ex, st, ctx)
        return VRef(st.alloc(HeapObj("dict", {"Authorization": VStr(z3.Concat(sv("Bearer "), t.t)), "Accept": VStr("application/json")}), ex.refs))

    out.append(FnContract(
        target=f"{CLIENT}::SharePointRestClient._get_headers",
        params=[("self", p_client())],
        ensures=[("authorization-is-bearer-+-the-token-held-in-the-cache-afterwards", body_only(headers_authorise)),
                 ("token-present-afterwards", lambda c: json_token_rule(c)),
                 ("responses-closed", closed), site_same],
        raises=family_raises(token_unchanged),
        modifies=("self",), frame=token_frame,
        result_maker=headers_result,
        note="request headers: `Authorization: Bearer <cached token>` (RFC 6750), the token obtained through _ensure_token",
    ))

    def requests_authorised(c):
        """Every request this activation hands to `_send` carries `Authorization: Bearer <token in the cache afterwards>`."""
        t = self_field(c, "_access_token")
        sent = c.st.ghost.get("sent", ())
        if not isinstance(t, VStr) or not sent:
            return z3.BoolVal(False)
        cs = []
        for rq in sent:
            a = c.st.ghost.get(("auth", rq.t.get_id())) if isinstance(rq, VExt) and rq.sort == "Request" else None
            if a is None:
                return z3.BoolVal(False)
            cs.append(a.t == z3.Concat(sv("Bearer "), t.t))
        return z3.And(cs)

    def json_token_rule(c):
        """_access_token afterwards: unchanged if there was one, else a freshly fetched non-empty token."""
        old, new = self_field(c, "_access_token", c.entry), self_field(c, "_access_token")
        if isinstance(old, VStr):
            return same_value(old, new)
        return z3.And(z3.BoolVal(isinstance(new, VStr)), z3.Length(new.t) > 0 if isinstance(new, VStr) else z3.BoolVal(False))

    def json_raise_token_rule(c):
        old, new = self_field(c, "_access_token", c.entry), self_field(c, "_access_token")
        if isinstance(old, VStr):
            return same_value(old, new)
        return z3.BoolVal(isinstance(new, (VStr, VNoneT)))

    out.append(FnContract(
        target=f"{CLIENT}::SharePointRestClient._get_json",
        params=[("self", p_client()), ("url", p_str())],
        ensures=[("responses-closed", closed), ("token-present-afterwards", json_token_rule),
                 ("site-id-untouched", lambda c: same_value(self_field(c, "_site_id"), self_field(c, "_site_id", c.entry))),
                 ("result-is-the-parsed-body", body_only(lambda c: z3.BoolVal(isinstance(c.result, VExt) and c.result.sort == "Json"))),
                 ("the-request-is-authorised-with-the-cached-token", body_only(requests_authorised))],
        raises=family_raises(json_raise_token_rule),
        modifies=("self",), frame=token_frame,
        result_maker=get_json_result,
        note="GET + JSON: malformed JSON -> request error; callers see the healthy server's answer JSON_OF(url) (T-DET)",
    ))

    def site_cached(c):
        sid = self_field(c, "_site_id")
        if not isinstance(sid, VStr) or not isinstance(c.result, VStr):
            return z3.BoolVal(False)
        old = self_field(c, "_site_id", c.entry)
        return z3.And(sid.t == c.result.t, same_value(old, sid) if isinstance(old, VStr) else z3.BoolVal(True))

    def site_frame(ex, st, amap):
        token_frame(ex, st, amap)

    def site_result(ex, st, ctx):
        token_after_success_if_needed(ex, st, ctx)
        ref = ctx.args["self"].ref
        old = ctx.entry.obj(ref).data["_site_id"]
        if isinstance(old, VStr):
            return old
        sid = VStr(z3.String(fresh_name("site_id")))
        st.wobj(ref).data["_site_id"] = sid
        return sid

    def site_lookup_url(c):
        """Round 7: with a cached site id no request is made; without one the single request addresses the Graph site-by-path
        resource of the client's site URL: `<v1.0>/sites/{hostname}` followed by `:{server-relative path}` when the path
        (without trailing slashes) is not empty (format written here from the Graph documentation)."""
        urls = c.st.ghost.get("requested", ())
        if isinstance(self_field(c, "_site_id", c.entry), VStr):
            return z3.BoolVal(len(urls) == 0)
        su = self_field(c, "_site_url", c.entry)
        if len(urls) != 1 or not isinstance(urls[0], VStr) or not isinstance(su, VStr):
            return z3.BoolVal(False)
        host, path = NETLOC(su.t), RSTRIPS(UPATH(su.t))
        root = z3.Concat(sv(GRAPH_V1 + "/sites/"), host)
        return z3.If(z3.Length(path) > 0, urls[0].t == z3.Concat(root, sv(":"), path), urls[0].t == root)

    out.append(FnContract(
        target=f"{CLIENT}::SharePointRestClient.get_site_id",
        params=[("self", p_client())],
        ensures=[("site-id-cached-is-the-one-returned", site_cached), ("responses-closed", closed),
                 ("a-cached-site-id-needs-no-request;-otherwise-one-request-to-the-site-by-path-resource-(graph-path)", body_only(site_lookup_url))],
        raises=family_raises(),
        modifies=("self",), frame=site_frame,
        result_maker=site_result,
        note="site id cached only after a successful response carrying a string id; cached value reused without a request",
    ))
    return out


def _fresh_token(ex, st, ctx):
    ref = ctx.args["self"].ref
    t = z3.String(fresh_name("token"))
    st.assume(z3.Length(t) > 0)
    st.wobj(ref).data["_access_token"] = VStr(t)
    return VStr(t)


def token_after_success_if_needed(ex, st, ctx):
    """get_site_id: with a cached site id no request is made and the token stays as it was."""
    ref = ctx.args["self"].ref
    e = ctx.entry.obj(ref).data
    if isinstance(e["_site_id"], VStr):
        st.wobj(ref).data["_access_token"] = e["_access_token"]
    else:
        token_after_success(ex, st, ctx)


# ================================================================== Part C ==
# ---- the abstract document library (spec side, written from the statement) -----
# A healthy server answers GET u with the JSON object JSON_OF(u) (T-DET).  A listing is a chain of pages
# u, next(u), next(next(u)), ... ending where there is no (or an empty) "@odata.nextLink" (T-FIN: finite).
NL = "@odata.nextLink"
META_OF = z3.Function("file_meta", JsonS, S, FMS)      # the metadata record of a drive item under a parent path
CtxS = ext_sort("WalkCtx")                             # (site id, drive id or default drive)
CTX0 = z3.Function("ctx_default_drive", S, CtxS)
CTXD = z3.Function("ctx_drive", S, S, CtxS)
CU = z3.Function("children_url", CtxS, S, S)            # children listing URL of the folder with this id
CUROOT = z3.Function("root_children_url", CtxS, S)
NPAGES = z3.Function("n_pages", S, I)
FltS = ext_sort("FileFilter")
MATCHES = z3.Function("filter_matches", FltS, FMS, B)   # FileFilter.matches (its own contract: Part A)
TARGET_N = z3.Function("filter_target_folders_len", FltS, I)
TARGET_AT = z3.Function("filter_target_folder", FltS, I, S)
FP_FOUND = z3.Function("folder_lookup_found", CtxS, S, B)
FP_ITEM = z3.Function("folder_lookup_item", CtxS, S, JsonS)


RECDEFS: dict = {}     # name -> (function, formal parameters, body): the definition table of the spec functions


def defrec(f, params, body):
    z3.RecAddDefinition(f, params, body)
    RECDEFS[f.name()] = (f, list(params), body)


def unfold_instances(terms):
    """One-step unfoldings `F(args) == body[args]` for every ground application of a spec function in `terms`.
    z3's own unfolding of recursive definitions is unreliable on these VCs (measured: the valid step VC of the walk is
    answered `sat` for 9 of 12 random seeds, `unsat` for 12 of 12 once this instance is among the hypotheses); the
    instances are consequences of the definitions, so adding them is sound."""
    seen, stack, out, done = set(), list(terms), [], set()
    while stack:
        x = stack.pop()
        if x.get_id() in seen:
            continue
        seen.add(x.get_id())
        if z3.is_quantifier(x):
            continue                       # applications under binders mention bound variables
        if z3.is_app(x):
            d = RECDEFS.get(x.decl().name())
            if d is not None and x.num_args() == len(d[1]) and x.get_id() not in done:
                done.add(x.get_id())
                out.append(x == z3.substitute(d[2], *zip(d[1], x.children())))
            stack.extend(x.children())
    return out


def _macro(name, sorts, build):
    """Non-recursive definition (z3 define-fun): keeps the bodies of the recursive spec functions free of nested
    case splits (z3's recfun engine loops when an if-condition inside a recursive body contains a recursive call)."""
    f = z3.RecFunction(name, *sorts)
    xs = [z3.Const(f"{name}_x{i}", srt) for i, srt in enumerate(sorts[:-1])]
    defrec(f, xs, build(*xs))
    return f


def _n_items(u):
    P = JSON_OF(u)
    return z3.If(J_HAS(P, sv("value")), J_LEN(J_GET(P, sv("value"))), 0)


def _next_url(u):
    P = JSON_OF(u)
    return z3.If(J_HAS(P, sv(NL)), J_STR(J_GET(P, sv(NL))), sv(""))


n_items = _macro("n_items", [S, I], _n_items)
item_at = _macro("item_at", [S, I, JsonS], lambda u, i: J_AT(J_GET(JSON_OF(u), sv("value")), i))
next_url = _macro("next_url", [S, S], _next_url)
# Statement: files are the drive items with a file facet that are not folders.
is_file = _macro("is_file", [JsonS, B], lambda it: z3.And(J_ISDICT(it), z3.Not(J_HAS(it, sv("folder"))), J_HAS(it, sv("file"))))
is_folder = _macro("is_folder", [JsonS, B], lambda it: z3.And(J_ISDICT(it), J_HAS(it, sv("folder"))))
f_name = _macro("folder_name", [JsonS, S], lambda it: z3.If(J_HAS(it, sv("name")), J_STR(J_GET(it, sv("name"))), sv("")))
f_id = _macro("folder_id", [JsonS, S], lambda it: J_STR(J_GET(it, sv("id"))))
f_has_id = _macro("folder_has_id", [JsonS, B], lambda it: z3.And(J_HAS(it, sv("id")), z3.Length(J_STR(J_GET(it, sv("id")))) > 0))


# Statement: parent path = the ancestor folder names joined by '/'.
join_path = _macro("join_path", [S, S, S], lambda pp, name: z3.If(z3.Length(pp) > 0, z3.Concat(pp, sv("/"), name), name))


_u, _pp, _k = z3.String("u_def"), z3.String("pp_def"), z3.Int("k_def")
_ctx, _flt = z3.Const("ctx_def", CtxS), z3.Const("flt_def", FltS)
_w = z3.Const("w_def", SQF)
URLK = z3.RecFunction("page_url", S, I, S)                      # k-th page URL of the chain starting at u
defrec(URLK, [_u, _k], z3.If(_k <= 0, _u, next_url(URLK(_u, _k - 1))))
PF = z3.RecFunction("page_files", S, S, I, SQF)                 # files among the first k items of page u
defrec(PF, [_u, _pp, _k], z3.If(_k <= 0, z3.Empty(SQF), z3.Concat(
    PF(_u, _pp, _k - 1), z3.If(is_file(item_at(_u, _k - 1)), z3.Unit(META_OF(item_at(_u, _k - 1), _pp)), z3.Empty(SQF)))))
FILES = z3.RecFunction("chain_files", S, S, I, SQF)             # files of the first k pages
defrec(FILES, [_u, _pp, _k], z3.If(_k <= 0, z3.Empty(SQF), z3.Concat(
    FILES(_u, _pp, _k - 1), PF(URLK(_u, _k - 1), _pp, n_items(URLK(_u, _k - 1))))))
PFOLD = z3.RecFunction("page_folders", S, I, SQJ)
defrec(PFOLD, [_u, _k], z3.If(_k <= 0, z3.Empty(SQJ), z3.Concat(
    PFOLD(_u, _k - 1), z3.If(is_folder(item_at(_u, _k - 1)), z3.Unit(item_at(_u, _k - 1)), z3.Empty(SQJ)))))
FOLD = z3.RecFunction("chain_folders", S, I, SQJ)
defrec(FOLD, [_u, _k], z3.If(_k <= 0, z3.Empty(SQJ), z3.Concat(
    FOLD(_u, _k - 1), PFOLD(URLK(_u, _k - 1), n_items(URLK(_u, _k - 1))))))


# All files / folders of a listing.  Opaque names for FILES(u, pp, NPAGES(u)) / FOLD(u, NPAGES(u)): the defining
# equations are hypotheses only where the page loops are verified (`def_files_all`, `def_folders_all`), so that
# the VCs of the consumers (walk, filters) do not contain recursive terms with a symbolic depth, on which z3's
# recfun unfolding does not terminate within the budget (measured: unknown at 5 s, proved in 0.5 s when opaque).
files_all = z3.Function("all_files", S, S, SQF)
folders_all = z3.Function("all_folders", S, SQJ)


def def_files_all(u, pp):
    return files_all(u, pp) == FILES(u, pp, NPAGES(u))


def def_folders_all(u):
    return folders_all(u) == FOLD(u, NPAGES(u))


WALK = z3.RecFunction("walk", CtxS, S, S, SQF)                  # preorder: files of the folder, then each subfolder
WF = z3.RecFunction("walk_subfolders", CtxS, S, S, I, SQF)      # ... the first k subfolders of the listing at u
defrec(WALK, [_ctx, _u, _pp], z3.Concat(files_all(_u, _pp), WF(_ctx, _u, _pp, z3.Length(folders_all(_u)))))
_f = folders_all(_u)[_k - 1]
defrec(WF, [_ctx, _u, _pp, _k], z3.If(_k <= 0, z3.Empty(SQF), z3.Concat(
    WF(_ctx, _u, _pp, _k - 1),
    z3.If(f_has_id(_f), WALK(_ctx, CU(_ctx, f_id(_f)), join_path(_pp, f_name(_f))), z3.Empty(SQF)))))
FILTER = z3.RecFunction("filter_prefix", FltS, SQF, I, SQF)     # matching ones among the first k
defrec(FILTER, [_flt, _w, _k], z3.If(_k <= 0, z3.Empty(SQF), z3.Concat(
    FILTER(_flt, _w, _k - 1), z3.If(MATCHES(_flt, _w[_k - 1]), z3.Unit(_w[_k - 1]), z3.Empty(SQF)))))


# opaque names again (see files_all): the matching files of a whole sequence, and the spec of _walk_and_filter
filtered = z3.Function("filtered", FltS, SQF, SQF)
WAF = z3.Function("walk_and_filter", CtxS, FltS, S, SQF)


def def_filtered(flt, w):
    return filtered(flt, w) == FILTER(flt, w, z3.Length(w))


def def_waf(ctx, flt, path):
    return WAF(ctx, flt, path) == waf_spec(ctx, flt, path)


def waf_spec(ctx, flt, path):
    """_walk_and_filter: whole drive for an empty path, else the subtree of the folder found at that path
    (nothing if there is no such folder), parent paths prefixed with the folder path."""
    sub = z3.If(FP_FOUND(ctx, path), filtered(flt, WALK(ctx, CU(ctx, f_id(FP_ITEM(ctx, path))), path)), z3.Empty(SQF))
    return z3.If(z3.Length(path) > 0, sub, filtered(flt, WALK(ctx, CUROOT(ctx), sv(""))))


LFF = z3.RecFunction("filtered_over_targets", CtxS, FltS, I, SQF)
defrec(LFF, [_ctx, _flt, _k], z3.If(_k <= 0, z3.Empty(SQF), z3.Concat(
    LFF(_ctx, _flt, _k - 1), WAF(_ctx, _flt, TARGET_AT(_flt, _k - 1)))))


def chain_finite(u):
    """T-FIN (ASSUMED): the page chain starting at u ends after NPAGES(u) pages."""
    j = z3.Int(fresh_name("j!fin"))
    return z3.And(NPAGES(u) >= 0, URLK(u, NPAGES(u)) == sv(""),
                  z3.ForAll([j], z3.Implies(z3.And(j >= 0, j < NPAGES(u)), URLK(u, j) != sv("")), patterns=[URLK(u, j)]))


TAKE = z3.RecFunction("take", SQF, I, SQF)                      # the first k elements, built by appending one at a time
defrec(TAKE, [_w, _k], z3.If(_k <= 0, z3.Empty(SQF), z3.Concat(TAKE(_w, _k - 1), z3.Unit(_w[_k - 1]))))


def take_all():
    """Lemma (sequence theory; proved in lemmas() by induction on n: take(w, n) == w[:n], chain take-all.*):
    take(w, |w|) == w for every sequence of file records."""
    w = z3.Const(fresh_name("w!ta"), SQF)
    return z3.ForAll([w], TAKE(w, z3.Length(w)) == w, patterns=[TAKE(w, z3.Length(w))])


def all_folders_nth(t):
    n = z3.Int(fresh_name("n!fd"))
    return z3.ForAll([n], z3.Implies(z3.And(n >= 0, n < z3.Length(t)), is_folder(t[n])), patterns=[t[n]])


GRAPH_V1 = "https://graph.microsoft.com/v1.0"        # Graph REST v1.0 root (spec side: from the Graph documentation)


def free_consts(t):
    """Names of the uninterpreted constants (symbolic inputs) a term mentions."""
    seen, out, todo = set(), set(), [t]
    while todo:
        e = todo.pop()
        if e.get_id() in seen:
            continue
        seen.add(e.get_id())
        if z3.is_const(e) and e.decl().kind() == z3.Z3_OP_UNINTERPRETED:
            out.add(e.decl().name())
        todo.extend(e.children())
    return out


def ctx_of(site, drive):
    return CTX0(site.t) if isinstance(drive, VNoneT) else CTXD(site.t, drive.t)


def cur_url(v):
    return sv("") if isinstance(v, VNoneT) else v.t


def seq_value(term, sort_name):
    return VSeq(z3.Length(term), lambda i: VExt(sort_name, term[i]), sort_name, tag=("seq", term))


def with_default(maker, default):
    m = Maker(maker.fn, desc=maker.desc, default=lambda ex, st: default)
    return m


P_PP = with_default(p_str(), VStr(""))
P_DRIVE = with_default(p_opt(p_str()), NONE)


def p_json(name_hint="item"):
    return Maker(lambda ex, st, name: VExt("Json", z3.Const(name, JsonS)), desc="parsed JSON value")


def p_filter_abs():
    return Maker(lambda ex, st, name: VExt("FileFilter", z3.Const(name, FltS)), desc="FileFilter (abstract: MATCHES, target folders)")


def m_filter_matches(ex, st, obj, args, kwargs, node):
    m = args[0]
    if isinstance(m, VExt) and m.sort == "FileMeta":
        return [(st, VBool(MATCHES(obj.t, m.t)))]
    return ex.havoc_call(st, "FileFilter.matches", args, node)


def m_filter_targets(ex, st, obj, args, kwargs, node):
    st.assume(TARGET_N(obj.t) >= 0)
    return [(st, VSeq(TARGET_N(obj.t), lambda i: VStr(TARGET_AT(obj.t, i)), "str"))]


J_NKEYS = z3.Function("json_n_keys", JsonS, I)
J_KEY = z3.Function("json_key", JsonS, I, S)


def m_json_items(ex, st, obj, args, kwargs, node):
    j = obj.t
    st = ex.fork_raise(st, z3.Not(J_ISDICT(j)), "AttributeError")
    if st is None:
        return []
    st.assume(J_NKEYS(j) >= 0)
    return [(st, VSeq(J_NKEYS(j), lambda i: VTuple([VStr(J_KEY(j, i)), VExt("Json", J_GET(j, J_KEY(j, i)))]), "tuple"))]


def install_listing_models(reg):
    reg.method_models[("FileFilter", "matches")] = m_filter_matches
    reg.method_models[("FileFilter", "get_target_folders")] = m_filter_targets
    reg.method_models[("Json", "items")] = m_json_items


def listing_raises(c_extra=None):
    """Fault containment: whatever fails, only the client's own family escapes, every response obtained is closed
    and the site id cache is as before (a cached token is kept)."""
    def w(c):
        if at_call_site(c):
            ref = c.args["self"].ref
            old = c.entry.obj(ref).data["_access_token"]
            if isinstance(old, VStr):
                c.st.wobj(ref).data["_access_token"] = old
            return z3.BoolVal(True)
        return z3.And(closed(c), same_value(self_field(c, "_site_id"), self_field(c, "_site_id", c.entry)))
    return [Raises(k, when=w) for k in FAMILY]


def y_is(c, term):
    """Everything yielded by this activation, in order, is exactly `term`."""
    if at_call_site(c):
        return z3.BoolVal(True)       # callers get the yielded sequence as the call's value (gen_result)
    if c.st.ghost.get("Y_unknown"):
        raise ops.Unsupported("what the generator yields is not tracked on this path (unrecognised yield shape)")
    return ghost_y(c.st) == term


def gen_result(term_fn):
    """Call-site view of a generator under contract: the sequence it yields (PY-GEN: eager)."""
    def mk(ex, st, ctx):
        token_after_success(ex, st, ctx)
        return seq_value(term_fn(ctx), "FileMeta")
    return mk


def part_c(reg):
    out = []
    # the listing layer never reads the token itself (callee contracts' frames own it) and, where the site id is a
    # parameter, not the cached site id either: one alternative instead of four keeps the VC count down
    CL = p_client(token=p_unk(), site=p_unk())
    CL_SITE = p_client(token=p_unk())

    # -- _build_children_url (round 7: VERIFIED; it was an assumed abstraction) ---------------------------------------
    # Verified on the body: the URL addresses the children collection of exactly the folder asked for, in the Graph REST
    # format written here from the Graph documentation (not read from the module), optionally followed by a query string; it is
    # a function of (site, drive, folder id) alone, total, no effect.  Call-site view (unchanged): the opaque name
    # CU(ctx(site, drive), id) / CUROOT(ctx) of that function -- implied by the verified clauses (the explicit format is
    # such a function), so the listing layer keeps reasoning over the abstract library indexed by URL.
    def curl(c):
        ctx = ctx_of(c.args["site_id"], c.args["drive_id"])
        it = c.args["item_id"]
        return VStr(CUROOT(ctx)) if isinstance(it, VNoneT) else VStr(CU(ctx, it.t))

    def bcu_path(c):
        site, it, drv = c.args["site_id"], c.args["item_id"], c.args["drive_id"]
        parts = [sv(GRAPH_V1 + "/sites/"), site.t]
        parts.append(sv("/drive") if isinstance(drv, VNoneT) else z3.Concat(sv("/drives/"), drv.t))
        parts.append(sv("/root") if isinstance(it, VNoneT) else z3.Concat(sv("/items/"), it.t))
        parts.append(sv("/children"))
        return z3.Concat(*parts)

    def bcu_addresses(c):
        r = c.result
        if not isinstance(r, VStr):
            return z3.BoolVal(False)
        path = bcu_path(c)
        n = z3.Length(path)
        return z3.And(z3.PrefixOf(path, r.t), z3.Or(z3.Length(r.t) == n, z3.SubString(r.t, n, 1) == sv("?")))

    def bcu_functional(c):
        r = c.result
        if not isinstance(r, VStr):
            return z3.BoolVal(False)
        allowed = set()
        for a in ("site_id", "item_id", "drive_id"):
            v = c.args[a]
            if isinstance(v, VStr):
                allowed |= free_consts(v.t)
        return z3.BoolVal(free_consts(r.t) <= allowed)

    out.append(FnContract(
        target=f"{CLIENT}::SharePointRestClient._build_children_url",
        params=[("self", CL), ("site_id", p_str()), ("item_id", p_opt(p_str())), ("drive_id", P_DRIVE)],
        ensures=[("addresses-the-children-collection-of-the-folder-asked-for-(graph-path,-optional-query)", body_only(bcu_addresses)),
                 ("the-url-is-a-function-of-site,-drive-and-folder-id-alone", body_only(bcu_functional)),
                 ("client-state-untouched", body_only(caches_unchanged))],
        raises=[], total=True,
        result_maker=lambda ex, st, ctx: curl(ctx),
        note="children URL of a folder: Graph path of (site, drive, folder id) + optional query; callers see the opaque name CU / CUROOT "
             "of this verified function",
    ))

    # -- _parse_file_item ---------------------------------------------------------------------------------------
    def pfi_fields(c):
        r = c.result
        if not isinstance(r, VRef) or c.st.obj(r.ref).kind != "obj" or c.st.obj(r.ref).cls != "SharePointFileMetadata":
            return z3.BoolVal(False)
        d = c.st.obj(r.ref).data
        it, pp = c.args["item"].t, c.args["parent_path"].t

        def opt_str(v, key):
            if isinstance(v, VNoneT):
                return z3.Not(J_HAS(it, sv(key)))
            if isinstance(v, VStr):
                return z3.And(J_HAS(it, sv(key)), v.t == J_STR(J_GET(it, sv(key))))
            if isinstance(v, VExt) and v.sort == "Json":
                return z3.And(J_HAS(it, sv(key)), v.t == J_GET(it, sv(key)))
            return z3.BoolVal(False)
        ppv = d["parent_path"]
        pp_ok = (z3.Length(pp) == 0) if isinstance(ppv, VNoneT) else (z3.And(z3.Length(pp) > 0, ppv.t == pp) if isinstance(ppv, VStr) else z3.BoolVal(False))
        name_ok = d["name"].t == f_name(it) if isinstance(d["name"], VStr) else z3.BoolVal(False)
        return z3.And(pp_ok, name_ok, opt_str(d["created"], "createdDateTime"), opt_str(d["last_modified"], "lastModifiedDateTime"))

    out.append(FnContract(
        target=f"{CLIENT}::SharePointRestClient._parse_file_item",
        params=[("self", p_client(p_unk(), p_unk())), ("item", p_json()), ("parent_path", P_PP)],
        requires=lambda c: J_ISDICT(c.args["item"].t),
        ensures=[("record-carries-item-name-dates-and-the-given-parent-path", body_only(pfi_fields))],
        raises=[],
        result_maker=lambda ex, st, ctx: VExt("FileMeta", META_OF(ctx.args["item"].t, ctx.args["parent_path"].t)),
        note="the record of an item: its name, timestamps, and parent_path = the path it was listed under (None at the root)",
    ))

    # -- _list_items_paginated ------------------------------------------------------------------------------------
    def lip_outer(lc):
        url, pp = fn_arg(lc, "url").t, fn_arg(lc, "parent_path").t
        k = lc.i
        j = z3.Int(fresh_name("j!inv"))
        return z3.And(cur_url(cursor(lc)) == URLK(url, k),
                      ghost_y(lc.st) == FILES(url, pp, k),
                      z3.ForAll([j], z3.Implies(z3.And(j >= 0, j < k), URLK(url, j) != sv("")), patterns=[URLK(url, j)]))

    def lip_inner(lc):
        url, pp = fn_arg(lc, "url").t, fn_arg(lc, "parent_path").t
        k = lc.st.ghost["k"]
        return ghost_y(lc.st) == z3.Concat(FILES(url, pp, k), PF(page_url(lc).t, pp, lc.i))

    out.append(FnContract(
        target=f"{CLIENT}::SharePointRestClient._list_items_paginated",
        params=[("self", CL), ("url", p_str()), ("parent_path", P_PP)],
        hyps=lambda c: z3.BoolVal(True) if at_call_site(c) else z3.And(
            chain_finite(c.args["url"].t), def_files_all(c.args["url"].t, c.args["parent_path"].t)),
        generator=True,
        ensures=[("yields-exactly-the-files-of-all-pages-in-order", lambda c: y_is(c, files_all(c.args["url"].t, c.args["parent_path"].t))),
                 ("responses-closed", closed)],
        raises=listing_raises(),
        loops={"while": CLoop(inv=lip_outer, label="pages"), "for-json": LoopSpec(inv=lip_inner, label="items")},
        modifies=("self",), frame=token_frame,
        result_maker=gen_result(lambda ctx: files_all(ctx.args["url"].t, ctx.args["parent_path"].t)),
        note="yielded = files of pages 0..k in order (loop invariant over the abstract page chain)",
    ))

    # -- _get_folders_from_url ------------------------------------------------------------------------------------
    def all_folders(t):
        """Every member is a folder item (membership form: preserved by append at once in z3)."""
        e = z3.Const(fresh_name("e!fd"), JsonS)
        return z3.ForAll([e], z3.Implies(z3.Contains(t, z3.Unit(e)), is_folder(e)))

    AF = all_folders

    def gf_outer(lc):
        url = fn_arg(lc, "url").t
        k = lc.i
        j = z3.Int(fresh_name("j!inv"))
        fs = seq_of(lc.st, acc_list(lc), JsonS)
        if fs is None:
            raise ops.Unsupported("accumulated list is not a list of JSON items")
        return z3.And(cur_url(cursor(lc)) == URLK(url, k), fs == FOLD(url, k), AF(fs),
                      z3.ForAll([j], z3.Implies(z3.And(j >= 0, j < k), URLK(url, j) != sv("")), patterns=[URLK(url, j)]))

    def gf_inner(lc):
        url = fn_arg(lc, "url").t
        k = lc.st.ghost["k"]
        fs = seq_of(lc.st, acc_list(lc), JsonS)
        if fs is None:
            raise ops.Unsupported("accumulated list is not a list of JSON items")
        return z3.And(fs == z3.Concat(FOLD(url, k), PFOLD(page_url(lc).t, lc.i)), AF(fs))

    def gf_post(c):
        fs = seq_of(c.st, c.result, JsonS)
        if fs is None:
            raise ops.Unsupported("result of _get_folders_from_url is not a recognised list of JSON items")
        return z3.And(fs == folders_all(c.args["url"].t), all_folders(fs))

    def gf_result(ex, st, ctx):
        token_after_success(ex, st, ctx)
        t = folders_all(ctx.args["url"].t)
        # callers get the proved fact as ground instances at the elements they access (`assign` below): the quantified
        # forms made z3's instantiation wander in the callers' VCs (timeouts that came and went with machine load)
        st.ghost[("all-folders", t.get_id())] = t       # = all_folders(t) by the proved lemma chain `members-by-index` (lemmas())
        return seq_value(t, "Json")

    out.append(FnContract(
        target=f"{CLIENT}::SharePointRestClient._get_folders_from_url",
        params=[("self", CL), ("url", p_str())],
        hyps=lambda c: z3.BoolVal(True) if at_call_site(c) else z3.And(
            chain_finite(c.args["url"].t), def_folders_all(c.args["url"].t)),
        ensures=[("returns-exactly-the-folders-of-all-pages-in-order", body_only(gf_post)), ("responses-closed", closed)],
        raises=listing_raises(),
        loops={"while": CLoop(inv=gf_outer, label="pages", acc_sort=JsonS),
               "for-json": CLoop(inv=gf_inner, label="items", acc_sort=JsonS)},
        modifies=("self",), frame=token_frame,
        result_maker=gf_result,
    ))

    # -- _walk_drive_items: modular recursion ----------------------------------------------------------------------
    def walk_url(c_args):
        ctx = ctx_of(c_args["site_id"], c_args["drive_id"])
        it = c_args["item_id"]
        return ctx, (CUROOT(ctx) if isinstance(it, VNoneT) else CU(ctx, it.t))

    def walk_term(args):
        ctx, u = walk_url(args)
        return WALK(ctx, u, args["parent_path"].t)

    def entry_args(lc):
        return {k: fn_arg(lc, k) for k in ("site_id", "item_id", "drive_id", "parent_path")}

    def wd_first(lc):
        a = entry_args(lc)
        _ctx_, u = walk_url(a)
        fa = files_all(u, a["parent_path"].t)
        return ghost_y(lc.st) == TAKE(fa, lc.i)

    def wd_second(lc):
        a = entry_args(lc)
        ctx, u = walk_url(a)
        pp = a["parent_path"].t
        return ghost_y(lc.st) == z3.Concat(files_all(u, pp), WF(ctx, u, pp, lc.i))

    def wd_hyps(c):
        if at_call_site(c):
            return z3.BoolVal(True)
        _ctx_, u = walk_url(c.args)
        return z3.BoolVal(True)

    out.append(FnContract(
        target=f"{CLIENT}::SharePointRestClient._walk_drive_items",
        params=[("self", CL), ("site_id", p_str()), ("item_id", p_opt(p_str())), ("drive_id", P_DRIVE), ("parent_path", P_PP)],
        hyps=wd_hyps,
        generator=True,
        ensures=[("yields-the-preorder-walk:-each-file-once-with-parent-path-=-joined-ancestor-names",
                  lambda c: y_is(c, walk_term(c.args))), ("responses-closed", closed)],
        raises=listing_raises(),
        loops={"for-records": LoopSpec(inv=wd_first, label="files"), "for-json": LoopSpec(inv=wd_second, label="subfolders")},
        modifies=("self",), frame=token_frame,
        result_maker=gen_result(lambda ctx: walk_term(ctx.args)),
        note="PY-REC: the recursive call is used through this same contract (partial correctness; TREE-FINITE)",
    ))

    # -- _get_folder_by_path (abstract folder lookup) ---------------------------------------------------------------
    def gfp_returns(c):
        if not at_call_site(c):
            return [(z3.BoolVal(True), c.result)]     # body: only shape / failure surface are verified (ensures, raises)
        ctx = ctx_of(c.args["site_id"], c.args["drive_id"])
        p = c.args["folder_path"].t
        return [(z3.Not(FP_FOUND(ctx, p)), NONE), (FP_FOUND(ctx, p), VExt("Json", FP_ITEM(ctx, p)))]

    def gfp_shape(c):
        if at_call_site(c):
            token_after_success(c.ex, c.st, c)
            if isinstance(c.result, VExt):
                return z3.And(J_ISDICT(c.result.t), f_has_id(c.result.t))     # GRAPH-SHAPE: a drive item has a non-empty string id
            return z3.BoolVal(True)
        if isinstance(c.result, VNoneT):
            return z3.BoolVal(True)
        if isinstance(c.result, VExt) and c.result.sort == "Json":
            return z3.And(J_ISDICT(c.result.t), J_HAS(c.result.t, sv("folder")))   # only an object with a folder facet is returned
        return z3.BoolVal(False)

    def gfp_addresses(c):
        """Statement ("files of the requested folders, with their parent path"): the one lookup request addresses the
        requested path -- the path component it sends, percent-decoded once (what the server does), is the requested
        path without its outer slashes."""
        urls = c.st.ghost.get("requested", ())
        if len(urls) != 1 or not isinstance(urls[0], VStr):
            raise ops.Unsupported("folder lookup does not make exactly one JSON request with a string URL")
        parts = str_parts(urls[0].t)
        last = parts[-1] if parts else None
        if last is None or not (z3.is_app(last) and last.decl().name() == "url_quote_safe"):
            raise ops.Unsupported("the lookup URL does not end with the percent-encoded path")
        return UNQUOTE(last) == STRIPS(c.args["folder_path"].t)

    def gfp_resource(c):
        """Round 7: what precedes the encoded path is the Graph item-by-path address of the root of exactly the drive asked
        for -- `<v1.0>/sites/{site}/drive/root:/` or `<v1.0>/sites/{site}/drives/{drive}/root:/` (format written here from the
        Graph documentation).  With the clause above the lookup URL is fully determined: nothing of its format is trusted."""
        urls = c.st.ghost.get("requested", ())
        if len(urls) != 1 or not isinstance(urls[0], VStr):
            raise ops.Unsupported("folder lookup does not make exactly one JSON request with a string URL")
        parts = str_parts(urls[0].t)
        if len(parts) < 2:
            return z3.BoolVal(False)
        drv = c.args["drive_id"]
        want = z3.Concat(sv(GRAPH_V1 + "/sites/"), c.args["site_id"].t,
                         sv("/drive") if isinstance(drv, VNoneT) else z3.Concat(sv("/drives/"), drv.t), sv("/root:/"))
        return mk_concat(parts[:-1]) == want

    out.append(FnContract(
        target=f"{CLIENT}::SharePointRestClient._get_folder_by_path",
        params=[("self", CL), ("site_id", p_str()), ("folder_path", p_str()), ("drive_id", P_DRIVE)],
        returns=gfp_returns, ensures=[("returns-None-or-a-folder-item", gfp_shape), ("responses-closed", closed),
                                      ("the-request-addresses-the-requested-path-(percent-decoding-gives-it-back)", body_only(gfp_addresses)),
                                      ("the-request-addresses-the-item-by-path-resource-of-the-drive-asked-for-(graph-path)", body_only(gfp_resource))],
        raises=listing_raises(),
        modifies=("self",), frame=token_frame,
        note="body verified for shape and failure surface (404 -> None, everything else: client family, responses closed); "
             "callers use the ASSUMED abstract lookup FP_FOUND / FP_ITEM for which folder the path denotes",
    ))

    # -- _walk_and_filter ---------------------------------------------------------------------------------------------
    def waf_term(args):
        ctx = ctx_of(args["site_id"], args["drive_id"])
        fp = args["folder_path"]
        return WAF(ctx, args["file_filter"].t, sv("") if isinstance(fp, VNoneT) else fp.t)

    def waf_hyps(c):
        if at_call_site(c):
            return z3.BoolVal(True)
        ctx = ctx_of(c.args["site_id"], c.args["drive_id"])
        fp = c.args["folder_path"]
        path = sv("") if isinstance(fp, VNoneT) else fp.t
        flt = c.args["file_filter"].t
        w = z3.Const(fresh_name("w!df"), SQF)
        return z3.And(def_waf(ctx, flt, path),
                      z3.ForAll([w], def_filtered(flt, w), patterns=[filtered(flt, w)]))

    def waf_inv(lc):
        w = lc.seq.tag[1] if isinstance(lc.seq, VSeq) and isinstance(lc.seq.tag, tuple) else None
        if w is None:
            return z3.BoolVal(False)
        flt = fn_arg(lc, "file_filter").t
        return ghost_y(lc.st) == FILTER(flt, w, lc.i)

    out.append(FnContract(
        target=f"{CLIENT}::SharePointRestClient._walk_and_filter",
        params=[("self", CL), ("site_id", p_str()), ("file_filter", p_filter_abs()), ("folder_path", with_default(p_opt(p_str()), NONE)),
                ("drive_id", P_DRIVE)],
        hyps=waf_hyps,
        generator=True,
        ensures=[("yields-exactly-the-matching-files-of-the-walk-in-order", lambda c: y_is(c, waf_term(c.args))),
                 ("responses-closed", closed)],
        raises=listing_raises(),
        loops={"for-records": LoopSpec(inv=waf_inv, label="walk")},
        modifies=("self",), frame=token_frame,
        result_maker=gen_result(lambda ctx: waf_term(ctx.args)),
    ))

    # -- list_files_filtered ------------------------------------------------------------------------------------------
    def site_of(c):
        sid = self_field(c, "_site_id")
        return sid if isinstance(sid, VStr) else None

    def lff_term(c, n=None):
        sid = site_of(c)
        if sid is None:
            return None
        ctx = ctx_of(sid, c.args["drive_id"])
        flt = c.args["file_filter"].t
        return z3.If(TARGET_N(flt) > 0, LFF(ctx, flt, TARGET_N(flt)), WAF(ctx, flt, sv("")))

    def lff_post(c):
        t = lff_term(c)
        return z3.BoolVal(False) if t is None else y_is(c, t)

    def lff_inv(lc):
        sid = lc.st.obj(fn_arg(lc, "self").ref).data["_site_id"]
        if not isinstance(sid, VStr):
            return z3.BoolVal(False)
        ctx = ctx_of(sid, fn_arg(lc, "drive_id"))
        flt = fn_arg(lc, "file_filter").t
        return ghost_y(lc.st) == LFF(ctx, flt, lc.i)

    out.append(FnContract(
        target=f"{CLIENT}::SharePointRestClient.list_files_filtered",
        params=[("self", CL_SITE), ("file_filter", p_filter_abs()), ("drive_id", P_DRIVE)],
        generator=True,
        ensures=[("yields-exactly-the-matching-files:-per-target-folder-in-order,-or-of-the-whole-drive", body_only(lff_post)),
                 ("responses-closed", closed)],
        raises=[Raises(k, when=lambda c: z3.BoolVal(True) if at_call_site(c) else closed(c)) for k in FAMILY],
        loops={"for-strings": LoopSpec(inv=lff_inv, label="targets")},
        modifies=("self",),
    ))

    # -- list_files_modified_since / list_files_created_since: thin wrappers ---------------------------------------------
    def since_contract(meth, date_field):
        others = [f for f in ("created_after", "created_before", "modified_after", "modified_before") if f != date_field]

        def same_list(c, given, passed, heap):
            """`given or []`: the caller's list when it is a non-empty list, else an empty list."""
            if isinstance(passed, VSeq):
                return z3.BoolVal(passed is given)
            if isinstance(passed, VRef) and passed.ref in heap and heap[passed.ref].kind == "list" and heap[passed.ref].data == []:
                return z3.BoolVal(True) if isinstance(given, VNoneT) else (given.length == 0 if isinstance(given, VSeq) else z3.BoolVal(False))
            return z3.BoolVal(False)

        def delegated(c):
            ds = c.st.ghost.get("delegations", ())
            if len(ds) != 1:
                return z3.BoolVal(False)
            flt, drive, d, heap = ds[0]
            ok = [z3.BoolVal(flt[date_field] is c.args["since"])]
            ok += [z3.BoolVal(isinstance(flt[f], VNoneT)) for f in others]
            ok.append(same_list(c, c.args["folder_paths"], flt["folder_paths"], heap))
            ok.append(same_list(c, c.args["extensions"], flt["extensions"], heap))
            ok.append(same_list(c, NONE, flt["path_patterns"], heap))
            ok.append(z3.BoolVal(drive is c.args["drive_id"] or (isinstance(drive, VNoneT) and isinstance(c.args["drive_id"], VNoneT))))
            return z3.And(ok)

        def yields_delegate(c):
            ds = c.st.ghost.get("delegations", ())
            if c.st.ghost.get("Y_unknown"):
                raise ops.Unsupported("what the wrapper yields is not tracked on this path")
            if len(ds) != 1:
                return z3.BoolVal(False)
            return ghost_y(c.st) == ds[0][2]

        opt_list = lambda nm: with_default(p_opt(p_seq_str(nm)), NONE)  # noqa
        return FnContract(
            target=f"{CLIENT}::SharePointRestClient.{meth}",
            params=[("self", CL_SITE), ("since", p_dt()), ("folder_paths", opt_list(f"{meth}.folder_paths")),
                    ("extensions", opt_list(f"{meth}.extensions")), ("drive_id", P_DRIVE)],
            generator=True,
            ensures=[(f"delegates-once-with-a-filter-that-has-only-{date_field}=since-and-the-given-folders-and-extensions", body_only(delegated)),
                     ("yields-exactly-what-list_files_filtered-yields-for-that-filter", body_only(yields_delegate))],
            raises=[Raises(k, when=lambda c: z3.BoolVal(True)) for k in FAMILY],
            modifies=("self",),
            note="convenience wrapper: list_files_filtered(FileFilter(<date_field>=since, folder_paths, extensions), drive_id)",
        )
    out.append(since_contract("list_files_modified_since", "modified_after"))
    out.append(since_contract("list_files_created_since", "created_after"))

    # -- list_all_files -------------------------------------------------------------------------------------------------
    def laf_walk(c_or_lc_self_data):
        sid = c_or_lc_self_data["_site_id"]
        if not isinstance(sid, VStr):
            return None
        ctx = CTX0(sid.t)
        return WALK(ctx, CUROOT(ctx), sv(""))

    def laf_post(c):
        w = laf_walk(c.st.obj(c.args["self"].ref).data)
        if w is None:
            raise ops.Unsupported("site id not cached as a string after get_site_id")
        fs = seq_of(c.st, c.result, FMS)
        if fs is None:
            raise ops.Unsupported("result of list_all_files is not a recognised list of file records")
        return fs == w

    def laf_inv(lc):
        w = lc.seq.tag[1] if isinstance(lc.seq, VSeq) and isinstance(lc.seq.tag, tuple) else None
        fs = seq_of(lc.st, acc_list(lc), FMS)
        if w is None or fs is None:
            return z3.BoolVal(False)
        return fs == TAKE(w, lc.i)

    out.append(FnContract(
        target=f"{CLIENT}::SharePointRestClient.list_all_files",
        params=[("self", CL_SITE), ("include_root_files", with_default(p_bool(), VBool(True)))],
        hyps=lambda c: z3.BoolVal(True),
        ensures=[("returns-exactly-the-walk-of-the-default-library:-every-file-once,-in-order,-with-its-parent-path", body_only(laf_post)),
                 ("responses-closed", closed)],
        raises=[Raises(k, when=lambda c: z3.BoolVal(True) if at_call_site(c) else closed(c)) for k in FAMILY],
        loops={"for-records": CLoop(inv=laf_inv, label="collect", acc_sort=FMS)},
        modifies=("self",),
    ))
    return out


def lemmas():
    w = z3.Const("w!lem", SQF)
    n = z3.Int("n!lem")
    wj = z3.Const("wj!lem", SQJ)
    e = z3.Const("e!lem", JsonS)
    memb = z3.ForAll([e], z3.Implies(z3.Contains(wj, z3.Unit(e)), is_folder(e)))
    inr = [n >= 0, n < z3.Length(wj)]
    return [
        # take-snoc: w[:n+1] == w[:n] ++ [w[n]]; z3 needs 10 s for it in one query, each step below is immediate
        ("C18/client.py::spec/lemma#take-snoc.1-unit-nth", [n >= 0, n < z3.Length(w)], z3.Unit(w[n]) == z3.SubSeq(w, n, 1)),
        ("C18/client.py::spec/lemma#take-snoc.2-split", [n >= 0, n < z3.Length(w)],
         z3.SubSeq(w, 0, n + 1) == z3.Concat(z3.SubSeq(w, 0, n), z3.SubSeq(w, n, 1))),
        ("C18/client.py::spec/lemma#take-snoc.3-compose",
         [z3.Unit(w[n]) == z3.SubSeq(w, n, 1), z3.SubSeq(w, 0, n + 1) == z3.Concat(z3.SubSeq(w, 0, n), z3.SubSeq(w, n, 1))],
         z3.SubSeq(w, 0, n + 1) == z3.Concat(z3.SubSeq(w, 0, n), z3.Unit(w[n]))),
        # take-all: take(w, n) == w[:n] by induction on n (base, step using the take-snoc instance), then w[:|w|] == w
        ("C18/client.py::spec/lemma#take-all.base", [], TAKE(w, z3.IntVal(0)) == z3.SubSeq(w, 0, 0)),
        ("C18/client.py::spec/lemma#take-all.step",
         [n >= 0, n < z3.Length(w), TAKE(w, n) == z3.SubSeq(w, 0, n),
          z3.SubSeq(w, 0, n + 1) == z3.Concat(z3.SubSeq(w, 0, n), z3.Unit(w[n]))],
         TAKE(w, n + 1) == z3.SubSeq(w, 0, n + 1)),
        ("C18/client.py::spec/lemma#take-all.full", [TAKE(w, z3.Length(w)) == z3.SubSeq(w, 0, z3.Length(w))], TAKE(w, z3.Length(w)) == w),
        # members-by-index: (forall e in t. folder(e)) ==> forall n in range. folder(t[n]); three steps, composed by
        # transitivity (z3 does not find the chain in one query: measured unknown at 10 s)
        ("C18/client.py::spec/lemma#members-by-index.1-unit-nth", inr, z3.Unit(wj[n]) == z3.SubSeq(wj, n, 1)),
        ("C18/client.py::spec/lemma#members-by-index.2-nth-is-member", inr + [z3.Unit(wj[n]) == z3.SubSeq(wj, n, 1)],
         z3.Contains(wj, z3.Unit(wj[n]))),
        ("C18/client.py::spec/lemma#members-by-index.3-member-is-folder", [memb, z3.Contains(wj, z3.Unit(wj[n]))], is_folder(wj[n])),
    ]


# ================================================================== Part E ==
# The engine represents `SharePointRequestError(msg, status_code=.., body=.., url=..)` in client.py by an exception value
# whose attributes ARE the keyword arguments (pyvc construct).  That is a statement about the class's constructor in
# exceptions.py; it is discharged here on the constructor's real body (round 6: a constructor that rewrites the URL it is
# given -- say, to strip a query string -- makes every "carries status and URL" clause of Part B talk about another value).
EXC_FILE = "sharepoint2text/sharepoint_io/exceptions.py"
CARRIED = ("status_code", "url")          # the statement: "the request error carrying status and URL"


def exc_field_kept(name):
    def w(c):
        o = c.st.obj(c.args["self"].ref)
        if o.kind != "obj" or o.data is None or name not in o.data:
            return z3.BoolVal(False)
        return same_value(o.data[name], c.args[name])
    return w


def part_e(reg):
    reg.method_models[("ExceptionSuper", "__init__")] = lambda ex, st, obj, args, kwargs, node: [(st, NONE)]
    return [FnContract(
        target=f"{EXC_FILE}::SharePointRequestError.__init__",
        params=[("self", p_obj("SharePointRequestError", {})), ("message", p_str()), ("status_code", p_opt(p_int())),
                ("body", p_opt(p_str())), ("url", p_str())],
        ensures=[(f"the-error-carries-the-{f}-it-was-given", exc_field_kept(f)) for f in CARRIED],
        raises=[], total=True, modifies=("self",),
        note="the request error reports the status and the URL it was constructed with, unchanged (what the engine assumes of "
             "`SharePointRequestError(..)` at every raise site of client.py)",
    )]


def part_f(reg):
    """Round 7: the constructor of the client -- the initial state the cache typestate (Part D) and every `p_client` start from."""
    def field_of(c, name):
        o = c.st.obj(c.args["self"].ref)
        return o.data.get(name) if o.kind == "obj" and o.data is not None else None

    def caches_empty(c):
        return z3.BoolVal(all(isinstance(field_of(c, f), VNoneT) for f in ("_access_token", "_site_id")))

    def transport_kept(c):
        given, got = c.args["request_func"], field_of(c, "_request")
        if isinstance(given, VExt) and given.sort == "Transport":
            return z3.BoolVal(isinstance(got, VExt) and got.sort == "Transport" and got.t.eq(given.t))
        # none given: the standard library's urlopen, not a transport value of ours
        return z3.BoolVal(got is not None and not isinstance(got, (VNoneT, VExt)))

    def creds_kept(c):
        got = field_of(c, "_credentials")
        return z3.BoolVal(isinstance(got, VRef) and got.ref == c.args["credentials"].ref)

    return [FnContract(
        target=f"{CLIENT}::SharePointRestClient.__init__",
        params=[("self", p_obj("SharePointRestClient", {})), ("site_url", p_str()), ("credentials", CREDS),
                ("request_func", with_default(p_opt(p_transport()), NONE)), ("timeout", with_default(p_unk(), VUnk("timeout")))],
        ensures=[("both-caches-start-empty", caches_empty),
                 ("the-transport-is-the-one-given-(urlopen-when-none-is)", transport_kept),
                 ("the-credentials-are-the-ones-given", creds_kept)],
        raises=[], total=True, modifies=("self",),
        note="a new client holds no token and no site id (so its first listing authenticates and resolves the site), talks through "
             "the transport it was given and authenticates with the credentials it was given",
    )]


def contracts(reg):
    install_string_models(reg)
    install_transport_models(reg)
    install_listing_models(reg)
    return part_a(reg) + part_b(reg) + part_c(reg) + part_e(reg) + part_f(reg)


# ================================================================== Part D ==
def caches_policy(repo, tier):
    """Dataflow / policy obligations on the real AST: the transport is used only inside `_send`; the token and
    site-id caches are stored only in __init__ (None) and after a successful, checked response."""
    import ast
    from pyvc import loader
    from pyvc.flow import MustFacts, Need, dotted, ground_obligation
    m = loader.module(CLIENT, repo)
    obls, fns = [], []
    cls = "SharePointRestClient"
    methods = {q.split(".", 1)[1]: n for q, n in m.functions.items() if q.startswith(cls + ".") and q.count(".") == 1}

    def G(oid, ok, why, definite=True):
        obls.append(ground_obligation(f"C18/client.py::{oid}", ok, why, "client.py", kind="typestate", definite=definite))

    # call graph of the module (methods of the client class and module-level functions), by simple name
    fns_all = dict(methods)
    fns_all.update({q: n for q, n in m.functions.items() if "." not in q})

    def callers(name):
        """Functions that call `name` or take it as a value (self.name / Class.name / bare name for module functions)."""
        out = set()
        for g, fn in fns_all.items():
            for n in ast.walk(fn):
                if isinstance(n, ast.Attribute) and n.attr == name and isinstance(n.ctx, ast.Load) and name in methods \
                        and dotted(n).split(".")[0] in ("self", cls, "cls"):
                    out.add(g)
                elif isinstance(n, ast.Name) and n.id == name and isinstance(n.ctx, ast.Load) and name not in methods:
                    out.add(g)
        out.discard(name)
        return out

    def only_within(name, roots, seen=()):
        """`name` is one of `roots`, or a private helper all of whose callers (transitively) are."""
        if name in roots:
            return True
        if name in seen or not name.startswith("_") or name.startswith("__"):
            return False
        cs = callers(name)
        return bool(cs) and all(only_within(c, roots, seen + (name,)) for c in cs)

    # P1: responses are obtained only within the dynamic extent of _send (its own contract proves that it closes them;
    #     private helpers it delegates to are executed in place there).  Shape-based: a failure is `unknown`, the native
    #     replayer (close() calls under fault injection) decides.
    readers = sorted({name for name, fn in fns_all.items() for n in ast.walk(fn)
                      if isinstance(n, ast.Attribute) and n.attr == "_request" and isinstance(n.ctx, ast.Load)})
    ok1 = bool(readers) and all(only_within(r, {"_send"}) for r in readers)
    G(f"{cls}/typestate#transport-called-only-in-_send", ok1, f"functions reading self._request: {readers}", definite=False)
    uses = [n.lineno for n in ast.walk(m.tree) if isinstance(n, ast.Name) and n.id == "urlopen" and isinstance(n.ctx, ast.Load)]
    init = methods.get("__init__")
    in_init = [n.lineno for n in ast.walk(init) if isinstance(n, ast.Name) and n.id == "urlopen"] if init else []
    G(f"{cls}/typestate#urlopen-only-as-default-transport", uses == in_init and len(uses) <= 1, f"uses at lines {uses}", definite=False)

    # P2: the caches are stored only by __init__ and within the extent of the two functions whose contracts prove
    #     "unchanged on every failure, equal to the checked value on success"
    def stores(attr):
        out = set()
        for name, fn in fns_all.items():
            for n in ast.walk(fn):
                if isinstance(n, ast.Attribute) and n.attr == attr and isinstance(n.ctx, (ast.Store, ast.Del)):
                    out.add(name)
        return sorted(out)
    for attr, owner in (("_access_token", "fetch_access_token"), ("_site_id", "get_site_id")):
        st_ = stores(attr)
        okp = bool(st_) and all(f == "__init__" or only_within(f, {owner}) for f in st_)
        G(f"{cls}/typestate#{attr}-stored-only-by-__init__-and-{owner}", okp, str(st_), definite=False)
    dyn = [n.lineno for n in ast.walk(m.tree) if isinstance(n, ast.Call) and dotted(n.func) in ("setattr", "object.__setattr__", "vars")
           or isinstance(n, ast.Attribute) and n.attr == "__dict__"]
    G(f"{cls}/typestate#no-dynamic-attribute-stores", not dyn, f"lines {dyn}", definite=False)
    if init is not None:
        vals = {}
        for n in ast.walk(init):
            if isinstance(n, (ast.Assign, ast.AnnAssign)) and n.value is not None:
                for t in (n.targets if isinstance(n, ast.Assign) else [n.target]):
                    if isinstance(t, ast.Attribute) and t.attr in ("_access_token", "_site_id"):
                        vals.setdefault(t.attr, []).append(isinstance(n.value, ast.Constant) and n.value.value is None)
        G(f"{cls}.__init__/typestate#caches-start-empty", set(vals) == {"_access_token", "_site_id"} and all(all(v) for v in vals.values()),
          str(vals), definite=False)

    # P3: the store is dominated by the successful request and by the check of what it returned
    class StoreFacts(MustFacts):
        def __init__(self, attr, needed, **kw):
            super().__init__(**kw)
            self.attr, self.needed = attr, needed

        def stmt(self, st, facts):
            if isinstance(st, (ast.Assign, ast.AnnAssign)):
                tg = st.targets if isinstance(st, ast.Assign) else [st.target]
                if any(isinstance(t, ast.Attribute) and t.attr == self.attr for t in tg):
                    facts2 = self._expr(st.value, facts)
                    for f in self.needed:
                        nd = Need(st, f, f"line {st.lineno}: store of self.{self.attr} needs `{f}`")
                        nd.ok = f in facts2
                        self.results.append(nd)
            return super().stmt(st, facts)

    def cond_facts(var_checks):
        def gc(test, branch):
            src = ast.unparse(test)
            return [fact for (text, br, fact) in var_checks if src == text and br == branch]
        return gc

    for (meth, attr, call, checks, needed) in (
            ("fetch_access_token", "_access_token", "self._send", [("not access_token", False, "non-empty")], ["responded", "non-empty"]),
            ("get_site_id", "_site_id", "self._get_json", [("not isinstance(site_id, str)", False, "is-str")], ["responded", "is-str"])):
        fn = methods.get(meth)
        if fn is None:
            G(f"{cls}.{meth}/typestate#{attr}-assigned-only-after-successful-response", False, "method missing", definite=False)
            continue
        sf = StoreFacts(attr, needed, gen=lambda c, call=call: ["responded"] if dotted(c.func) == call else [],
                        gen_cond=cond_facts(checks))
        res = [r for r in sf.run(fn) if isinstance(r.node, (ast.Assign, ast.AnnAssign))]
        bad = [r.desc for r in res if not r.ok]
        if not res or bad:
            # the guard / store is not in the textual shape the dominance analysis knows (inverted test, store moved into a
            # helper, ...): decide semantically -- the function's contract says exactly this (every failure leaves the cache
            # unchanged; on success the cache equals the checked value returned), with helpers executed in place
            why = semantic_cache_rule(repo, meth)
            if why is not None:
                obls.append(ground_obligation(f"C18/client.py::{cls}.{meth}/typestate#{attr}-assigned-only-after-successful-response", True,
                                              why, "client.py", kind="typestate", backend="z3"))
                continue
        G(f"{cls}.{meth}/typestate#{attr}-assigned-only-after-successful-response", bool(res) and not bad,
          "; ".join(bad) or f"{len(res)} fact(s) established at the store", definite=False)   # guard recognised by text only:
        # the semantic version is the contract of the function (raises => cache unchanged; ensures => cached == checked value)
        fns.append(dict(m.fn_info(f"{cls}.{meth}"), obligations=1))
    return {"obligations": obls, "functions": []}


def semantic_cache_rule(repo, meth):
    """-> reason if every `raises` / `ensures` obligation of the method's contract is proved on the current source, else None."""
    from pyvc.contracts import Registry
    from pyvc.exctypes import Universe
    from pyvc import verify
    try:
        reg = Registry()
        cs = contracts(reg)
        for c in cs:
            reg.add(c)
        c = [c for c in cs if c.target.endswith(f"::SharePointRestClient.{meth}")][0]
        rep = verify.run_contract("C18", c, reg, Universe(repo), repo=repo, executor_cls=EXECUTOR, executor_kw=EXECUTOR_KW.get(c.target))
    except Exception:  # noqa
        return None
    if rep.error or rep.out_of_subset:
        return None
    need = [o for o in rep.obligations if o["kind"] in ("raises", "ensures")]
    if not need or any(o["status"] != "proved" for o in need) or not any(o["kind"] == "raises" for o in need):
        return None
    return f"implied by the contract of {meth} on the current source: {len(need)} raises/ensures obligations proved (cache unchanged on every failure, equal to the checked value on success)"


def known_findings(kf, violations, repo, tier):
    """Recorded defects of C18: each witness is replayed natively; a finding that still reproduces prints KNOWN-FINDING.
    The exclusion of C18-overlapping-targets is the hypothesis of the obligation it names, so it covers no violation."""
    import json
    import os
    import subprocess
    root = os.path.dirname(os.path.dirname(os.path.abspath(__file__)))
    out = []
    for f in kf:
        req = {"property": "C18", "obligation": f["obligation"], "known_finding": f["id"], "witness": f.get("witness"), "repo": repo}
        try:
            p = subprocess.run(["/venv/bin/python", os.path.join(root, "replay", "run.py")], input=json.dumps(req), capture_output=True,
                               text=True, timeout=300, cwd=root, env=dict(os.environ, VERIF_REPO=repo))
            lines = [l for l in p.stdout.splitlines() if l.startswith("{")]
            res = json.loads(lines[-1]) if lines else {}
        except Exception as e:  # noqa
            res = {"reproduced": False, "note": f"replay failed: {e}"}
        out.append({"finding": f["id"], "still_fails": bool(res.get("reproduced")), "line": f"{f['id']}: {f['what']}", "covers": [],
                    "exclusion": f.get("exclusion"), "witness_replay": str(res.get("observed") or res.get("note") or "")[:300]})
    return out


def native_listing_suite(repo, tier):
    """BOUNDED stand-in for the parts that are only assumed symbolically (URL format of the folder lookup, the server's routing,
    lazy generator interleavings; the children URL is verified since round 7 and merely cross-checked here): the replayer's suite -- random and crafted fake Graph libraries,
    every filter kind, fault injection at every request index -- run natively against the real code on every check."""
    import json
    import os
    import subprocess
    from pyvc.flow import ground_obligation
    root = os.path.dirname(os.path.dirname(os.path.abspath(__file__)))
    oid = "C18/client.py::SharePointRestClient/bounded#native-listing-suite-(fake-graph-libraries,-filters,-fault-injection)"
    req = {"property": "C18", "obligation": oid, "suite": "quick" if tier == "quick" else "full", "repo": repo}
    try:
        p = subprocess.run(["/venv/bin/python", os.path.join(root, "replay", "run.py")], input=json.dumps(req), capture_output=True,
                           text=True, timeout=1200, cwd=root, env=dict(os.environ, VERIF_REPO=repo))
        lines = [l for l in p.stdout.splitlines() if l.startswith("{")]
        res = json.loads(lines[-1]) if lines else {"note": (p.stderr or p.stdout)[-300:]}
    except Exception as e:  # noqa
        res = {"note": f"replay harness failed: {e}"}
    if res.get("reproduced"):
        o = ground_obligation(oid, False, f"{res.get('target')}: expected {res.get('expected')}; observed {res.get('observed')}"[:600], "client.py",
                              kind="bounded", backend="native")
        o["witness"] = res.get("inputs")
    elif "reproduced" in res:
        o = ground_obligation(oid, True, str(res.get("note", ""))[:300], "client.py", kind="bounded", backend="native")
    else:
        o = ground_obligation(oid, False, str(res.get("note", "no answer from the replayer"))[:300], "client.py", kind="bounded", backend="native",
                              definite=False)
    o["bounded"] = True
    o["bound"] = "fake Graph libraries: depth <= 3, <= 6 items per folder, page sizes 1..4, one injected fault per run (see BOUNDED)"
    return {"obligations": [o], "functions": []}


EXTRA = [caches_policy, native_listing_suite]

TRUSTED = [
    "ISO-SEM: an ISO-8601 timestamp `base.frac tz` denotes `base tz` plus the fraction; 'Z' = +00:00; the first six fraction digits "
    "right-padded with zeros are the floor of the fraction in microseconds; datetime.fromisoformat is exact on whole-second and "
    "six-digit-fraction strings (validated natively by replay/C18.py::check_parse_assumptions, not proved)",
    "T-DET / T-FIN / TREE-FINITE: a healthy server answers GET u with one JSON object JSON_OF(u) (same in both passes over a URL); "
    "page chains and the folder tree are finite",
    "GRAPH-SHAPE: a body that parses as JSON is a JSON object; `value` is an array; name / id / @odata.nextLink / access_token are "
    "strings when present; a folder item found by path has a non-empty id (natively: `[]`, `null`, {\"value\": null} give "
    "AttributeError / TypeError outside the client family -- outside the statement's fault kinds, reported)",
    "URL format of the folder lookup by path: an opaque function of (site, drive, path) whose percent-decoding gives the path back "
    "(round 4 clause); the Graph syntax around it is exercised only by the replayer's fake server.  (The children URL is no longer "
    "trusted: `_build_children_url` is verified against the Graph path format since round 7; the listing layer uses the opaque "
    "name CU / CUROOT of that verified function.)",
    "PY-GEN: a generator under contract is used by its caller through the sequence it yields (eager view); interleavings are covered "
    "natively by the fault-injection replay",
]
ASSUMED_MODELS = [
    "transport `request_func`: T-ONLY raises only HTTPError / URLError or returns a response object (other exceptions, e.g. TimeoutError, "
    "ConnectionResetError from read(), escape `_send` unchanged with all responses closed: proved as the second raises clause, "
    "natively confirmed; they are outside the client family and outside the statement's fault kinds)",
    "response objects: status attribute / getcode(), read(), close() (R-OK: getcode/read do not raise for the family claim)",
    "HTTPError.code / reason / read(); the HTTPError object itself (which wraps the error response) is not closed by `_send` "
    "(natively: fp.closed stays False) -- it is not an object `_send` obtained from the transport's return value",
    "json.loads / json.dumps, bytes.decode, str.encode, str.lower (uninterpreted), fnmatch.fnmatch (uninterpreted), urllib.parse "
    "urlparse / quote / urlencode (uninterpreted, total), urllib.request.Request (full_url = url given; assumed not to raise), "
    "datetime.fromisoformat (ValueError iff not accepted)",
    "urllib.request.Request(url, headers=..): the Authorization header of the new object is the dict entry given (definition on a "
    "fresh object, like full_url)",
]
ASSUMPTIONS = [
    "PY-STR, PY-INT, PY-EXC, PY-ORDER, PY-REC (partial correctness of the recursive walk), PY-LOG (logger calls dropped)",
    "filter bounds are aware datetimes (instants) and server timestamps that parse carry a UTC designator / offset; a naive bound or a "
    "naive timestamp makes FileFilter.matches raise TypeError (natively confirmed) -- excluded by precondition, not by the code",
    "datetimes are abstracted to (microseconds, aware); extensions / patterns are lists of any length (symbolic sequences)",
    "None and '' are both 'absent' for an @odata.nextLink (the code only tests truthiness)",
    "structural string steps (find / split / slice / endswith on concatenations) are each justified by a solver query on the path "
    "condition; lemma chains take-all.*, take-snoc.*, members-by-index.* are composed by transitivity outside the solver",
    "recursive spec functions WALK / WF are meaningful on finite acyclic libraries only (TREE-FINITE)",
    "modular call-site views of verified contracts (no assumption): the listing layer sees FileFilter.matches / get_target_folders as the "
    "abstract MATCHES / target list (contracts in Part A) and the children URL as the opaque CU / CUROOT of its verified Graph-path contract",
]
BOUNDED = [
    {"what": "native replay (replay/C18.py): random libraries of depth <= 3, <= 6 items per folder, page sizes 1..4, 10 fault kinds at "
             "every request index of 5+5 listings, 12 x 10 healthy filtered listings, 432 boundary (timestamp, bound) pairs",
     "role": "witness search and validation of the assumed models; since round 4 also the BOUNDED obligation `native-listing-suite` "
             "(12 fault kinds incl. empty bodies, folder timestamps, percent-escape folder names; round 6: paging links with query "
             "strings, read() failing after the response was handed out, 15 crafted path-pattern sets, request-error fields), "
             "counted as bounded-ok, never as discharged",
     "bound": "libraries of depth <= 3 with <= 6 items per folder, page sizes 1..4, one fault per run; covers what stays assumed "
              "symbolically (server routing, T-DET, lazy generator interleavings).  Round 7: the URL formats it used to stand in "
              "for (_build_children_url, folder lookup, site lookup) and the Authorization header are now discharged deductive "
              "obligations; the suite only cross-checks them"},
]

# path pruning only: an undecided feasibility query keeps the path (sound); short budgets keep generation fast on
# states whose conditions contain recursive spec functions / free strings
EXECUTOR_KW = {f"{CLIENT}::_parse_iso_datetime": {"feas_timeout_ms": 200},
               f"{CLIENT}::SharePointRestClient.get_site_id": {"unshaped_keys": ("id",)},
               f"{CLIENT}::SharePointRestClient._walk_drive_items": {"feas_timeout_ms": 150},
               f"{CLIENT}::SharePointRestClient._walk_and_filter": {"feas_timeout_ms": 150},
               f"{CLIENT}::SharePointRestClient.list_files_filtered": {"feas_timeout_ms": 150},
               f"{CLIENT}::SharePointRestClient.list_all_files": {"feas_timeout_ms": 150}}

MANIFEST_ENTRY = dict(
    text="Deductive proof over the real AST of sharepoint_io/client.py: FileFilter.matches equals the statement's predicate "
         "(instants as reals, symbolic extension / pattern lists); _send closes every response it obtained on every path and maps "
         "HTTPError/URLError/non-2xx to the request error with status and url; paginated listing, folder listing and the recursive "
         "walk yield exactly the files of an abstract page chain / folder tree in order (loop invariants, modular recursion); "
         "caches are written only after a successful checked response; only the client's exception family escapes.",
    note="Assumed: ISO-8601 semantics + fromisoformat exact on six-digit fractions, deterministic finite acyclic server (T-DET/T-FIN/"
         "TREE-FINITE), GRAPH-SHAPE, transport raises only HTTPError/URLError (others escape unchanged, responses closed), URL format of "
         "the folder lookup by path opaque (the children URL is verified), eager generator view; pyvc engine, z3.",
    technique="contract-based deductive verification: AST->VC generation over the real source, string/sequence/recfun VCs in z3",
    design="DESIGN.md §3 C18")
