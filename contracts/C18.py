"""C18 -- SharePoint listing is complete, exact and fault-contained.

Contracts on sharepoint2text/sharepoint_io/client.py (real AST, re-read each run).

Part A (filter): `FileFilter.matches` returns <=> the predicate written from the
statement: date bounds inclusive-after / exclusive-before **on instants**,
extension match case-insensitive, patterns on the full path.  Datetimes are
modelled abstractly as (microseconds, aware?) pairs; the instant denoted by an
ISO-8601 string is a *real* number of microseconds (`SEM_US`), `fnmatch` and
`str.lower` are uninterpreted.
Part B (transport): `_send` closes every response object it obtained before it
returns or raises (ghost set `open`), maps HTTPError/URLError to the request
error carrying status/url, rejects non-2xx; `_get_json`.
Part C (listing): `_list_items_paginated`, `_get_folders_from_url` (loop
invariants over an abstract page chain), `_walk_drive_items` (modular
recursion), `_walk_and_filter`, `list_all_files`, `list_files_filtered`.
Part D (caches): `_access_token` / `_site_id` are assigned only after a
successful response (dataflow obligations).
"""
import z3

from pyvc import ops
from pyvc.contracts import FnContract, LoopSpec, Raises
from pyvc.symex import Executor, LoopCtx, Outcome
from pyvc.state import HeapObj
from pyvc.values import (NONE, V, VBool, VExc, VExt, VFunc, VInt, VNoneT, VRef, VSeq, VStr, VTuple,
                         VUnk, ext_sort, fresh_name)
from pyvc.verify import Maker, p_obj, p_opt, p_str, p_unk, p_int, p_bool

CLIENT = "sharepoint2text/sharepoint_io/client.py"
S, I, R, B = z3.StringSort(), z3.IntSort(), z3.RealSort(), z3.BoolSort()


def sv(x):
    return z3.StringVal(x)


# =============================================================== datetimes ==
# A datetime is abstracted to the pair (us, aware): for an aware datetime `us`
# is the instant in microseconds since the epoch (UTC), for a naive one the
# wall-clock reading.  Ordering comparisons of a naive with an aware datetime
# raise TypeError (Python semantics), == is False.
DT = z3.Datatype("DateTime")
DT.declare("mkdt", ("us", I), ("aware", B))
DT = DT.create()


def dt_val(us, aware):
    return VExt("datetime", DT.mkdt(us, aware))


def p_dt():
    """An arbitrary datetime object."""
    def mk(ex, st, name):
        return VExt("datetime", DT.mkdt(z3.Int(name + ".us"), z3.Bool(name + ".aware")))
    return Maker(mk, desc="datetime (microsecond instant, aware flag)")


# ---- ISO-8601 semantics (spec side) and datetime.fromisoformat (library side)
SEM_OK = z3.Function("iso_denotes", S, B)        # the string is an ISO-8601 timestamp
SEM_US = z3.Function("iso_instant_us", S, R)     # the instant it denotes, in microseconds (a real: any precision)
SEM_AWARE = z3.Function("iso_has_offset", S, B)  # it carries a UTC designator / offset
PY_OK = z3.Function("fromisoformat_ok", S, B)    # datetime.fromisoformat accepts the string
PY_US = z3.Function("fromisoformat_us", S, I)
PY_AWARE = z3.Function("fromisoformat_aware", S, B)
FRAC_US = z3.Function("fraction_us", S, R)       # value of a digit string read as decimal fraction of a second, in us
INTVAL = z3.Function("digits_value", S, I)       # value of a digit string read as integer
LJUST0 = z3.Function("ljust_zero", S, I, S)      # s.ljust(n, "0")
LOWER = z3.Function("str_lower", S, S)
FNMATCH = z3.Function("fnmatch", S, S, B)

DIGITS = z3.Plus(z3.Range("0", "9"))
TZ_ALTS = ("none", "Z", "+", "-")


def tz_norm(tz_kind, tz):
    return sv("+00:00") if tz_kind == "Z" else tz


def iso_axioms_undotted(s, tz_kind):
    """ASSUMED (ISO-SEM, instance for a timestamp without fractional part): 'Z' means +00:00 and
    datetime.fromisoformat is exact on whole-second timestamps with an explicit offset or none."""
    x = z3.Concat(s.arg(0), sv("+00:00")) if tz_kind == "Z" else s
    return z3.And(SEM_OK(s) == PY_OK(x), SEM_US(s) == z3.ToReal(PY_US(x)), SEM_AWARE(s) == PY_AWARE(x))


def iso_axioms_dotted(base, frac, tz_kind, tz):
    """ASSUMED (ISO-SEM, instance for `base.frac tz`, frac a non-empty digit string): the timestamp denotes the
    whole-second timestamp `base tz` plus the fraction; fromisoformat is exact on six-digit fractions; the first six
    digits of the fraction, right-padded with zeros, are the floor of the fraction in microseconds."""
    tzn = tz_norm(tz_kind, tz)
    s = z3.Concat(base, sv("."), frac, tz)
    whole = z3.Concat(base, tzn)
    f6 = LJUST0(z3.SubString(frac, 0, 6), 6)
    six = z3.Concat(base, sv("."), f6, tzn)
    return z3.And(
        SEM_OK(s) == PY_OK(whole), SEM_US(s) == z3.ToReal(PY_US(whole)) + FRAC_US(frac), SEM_AWARE(s) == PY_AWARE(whole),
        FRAC_US(frac) >= 0, FRAC_US(frac) < 1000000, z3.ToInt(FRAC_US(frac)) == INTVAL(f6),
        PY_OK(six) == PY_OK(whole), PY_US(six) == PY_US(whole) + INTVAL(f6), PY_AWARE(six) == PY_AWARE(whole),
        z3.Length(f6) == 6,
    )


OFFSET = z3.Star(z3.Union(z3.Range("0", "9"), z3.Re(":")))


def dotted_structure(base, frac, tz_kind, tz):
    """Shape of `base.frac tz`: no dot before the fraction, fraction = digits, offset = digits and colons."""
    conds = [z3.Not(z3.Contains(base, sv("."))), z3.InRe(frac, DIGITS)]
    if tz_kind in ("+", "-"):
        conds.append(z3.InRe(tz.arg(1), OFFSET))
    return conds


_ISO_FORMS: dict = {}     # term id of the parameter -> description of the structured form


def p_iso_string():
    """`dt_string` of _parse_iso_datetime: structured alternatives `base [. frac] tz` (tz: none | Z | +.. | -..)
    carrying the ISO-SEM axiom instances, plus an unstructured arbitrary string (totality only)."""
    def mk(ex, st, name):
        alts = []
        for k in TZ_ALTS:
            # no fractional part
            body = z3.String(f"{name}!u{k}")
            conds = [z3.Not(z3.Contains(body, sv(".")))]
            if k == "Z":
                s = z3.Concat(body, sv("Z"))
            else:
                s = body
                conds.append(z3.Not(z3.SuffixOf(sv("Z"), s)))
            conds.append(iso_axioms_undotted(s, k))
            _ISO_FORMS[s.get_id()] = ("undotted", k)
            alts.append((z3.And(conds), VStr(s)))
        for k in TZ_ALTS:
            base, frac = z3.String(f"{name}!base{k}"), z3.String(f"{name}!frac{k}")
            if k == "none":
                tz = sv("")
            elif k == "Z":
                tz = sv("Z")
            else:
                tz = z3.Concat(sv(k), z3.String(f"{name}!off{k}"))
            s = z3.Concat(base, sv("."), frac, tz)
            conds = dotted_structure(base, frac, k, tz)
            conds.append(iso_axioms_dotted(base, frac, k, tz))
            _ISO_FORMS[s.get_id()] = ("dotted", k)
            alts.append((z3.And(conds), VStr(s)))
        free = z3.String(f"{name}!any")
        _ISO_FORMS[free.get_id()] = ("any", "")
        alts.append((None, VStr(free)))
        return alts
    return Maker(mk, desc="ISO-8601 timestamp string `base[.frac][tz]` | arbitrary string")


def parsed(s):
    """Spec: what parsing must return for a denoting string: the instant at datetime resolution (microseconds;
    exact w.r.t. every comparison with a datetime bound because bounds lie on the microsecond grid)."""
    return dt_val(z3.ToInt(SEM_US(s)), SEM_AWARE(s))


# =========================================================== library models ==
def m_lower(ex, st, args, kwargs, node):
    s = args[0]
    c = s.const()
    if c is not None:
        return [(st, VStr(c.lower()))]
    return [(st, VStr(LOWER(s.t)))]


def m_fnmatch(ex, st, args, kwargs, node):
    """fnmatch.fnmatch(name, pattern): ASSUMED total and deterministic on strings (uninterpreted)."""
    a, b = args
    if not (isinstance(a, VStr) and isinstance(b, VStr)):
        return ex.havoc_call(st, "fnmatch.fnmatch", args, node)
    return [(st, VBool(FNMATCH(a.t, b.t)))]


def m_fromisoformat(ex, st, args, kwargs, node):
    """datetime.fromisoformat(x): ASSUMED -- ValueError when it does not accept x, else the datetime
    (PY_US(x), PY_AWARE(x)); TypeError for a non-string."""
    x = args[0]
    if not isinstance(x, VStr):
        ex.raise_in(st, ex.mk_exc("TypeError"))
        return []
    st2 = ex.fork_raise(st, z3.Not(PY_OK(x.t)), "ValueError")
    if st2 is None:
        return []
    return [(st2, dt_val(PY_US(x.t), PY_AWARE(x.t)))]


# ---- structural string reasoning -------------------------------------------
# z3's sequence solver does not find `indexof(base ++ "." ++ x, ".") = |base|` inside a larger VC (measured: unknown
# at 10 s; cvc5 proves the isolated lemma at once).  The executor therefore resolves find / split / slices on
# concatenations structurally.  Every step is justified by a solver query against the current path condition
# (`proves`), so this is eager lemma application, not an assumption; when a step cannot be justified the plain
# z3 term (IndexOf / SubString) is used.
def str_parts(t):
    if z3.is_app(t) and t.decl().kind() == z3.Z3_OP_SEQ_CONCAT:
        out = []
        for ch in t.children():
            out.extend(str_parts(ch))
        return out
    if z3.is_string_value(t) and t.as_string() == "":
        return []
    return [t]


def part_len(p):
    return z3.IntVal(len(p.as_string())) if z3.is_string_value(p) else z3.Length(p)


def mk_concat(parts):
    parts = [p for p in parts if not (z3.is_string_value(p) and p.as_string() == "")]
    merged = []
    for p in parts:
        if merged and z3.is_string_value(p) and z3.is_string_value(merged[-1]):
            merged[-1] = sv(merged[-1].as_string() + p.as_string())
        else:
            merged.append(p)
    if not merged:
        return sv("")
    if len(merged) == 1:
        return merged[0]
    return z3.Concat(*merged)


def proves(ex, st, fact, timeout_ms=1500):
    sol = z3.Solver()
    sol.set("timeout", timeout_ms)
    sol.add(*[c for c in st.pc])
    sol.add(z3.Not(fact))
    return sol.check() == z3.unsat


def struct_index_of(ex, st, t, sep: str):
    """Int term equal to t.find(sep) (sep a constant), or None if the structure does not decide it."""
    parts = str_parts(t)
    pos = z3.IntVal(0)
    for p in parts:
        if z3.is_string_value(p):
            lit = p.as_string()
            k = lit.find(sep)
            if k >= 0:
                return z3.simplify(pos + k)
            if len(sep) > 1 and any(lit.endswith(sep[:j]) for j in range(1, len(sep))):
                return None
        else:
            if len(sep) != 1 or not proves(ex, st, z3.Not(z3.Contains(p, sv(sep)))):
                return None
        pos = pos + part_len(p)
    return z3.IntVal(-1)


def struct_cut(ex, st, parts, pos):
    """Split `parts` at character position `pos` (Int term): (left parts, right parts) or None."""
    acc = z3.IntVal(0)
    for k in range(len(parts) + 1):
        d = z3.simplify(pos - acc)
        if z3.is_int_value(d):
            dv = d.as_long()
            if dv == 0:
                return parts[:k], parts[k:]
            if k < len(parts) and z3.is_string_value(parts[k]) and 0 < dv < len(parts[k].as_string()):
                lit = parts[k].as_string()
                return parts[:k] + [sv(lit[:dv])], [sv(lit[dv:])] + parts[k + 1:]
        if k < len(parts):
            acc = acc + part_len(parts[k])
    acc = z3.IntVal(0)
    for k in range(len(parts) + 1):
        if proves(ex, st, pos == acc, 500):
            return parts[:k], parts[k:]
        if k < len(parts):
            acc = acc + part_len(parts[k])
    return None


def struct_substr(ex, st, t, lo, hi):
    """t[lo:hi] for in-range positions lo <= hi given as Int terms (None = end): term or None."""
    parts = str_parts(t)
    c1 = struct_cut(ex, st, parts, lo)
    if c1 is None:
        return None
    if hi is None:
        return mk_concat(c1[1])
    c2 = struct_cut(ex, st, c1[1], z3.simplify(hi - lo))
    if c2 is None:
        return None
    return mk_concat(c2[0])


def struct_endswith(ex, st, parts, ch: str):
    """Bool term equal to `concat(parts).endswith(ch)` for a single character ch (exact case split on the last part)."""
    if not parts:
        return z3.BoolVal(False)
    p = parts[-1]
    if z3.is_string_value(p):
        return z3.BoolVal(p.as_string().endswith(ch))
    rest = struct_endswith(ex, st, parts[:-1], ch)
    if proves(ex, st, z3.Not(z3.SuffixOf(sv(ch), p)), 500):
        if z3.is_false(rest) or proves(ex, st, z3.Length(p) > 0, 500):
            return z3.BoolVal(False)
        return z3.And(z3.Length(p) == 0, rest)
    return z3.Or(z3.SuffixOf(sv(ch), p), z3.And(z3.Length(p) == 0, rest))


def m_split(ex, st, args, kwargs, node):
    """str.split(sep, 1) with a constant separator: one part if sep does not occur, else the text before the
    first occurrence and the text after it."""
    s = args[0]
    if len(args) == 3 and isinstance(args[1], VStr) and args[1].const() and isinstance(args[2], VInt) and args[2].const() == 1:
        sepc = args[1].const()
        sep = args[1].t
        idx = struct_index_of(ex, st, s.t, sepc)
        if idx is not None:
            if z3.is_int_value(idx) and idx.as_long() == -1:
                return [(st, ex.new_list(st, [s]))]
            head = struct_substr(ex, st, s.t, z3.IntVal(0), idx)
            tail = struct_substr(ex, st, s.t, z3.simplify(idx + len(sepc)), None)
            if head is not None and tail is not None:
                return [(st, ex.new_list(st, [VStr(head), VStr(tail)]))]
        idx = z3.IndexOf(s.t, sep, 0)
        out = []
        has = z3.Contains(s.t, sep)
        if ex.feasible(st.pc, has):
            s1 = st.fork().assume(has)
            head = z3.SubString(s.t, 0, idx)
            tail = z3.SubString(s.t, idx + z3.Length(sep), z3.Length(s.t) - idx - z3.Length(sep))
            out.append((s1, ex.new_list(s1, [VStr(head), VStr(tail)])))
        if ex.feasible(st.pc, z3.Not(has)):
            s2 = st.fork().assume(z3.Not(has))
            out.append((s2, ex.new_list(s2, [s])))
        return out
    return [(st, VUnk("str.split"))]


def m_ljust(ex, st, args, kwargs, node):
    s = args[0]
    if len(args) == 3 and isinstance(args[1], VInt) and isinstance(args[2], VStr) and args[2].const() == "0":
        n = ops.int_term(args[1])
        c, k = s.const(), args[1].const()
        if c is not None and k is not None:
            return [(st, VStr(c.ljust(k, "0")))]
        return [(st, VStr(LJUST0(s.t, n)))]
    return [(st, VUnk("str.ljust"))]


def install_string_models(reg):
    reg.ext_models["str.lower"] = m_lower
    reg.ext_models["str.split"] = m_split
    reg.ext_models["str.ljust"] = m_ljust
    reg.ext_models["fnmatch.fnmatch"] = m_fnmatch
    reg.ext_models["datetime.datetime.fromisoformat"] = m_fromisoformat


# ================================================================ executor ==
def subst_v(v: V, i, j):
    """v with the Int constant i replaced by the term j."""
    if isinstance(v, VBool):
        return VBool(z3.substitute(v.t, (i, j)))
    if isinstance(v, VStr):
        return VStr(z3.substitute(v.t, (i, j)))
    if isinstance(v, VInt):
        return VInt(z3.substitute(v.t, (i, j)))
    if isinstance(v, VExt):
        return VExt(v.sort, z3.substitute(v.t, (i, j)))
    raise ops.Unsupported(f"element kind {v.kind} in symbolic comprehension")


class C18Executor(Executor):
    """Pack-local extensions: datetime comparison, generator expressions over
    symbolic sequences (`any(f(x) for x in seq)` becomes an existential)."""

    # -- datetime ------------------------------------------------------------
    def compare(self, st, op, a, b, node):
        if isinstance(a, VExt) and isinstance(b, VExt) and a.sort == b.sort == "datetime":
            ua, ub = DT.us(a.t), DT.us(b.t)
            aa, ab = DT.aware(a.t), DT.aware(b.t)
            if op in ("Eq", "NotEq"):
                t = z3.And(aa == ab, ua == ub)
                return [(st, VBool(t if op == "Eq" else z3.Not(t)))]
            if op in ("Lt", "LtE", "Gt", "GtE"):
                st2 = self.fork_raise(st, aa != ab, "TypeError")   # can't compare offset-naive and offset-aware
                if st2 is None:
                    return []
                return [(st2, VBool({"Lt": ua < ub, "LtE": ua <= ub, "Gt": ua > ub, "GtE": ua >= ub}[op]))]
        return super().compare(st, op, a, b, node)

    # -- strings: structural find / slices (see str_parts) ----------------------
    def str_method(self, st, s, name, args, kwargs, node):
        if name == "find" and len(args) == 1 and isinstance(args[0], VStr) and args[0].const():
            idx = struct_index_of(self, st, s.t, args[0].const())
            if idx is not None:
                return [(st, VInt(idx))]
        if name == "endswith" and len(args) == 1 and isinstance(args[0], VStr) and args[0].const() and len(args[0].const()) == 1:
            return [(st, VBool(z3.simplify(struct_endswith(self, st, str_parts(s.t), args[0].const()))))]
        return super().str_method(st, s, name, args, kwargs, node)

    def contains(self, st, container, item, node):
        if isinstance(container, VStr) and isinstance(item, VStr) and item.const() and len(item.const()) == 1:
            ch = item.const()
            terms = []
            for p in str_parts(container.t):
                if z3.is_string_value(p):
                    if ch in p.as_string():
                        return [(st, VBool(True))]
                elif not proves(self, st, z3.Not(z3.Contains(p, sv(ch))), 500):
                    terms.append(z3.Contains(p, sv(ch)))
            return [(st, VBool(z3.Or(terms) if terms else z3.BoolVal(False)))]
        return super().contains(st, container, item, node)

    def str_slice(self, st, base, sl, node):
        if sl.step is None:
            ln = z3.simplify(z3.Length(base.t))

            def pos(e, dflt):
                if e is None:
                    return dflt
                t = self._ev_int1(e, st, node)
                tc = z3.simplify(t)
                if z3.is_int_value(tc):
                    c = tc.as_long()
                    if c < 0:
                        return z3.simplify(ln + c) if proves(self, st, ln + c >= 0, 500) else None
                    return tc if (c == 0 or proves(self, st, ln >= c, 500)) else None
                return tc if proves(self, st, z3.And(tc >= 0, tc <= ln), 500) else None
            lo, hi = pos(sl.lower, z3.IntVal(0)), pos(sl.upper, "end")
            if lo is not None and hi is not None:
                if isinstance(hi, str) or proves(self, st, lo <= hi, 500):
                    r = struct_substr(self, st, base.t, lo, None if isinstance(hi, str) else hi)
                    if r is not None:
                        return [(st, VStr(r))]
        return super().str_slice(st, base, sl, node)

    # -- comprehensions over symbolic sequences ------------------------------
    def e_GeneratorExp(self, n, st):
        if len(n.generators) == 1 and not n.generators[0].ifs and isinstance(n.generators[0].target, ast_Name):
            g = n.generators[0]
            its = self.ev(g.iter, st)
            if len(its) == 1 and isinstance(its[0][1], VSeq):
                s2, seq = its[0]
                i = z3.Int(fresh_name("ci"))
                from pyvc.state import Frame
                fr = Frame({}, len(s2.frames) - 1, s2.frame.fnode)
                s2.frames.append(fr)
                mark = len(self.sinks[-1])
                pclen = len(s2.pc)
                s2.bind(g.target.id, seq.elem(i))
                res = self.ev(n.elt, s2)
                if len(res) != 1 or len(self.sinks[-1]) != mark or len(res[0][0].pc) != pclen:
                    self.unsupported(n, "forking / raising element expression in comprehension over a symbolic sequence")
                s3, val = res[0]
                s3.frames.pop()
                return [(s3, VSeq(seq.length, lambda j, val=val, i=i: subst_v(val, i, j), val.kind))]
        return super().e_GeneratorExp(n, st)

    def b_any(self, st, args, kwargs, node):
        v = args[0]
        if isinstance(v, VSeq):
            j = z3.Int(fresh_name("j"))
            return [(st, VBool(z3.Exists([j], z3.And(j >= 0, j < v.length, self.truth(st, v.elem(j)).t))))]
        return super().b_any(st, args, kwargs, node)


import ast as _ast  # noqa: E402
ast_Name = _ast.Name

EXECUTOR = C18Executor


# ================================================================== Part A ==
def p_seq_str(fname):
    """A list of strings of any length (immutable view)."""
    def mk(ex, st, name):
        n = z3.Int(f"{fname}.len")
        at = z3.Function(f"{fname}.at", I, S)
        return [(n >= 0, VSeq(n, lambda i: VStr(at(i)), "str", tag=fname))]
    return Maker(mk, desc="list[str] of any length")


META = p_obj("SharePointFileMetadata", {
    "name": p_str(), "id": p_str(), "web_url": p_str(), "download_url": p_unk(), "size": p_unk(), "mime_type": p_unk(),
    "last_modified": p_opt(p_str()), "created": p_opt(p_str()), "parent_path": p_opt(p_str()), "custom_fields": p_unk()})

FILTER = p_obj("FileFilter", {
    "created_after": p_opt(p_dt()), "created_before": p_opt(p_dt()),
    "modified_after": p_opt(p_dt()), "modified_before": p_opt(p_dt()),
    "folder_paths": p_unk(), "path_patterns": p_seq_str("path_patterns"), "extensions": p_seq_str("extensions")})


def fields(c, pname, st=None):
    st = st or c.entry
    return st.obj(c.args[pname].ref).data


def full_path_spec(meta_fields):
    """Statement: the full path = parent path and name joined by '/', or the name alone at the root."""
    pp, name = meta_fields["parent_path"], meta_fields["name"]
    if isinstance(pp, VNoneT):
        return name.t
    return z3.If(z3.Length(pp.t) > 0, z3.Concat(pp.t, sv("/"), name.t), name.t)


def date_ok(s, after, before):
    """Statement: inclusive-after and exclusive-before, on the instant the file's timestamp denotes."""
    if isinstance(after, VNoneT) and isinstance(before, VNoneT):
        return z3.BoolVal(True)
    if isinstance(s, VNoneT):
        return z3.BoolVal(False)
    t = SEM_US(s.t)
    cs = [z3.Length(s.t) > 0, SEM_OK(s.t)]
    if not isinstance(after, VNoneT):
        cs.append(t >= z3.ToReal(DT.us(after.t)))
    if not isinstance(before, VNoneT):
        cs.append(t < z3.ToReal(DT.us(before.t)))
    return z3.And(cs)


def any_of(seq: VSeq, pred):
    j = z3.Int(fresh_name("k!spec"))
    return z3.Exists([j], z3.And(j >= 0, j < seq.length, pred(seq.elem(j).t)))


def matches_spec(c):
    f, m = fields(c, "self"), fields(c, "file_meta")
    name = m["name"].t
    exts, pats = f["extensions"], f["path_patterns"]
    fp = full_path_spec(m)
    ext_ok = z3.Or(exts.length == 0, any_of(exts, lambda e: z3.SuffixOf(LOWER(e), LOWER(name))))
    pat_ok = z3.Or(pats.length == 0, any_of(pats, lambda p: FNMATCH(fp, p)))
    return z3.And(date_ok(m["created"], f["created_after"], f["created_before"]),
                  date_ok(m["last_modified"], f["modified_after"], f["modified_before"]),
                  ext_ok, pat_ok)


def matches_requires(c):
    """Bounds are instants (aware datetimes); timestamps sent by the server carry a UTC designator / offset."""
    f, m = fields(c, "self"), fields(c, "file_meta")
    cs = []
    for k in ("created_after", "created_before", "modified_after", "modified_before"):
        if not isinstance(f[k], VNoneT):
            cs.append(DT.aware(f[k].t))
    for k in ("created", "last_modified"):
        if not isinstance(m[k], VNoneT):
            cs.append(z3.Implies(SEM_OK(m[k].t), SEM_AWARE(m[k].t)))
    return z3.And(cs + [z3.BoolVal(True)])


def parse_returns(c):
    s = c.args["dt_string"].t
    form = _ISO_FORMS.get(s.get_id(), ("call-site", ""))
    if form[0] == "any":
        # arbitrary string: totality only (None or some datetime)
        if c.result is None or isinstance(c.result, VNoneT):
            return NONE
        return c.result
    return [(z3.Not(SEM_OK(s)), NONE), (SEM_OK(s), parsed(s))]


def part_a(reg):
    out = []
    out.append(FnContract(
        target=f"{CLIENT}::SharePointFileMetadata.get_full_path",
        params=[("self", META)],
        returns=lambda c: VStr(full_path_spec(fields(c, "self"))),
        note="full path = parent_path/name, or name at the root",
    ))
    out.append(FnContract(
        target=f"{CLIENT}::_parse_iso_datetime",
        params=[("dt_string", p_iso_string())],
        returns=parse_returns,
        raises=[],
        note="returns the instant denoted by the ISO-8601 string at datetime (microsecond) resolution, None if it denotes none",
    ))
    out.append(FnContract(
        target=f"{CLIENT}::FileFilter.matches",
        params=[("self", FILTER), ("file_meta", META)],
        requires=matches_requires,
        returns=lambda c: VBool(matches_spec(c)),
        raises=[],
        note="matches <=> date bounds (inclusive-after, exclusive-before, on instants) and case-insensitive extension "
             "and some pattern fnmatches the full path",
    ))
    return out


def contracts(reg):
    install_string_models(reg)
    return part_a(reg)


TRUSTED = []
ASSUMED_MODELS = []
ASSUMPTIONS = []

EXECUTOR_KW = {f"{CLIENT}::_parse_iso_datetime": {"feas_timeout_ms": 300}}
